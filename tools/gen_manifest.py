#!/usr/bin/env python3
"""Regenerates /verif/MANIFEST.json from the rule modules present in
mythverif/rules (each provides META) and tools/not_applicable.json."""
import importlib
import json
import os
import sys

ROOT = os.path.dirname(os.path.dirname(os.path.abspath(__file__)))
sys.path.insert(0, ROOT)
props = [json.loads(l) for l in open(os.path.join(ROOT, 'properties.jsonl'))]
na_path = os.path.join(ROOT, 'tools', 'not_applicable.json')
na_reasons = json.load(open(na_path)) if os.path.exists(na_path) else {}
checks = []
na = []
for p in props:
    pid = p['id']
    try:
        mod = importlib.import_module('mythverif.rules.' + pid.lower())
    except ImportError:
        mod = None
    if mod is None or getattr(mod, 'META', {}).get('disabled'):
        na.append({'property_id': pid, 'reason': na_reasons.get(pid, 'no static check is registered for this property yet (see DESIGN.md section 4 for the planned structural clauses)')})
        continue
    M = mod.META
    checks.append({
        'property_id': pid,
        'quick_cmd': './check %s quick' % pid,
        'thorough_cmd': './check %s thorough' % pid,
        'evidence_file': '/verif/evidence/%s.json' % pid,
        'replay_cmd_template': './check %s --replay {path}' % pid,
        'engine': 'mythverif',
        'level_claimed': {
            'category': 'other',
            'text': 'Static structural obligations decided on the LLVM IR of the current /repo tree (all paths / all '
                    'sites of the anchored mechanism): ' + M['explanation'] + ' These are necessary conditions of the '
                    'behavioural property; the behaviour under all schedules/inputs itself is NOT decided: ' + M['not_decided'] + '.',
            'design_ref': 'DESIGN.md section 4, ' + pid,
        },
        'level_note': 'Trusted: clang-14/LLVM-14 front end and analyses, engine/mythir, the rule tables in mythverif/rules/%s.py '
                      '(frozen from the reviewed tree; a vanished anchor or a rule below its floor exits 2). Assumes: %s'
                      % (pid.lower(), '; '.join(M.get('assumptions', [])) or 'configured amd64 build'),
        'technique': M.get('technique', 'static analysis: CFG dominance / must-pass-through / value-flow rules over LLVM IR with bounded inlining'),
    })
man = {
    'version': 1,
    'setup_cmd': 'make -C /verif/engine',
    'hooks': {
        'guard': 'MASSIVETHREADS_VERIF',
        'enable': 'not needed: the checks compile /repo sources to LLVM IR with clang-14 using the flags read from /repo/src/Makefile; no hook code exists in /repo',
        'baseline_off_cmd': 'cd /repo && make -j16 >/dev/null 2>&1 && make -j8 check',
        'source_commits': [],
        'add_only': True,
    },
    'engines': [{
        'name': 'mythverif',
        'path': '/verif/mythverif (rules), /verif/engine/mythir.cc (LLVM-14 fact extractor), /verif/check (driver)',
        'serves_properties': [c['property_id'] for c in checks],
        'kind_free_text': 'repository-specific static analysis: clang-14 IR -> libLLVM fact extractor (CFG, dominators, loops, SCEV, struct-field paths, inline-asm templates) -> Python rules (dominance, must-pass-through, lock typestate, value flow, asm stack-effect parsing) + compile-only witnesses',
    }],
    'checks': checks,
    'notes': 'Exit codes: 0 held, 1 VIOLATION lines, 2 ANALYSIS-BROKEN. Known findings: /verif/known_findings.json. Thorough tier adds all three library flavours and a seeded-mutant self-test of the checker.',
    'not_applicable': na,
}
json.dump(man, open(os.path.join(ROOT, 'MANIFEST.json'), 'w'), indent=1)
print('checks:', [c['property_id'] for c in checks], 'n/a:', len(na))
