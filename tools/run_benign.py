#!/usr/bin/env python3
"""tools/run_benign.py [patch.diff ...] -- false-alarm regression: applies each behaviour-preserving refactoring under
tools/benign/ to a scratch copy of /repo's sources (never to /repo) and runs every quick check against it.
Every check must stay silent.  Exit 1 and a list of (patch, property, rule instance) otherwise."""
import glob, os, shutil, subprocess, sys
from concurrent.futures import ThreadPoolExecutor
HERE = os.path.dirname(os.path.dirname(os.path.abspath(__file__)))
sys.path.insert(0, HERE)
from mythverif import selftest

PROPS = ['C%02d' % i for i in range(1, 21)]


def one(patch):
    d = selftest.scratch_copy('/repo')
    try:
        r = subprocess.run(['patch', '-p1', '-s', '-d', d, '-i', os.path.abspath(patch)], stdout=subprocess.PIPE, stderr=subprocess.STDOUT, text=True)
        if r.returncode != 0:
            return patch, [('-', 'patch does not apply: ' + r.stdout.strip()[:200])]
        env = dict(os.environ, MYTHVERIF_REPO=d, MYTHVERIF_NO_EVIDENCE='1')
        bad = []
        for p in PROPS:
            r = subprocess.run([os.path.join(HERE, 'check'), p, 'quick'], env=env, stdout=subprocess.PIPE, stderr=subprocess.STDOUT, text=True)
            if r.returncode != 0:
                lines = [l.strip() for l in r.stdout.splitlines() if l.strip().startswith('rule ') or 'ANALYSIS-BROKEN' in l]
                bad += [(p, l[:200]) for l in lines] or [(p, 'exit %d' % r.returncode)]
        return patch, bad
    finally:
        shutil.rmtree(d, ignore_errors=True)


def main():
    patches = sys.argv[1:] or sorted(glob.glob(os.path.join(HERE, 'tools', 'benign', '*.diff')))
    rc = 0
    with ThreadPoolExecutor(max_workers=6) as ex:
        for patch, bad in ex.map(one, patches):
            print('%-50s %s' % (os.path.basename(patch), 'silent' if not bad else 'FALSE ALARM'))
            for p, l in bad:
                rc = 1
                print('     %s %s' % (p, l))
    print('%d benign refactorings, %s' % (len(patches), 'all checks silent' if rc == 0 else 'false alarms above'))
    return rc


if __name__ == '__main__':
    sys.exit(main())
