#!/usr/bin/env python3
"""tools/mut_sweep.py gen|check|suite|report  -- systematic mutation sweep over the functions the rules analyse.

gen    : enumerate single-line mutants (statement deletion, negated condition, relational / logical operator swap, +-1
         tweaks) in the source ranges of the functions named in evidence/*.json, only on lines that carry compiled code
         (debug-info line tables), at most N per function; writes /tmp/mut/<id>.diff and /tmp/mut/index.json
check  : for every mutant, apply it to a scratch copy of the sources and run all 20 quick checks; records which fire
suite  : for the mutants no check reported, build the library in a scratch worktree and run the pinned test suite
report : list the survivors of both (candidates for triage: either equivalent mutants or rule gaps)

Nothing here is registered in MANIFEST; it is a development aid for finding rule gaps.  Scratch data lives under /tmp."""
import glob, json, os, random, re, shutil, subprocess, sys
from concurrent.futures import ThreadPoolExecutor
HERE = os.path.dirname(os.path.dirname(os.path.abspath(__file__)))
sys.path.insert(0, HERE)
from mythverif import selftest
from mythverif.core import Context

OUT = os.environ.get('MUT_OUT', '/tmp/mut')      # MUT_OUT / MUT_ONLY=f1,f2 : a second sweep restricted to some functions
PROPS = ['C%02d' % i for i in range(1, 21)]
PER_FN = int(os.environ.get('MUT_PER_FN', '6'))


def fn_ranges():
    """{(file, first_line, last_line, fn)} for analysed functions, by brace matching from the DI declaration line"""
    names = set()
    for f in glob.glob(os.path.join(HERE, 'evidence', 'C*.json')):
        names |= set(json.load(open(f))['coverage'].get('functions', []))
    names = set(n for n in names if not n.startswith(('__wrap_', 'real_', '_Z')))
    if os.environ.get('MUT_ONLY'):
        names = set(os.environ['MUT_ONLY'].split(','))
    ctx = Context('MUT')
    locs = {}
    lines_with_code = {}
    units = [('myth_if_native.c', 'src'), ('myth_worker.c', 'src'), ('myth_init.c', 'src'), ('myth_bind_worker.c', 'src'),
             ('myth_wrap_pthread.c', 'src'), ('dag_recorder.c', 'profiler'), ('dag_recorder_no_inl.c', 'profiler'),
             ('dr_dump.c', 'profiler'), ('chronological.c', 'profiler'), ('gen_stat.c', 'profiler'), ('read_dag.c', 'profiler')]
    for tu, area in units:
        try:
            m = ctx.ssa(tu, flavour='ld' if tu == 'myth_wrap_pthread.c' else 'vanilla', area=area)
        except Exception as e:
            print('skip', tu, e)
            continue
        for name, f in m.functions.items():
            for i in f.order:
                if i.d.get('inl'):
                    continue
                loc = i.loc or ''
                if ':' in loc and i.line:
                    lines_with_code.setdefault(loc.rsplit(':', 1)[0], set()).add(i.line)
            if name in names and name not in locs and f.loc and ':' in f.loc:
                locs[name] = f.loc
    ctx.close()
    out = []
    for name, loc in sorted(locs.items()):
        rel, ln = loc.rsplit(':', 1)
        path = os.path.join('/repo', rel)
        if not os.path.exists(path):
            continue
        src = open(path).read().split('\n')
        i = int(ln) - 1
        depth, started, j = 0, False, i
        while j < len(src) and j < i + 400:
            for ch in re.sub(r'"(\\.|[^"\\])*"|\'(\\.|[^\'\\])*\'', '', src[j]):
                if ch == '{':
                    depth += 1
                    started = True
                elif ch == '}':
                    depth -= 1
            if started and depth <= 0:
                break
            j += 1
        out.append((rel, i + 1, j + 1, name))
    return out, lines_with_code


REL = [(' == ', ' != '), (' != ', ' == '), (' <= ', ' < '), (' >= ', ' > '), (' < ', ' <= '), (' > ', ' >= '), ('==', '!='), ('!=', '==')]


def mutants_of_line(line):
    s = line.rstrip()
    st = s.strip()
    if not st or st.startswith(('#', '//', '/*', '*')):
        return []
    out = []
    code = re.sub(r'//.*$', '', s)
    if re.match(r'^\s*[A-Za-z_(*].*;\s*$', code) and not re.match(r'^\s*(return|break|continue|goto|case|default|else|do|for|while|if)\b', code.strip()) \
            and '{' not in code and '}' not in code:
        out.append(('delete-statement', re.sub(r'\S.*$', ';', s, count=1)))
    m = re.match(r'^(\s*(?:\}\s*else\s+)?if\s*\()(.*)(\)\s*\{?\s*)$', code)
    if m and m.group(2).count('(') == m.group(2).count(')'):
        out.append(('negate-condition', '%s!(%s)%s' % (m.group(1), m.group(2), m.group(3))))
    for a, b in REL:
        if a in code and '->' not in a:
            k = code.index(a)
            if a.strip() in ('<', '>') and ('->' in code[max(0, k - 2):k + 3] or '<<' in code[max(0, k - 1):k + 3] or '>>' in code[max(0, k - 1):k + 3]):
                continue
            out.append(('relational %s -> %s' % (a.strip(), b.strip()), code[:k] + b + code[k + len(a):]))
            break
    if ' && ' in code:
        out.append(('&& -> ||', code.replace(' && ', ' || ', 1)))
    elif ' || ' in code:
        out.append(('|| -> &&', code.replace(' || ', ' && ', 1)))
    m = re.search(r'([+-]) ?1\b(?!\d)', code)
    if m and 'case' not in code and not re.search(r'[eE]%s ?1' % re.escape(m.group(1)), code):
        out.append(('%s1 dropped' % m.group(1), code[:m.start()] + code[m.end():]))
    return [(op, new) for op, new in out if new != s]


def gen():
    shutil.rmtree(OUT, ignore_errors=True)
    os.makedirs(OUT)
    rng = random.Random(20261003)
    ranges, coded = fn_ranges()
    index = []
    seen_lines = set()
    for rel, a, b, fn in ranges:
        src = open(os.path.join('/repo', rel)).read().split('\n')
        cand = []
        for ln in range(a + 1, b):
            if (rel, ln) in seen_lines:
                continue
            if ln not in coded.get(rel, set()):
                continue
            for op, new in mutants_of_line(src[ln - 1]):
                cand.append((ln, op, new))
        rng.shuffle(cand)
        used = set()
        picked = []
        for ln, op, new in cand:
            if ln in used:
                continue
            used.add(ln)
            picked.append((ln, op, new))
            if len(picked) >= PER_FN:
                break
        for ln, op, new in picked:
            seen_lines.add((rel, ln))
            mid = 'M%04d' % len(index)
            old = src[ln - 1]
            diff = '--- a/%s\n+++ b/%s\n@@ -%d,1 +%d,1 @@\n-%s\n+%s\n' % (rel, rel, ln, ln, old, new)
            open(os.path.join(OUT, mid + '.diff'), 'w').write(diff)
            index.append({'id': mid, 'file': rel, 'line': ln, 'fn': fn, 'op': op, 'old': old.strip(), 'new': new.strip()})
    json.dump(index, open(os.path.join(OUT, 'index.json'), 'w'), indent=1)
    print('%d mutants over %d functions' % (len(index), len(ranges)))


def check_one(m):
    d = selftest.scratch_copy('/repo')
    try:
        r = subprocess.run(['patch', '-p1', '-s', '-f', '-d', d, '-i', os.path.join(OUT, m['id'] + '.diff')], stdout=subprocess.PIPE, stderr=subprocess.STDOUT, text=True)
        if r.returncode != 0:
            return m['id'], {'status': 'noapply'}
        env = dict(os.environ, MYTHVERIF_REPO=d, MYTHVERIF_NO_EVIDENCE='1')
        fired, broken = [], []
        props = ['C18', 'C19'] if '/profiler/' in m['file'] else [p for p in PROPS if p not in ('C18', 'C19')]
        for p in props:
            r = subprocess.run([os.path.join(HERE, 'check'), p, 'quick'], env=env, stdout=subprocess.PIPE, stderr=subprocess.STDOUT, text=True)
            if r.returncode == 1:
                fired.append(p + ':' + ','.join(sorted(set(re.findall(r'rule (C\d+\.\d+)', r.stdout)))))
            elif r.returncode != 0:
                if 'clang failed' in r.stdout:
                    return m['id'], {'status': 'nocompile'}
                broken.append(p)
        if fired:
            return m['id'], {'status': 'detected', 'by': fired}
        if broken:
            return m['id'], {'status': 'detected-broken', 'by': broken}
        return m['id'], {'status': 'survived-checks'}
    finally:
        shutil.rmtree(d, ignore_errors=True)


def check():
    index = json.load(open(os.path.join(OUT, 'index.json')))
    resf = os.path.join(OUT, 'check.json')
    res = json.load(open(resf)) if os.path.exists(resf) else {}
    todo = [m for m in index if m['id'] not in res]
    with ThreadPoolExecutor(max_workers=int(os.environ.get('MUT_JOBS', '6'))) as ex:
        for k, (mid, r) in enumerate(ex.map(check_one, todo)):
            res[mid] = r
            if k % 10 == 0:
                json.dump(res, open(resf, 'w'))
                print(k, len(todo), mid, r['status'], flush=True)
    json.dump(res, open(resf, 'w'))
    from collections import Counter
    print(Counter(r['status'] for r in res.values()))


def recheck():
    """run the checks again for the mutants that survived an earlier pass (after rules were strengthened)"""
    index = {m['id']: m for m in json.load(open(os.path.join(OUT, 'index.json')))}
    resf = os.path.join(OUT, 'check.json')
    res = json.load(open(resf))
    todo = [index[mid] for mid, r in sorted(res.items()) if r['status'] == 'survived-checks']
    with ThreadPoolExecutor(max_workers=int(os.environ.get('MUT_JOBS', '6'))) as ex:
        for k, (mid, r) in enumerate(ex.map(check_one, todo)):
            if r['status'] != 'survived-checks':
                r['note'] = 'detected on recheck'
            res[mid] = r
            if k % 10 == 0:
                json.dump(res, open(resf, 'w'))
                print(k, len(todo), mid, r['status'], flush=True)
    json.dump(res, open(resf, 'w'))
    from collections import Counter
    print(Counter(r['status'] for r in res.values()))


def suite():
    index = {m['id']: m for m in json.load(open(os.path.join(OUT, 'index.json')))}
    res = json.load(open(os.path.join(OUT, 'check.json')))
    sf = os.path.join(OUT, 'suite.json')
    done = json.load(open(sf)) if os.path.exists(sf) else {}
    wt = '/tmp/mutwt'
    if not os.path.exists(wt):
        subprocess.check_call(['git', '-C', '/repo', 'worktree', 'add', '--detach', wt, 'HEAD'], stdout=subprocess.DEVNULL)
        subprocess.check_call('./configure CFLAGS=-Wno-error CXXFLAGS=-Wno-error >/dev/null 2>&1 && make -j16 >/dev/null 2>&1', shell=True, cwd=wt)
    for mid, r in sorted(res.items()):
        if r['status'] != 'survived-checks' or mid in done:
            continue
        if '/profiler/' in index[mid]['file']:
            done[mid] = 'not run (the pinned suite does not exercise libdr)'
            continue
        subprocess.call('git checkout -q -- .', shell=True, cwd=wt)
        if subprocess.call(['patch', '-p1', '-s', '-f', '-i', os.path.join(OUT, mid + '.diff')], cwd=wt, stdout=subprocess.DEVNULL) != 0:
            done[mid] = 'noapply'
            continue
        if subprocess.call('make -j16 >/dev/null 2>&1', shell=True, cwd=wt) != 0:
            done[mid] = 'nobuild'
        else:
            try:
                o = subprocess.run('make -j8 check 2>&1 | grep -E "^# (TOTAL|PASS|FAIL|ERROR)" | tr "\\n" " "', shell=True, cwd=wt, stdout=subprocess.PIPE, text=True, timeout=420).stdout
            except subprocess.TimeoutExpired:
                o = 'TIMEOUT'
                subprocess.call("pkill -f '/tmp/mutwt/tests/' || true", shell=True)
            done[mid] = re.sub(r'\s+', ' ', o).strip()
        json.dump(done, open(sf, 'w'), indent=1)
        print(mid, index[mid]['fn'], index[mid]['op'], '->', done[mid], flush=True)
    subprocess.call('git checkout -q -- .', shell=True, cwd=wt)


def report():
    index = {m['id']: m for m in json.load(open(os.path.join(OUT, 'index.json')))}
    res = json.load(open(os.path.join(OUT, 'check.json')))
    sf = os.path.join(OUT, 'suite.json')
    done = json.load(open(sf)) if os.path.exists(sf) else {}
    from collections import Counter
    print(Counter(r['status'] for r in res.values()))
    for mid, r in sorted(res.items()):
        if r['status'] == 'survived-checks':
            m = index[mid]
            s = done.get(mid, 'suite not run')
            tag = 'SURVIVOR' if 'PASS: 257' in s.replace('  ', ' ') and 'FAIL: 0' in s.replace('  ', ' ') else 'suite-kills'
            print('%s %s %s:%d %s [%s]  %s  =>  %s   (%s)' % (tag, mid, m['file'], m['line'], m['fn'], m['op'], m['old'][:70], m['new'][:70], s[:60]))


if __name__ == '__main__':
    {'gen': gen, 'check': check, 'recheck': recheck, 'suite': suite, 'report': report}[sys.argv[1]]()
