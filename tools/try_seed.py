#!/usr/bin/env python3
"""tools/try_seed.py <patch.diff> [Cnn ...]  -- apply a seeded defect to /repo, run the quick checks
(all registered ones by default) and undo the patch straight afterwards.  Prints which checks fire."""
import json, os, subprocess, sys
from concurrent.futures import ThreadPoolExecutor
ROOT = os.path.dirname(os.path.dirname(os.path.abspath(__file__)))
patch = os.path.abspath(sys.argv[1])
props = sys.argv[2:] or [c['property_id'] for c in json.load(open(os.path.join(ROOT, 'MANIFEST.json')))['checks']]
st = subprocess.run(['git', '-C', '/repo', 'status', '--porcelain', '--untracked-files=no'], capture_output=True, text=True).stdout
if st.strip():
    sys.exit('/repo has local modifications; refusing')
subprocess.check_call(['git', '-C', '/repo', 'apply', patch])
try:
    def run(p):
        r = subprocess.run([os.path.join(ROOT, 'check'), p, 'quick'], capture_output=True, text=True, cwd=ROOT,
                           env=dict(os.environ, MYTHVERIF_NO_EVIDENCE='1'))
        return p, r.returncode, r.stdout
    with ThreadPoolExecutor(max_workers=8) as ex:
        res = list(ex.map(run, props))
finally:
    subprocess.check_call(['git', '-C', '/repo', 'checkout', '--', '.'])
fired = []
for p, rc, out in res:
    if rc != 0:
        fired.append(p)
        print('== %s rc=%d' % (p, rc))
        for l in out.splitlines():
            if l.startswith(('VIOLATION', '  rule', '  at', 'ANALYSIS-BROKEN')):
                print('   ' + l[:260])
print('FIRED:', ' '.join(fired) if fired else 'none')
