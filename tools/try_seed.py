#!/usr/bin/env python3
"""tools/try_seed.py <patch.diff> [Cnn ...]  -- apply a seeded defect to /repo, run the quick checks
(all registered ones by default) and undo the patch straight afterwards.  Prints which checks fire."""
import json, os, subprocess, sys
from concurrent.futures import ThreadPoolExecutor
ROOT = os.path.dirname(os.path.dirname(os.path.abspath(__file__)))
args = [a for a in sys.argv[1:] if a != '--scratch']
SCRATCH = '--scratch' in sys.argv or os.environ.get('TRY_SEED_SCRATCH') == '1'
sys.argv = [sys.argv[0]] + args
patch = os.path.abspath(sys.argv[1])
if SCRATCH:
    # same checks against a scratch copy of the sources with the patch applied (used while other jobs read /repo)
    sys.path.insert(0, ROOT)
    from mythverif import selftest
    import shutil
    d = selftest.scratch_copy('/repo')
    try:
        r = subprocess.run(['patch', '-p1', '-s', '-f', '-d', d, '-i', patch], capture_output=True, text=True)
        if r.returncode != 0:
            sys.exit('patch does not apply: ' + r.stdout[-300:])
        props = sys.argv[2:] or [c['property_id'] for c in json.load(open(os.path.join(ROOT, 'MANIFEST.json')))['checks']]

        def run_s(p):
            r = subprocess.run([os.path.join(ROOT, 'check'), p, 'quick'], capture_output=True, text=True, cwd=ROOT,
                               env=dict(os.environ, MYTHVERIF_NO_EVIDENCE='1', MYTHVERIF_REPO=d))
            return p, r.returncode, r.stdout
        with ThreadPoolExecutor(max_workers=6) as ex:
            res = list(ex.map(run_s, props))
    finally:
        shutil.rmtree(d, ignore_errors=True)
    fired = []
    for p, rc, out in res:
        if rc != 0:
            fired.append(p)
            print('== %s rc=%d' % (p, rc))
            for l in out.splitlines():
                if l.startswith(('VIOLATION', '  rule', '  at', 'ANALYSIS-BROKEN')):
                    print('   ' + l[:260])
    print('FIRED:', ' '.join(fired) if fired else 'none')
    sys.exit(0)
props = sys.argv[2:] or [c['property_id'] for c in json.load(open(os.path.join(ROOT, 'MANIFEST.json')))['checks']]
st = subprocess.run(['git', '-C', '/repo', 'status', '--porcelain', '--untracked-files=no'], capture_output=True, text=True).stdout
if st.strip():
    sys.exit('/repo has local modifications; refusing')
subprocess.check_call(['git', '-C', '/repo', 'apply', patch])
try:
    def run(p):
        r = subprocess.run([os.path.join(ROOT, 'check'), p, 'quick'], capture_output=True, text=True, cwd=ROOT,
                           env=dict(os.environ, MYTHVERIF_NO_EVIDENCE='1'))
        return p, r.returncode, r.stdout
    with ThreadPoolExecutor(max_workers=8) as ex:
        res = list(ex.map(run, props))
finally:
    subprocess.check_call(['git', '-C', '/repo', 'checkout', '--', '.'])
fired = []
for p, rc, out in res:
    if rc != 0:
        fired.append(p)
        print('== %s rc=%d' % (p, rc))
        for l in out.splitlines():
            if l.startswith(('VIOLATION', '  rule', '  at', 'ANALYSIS-BROKEN')):
                print('   ' + l[:260])
print('FIRED:', ' '.join(fired) if fired else 'none')
