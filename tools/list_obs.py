#!/usr/bin/env python3
"""tools/list_obs.py Cnn [rule] -- list (rule, instance) of every obligation the quick check of a property states"""
import os, sys
sys.path.insert(0, os.path.dirname(os.path.dirname(os.path.abspath(__file__))))
os.environ['MYTHVERIF_NO_EVIDENCE'] = '1'
import importlib
from mythverif import core
prop = sys.argv[1]
ctx = core.Context(prop, 'quick')
try:
    mod = importlib.import_module('mythverif.rules.' + prop.lower())
    mod.run(ctx)
    seen = set()
    for o in ctx.obligations:
        if len(sys.argv) > 2 and o.rule != sys.argv[2]:
            continue
        if (o.rule, o.key) in seen:
            continue
        seen.add((o.rule, o.key))
        print(o.rule, '|', o.key, '|', 'ok' if o.ok else 'VIOLATED')
finally:
    ctx.close()
