#!/usr/bin/env python3
"""tools/scratch_at.py <commit> -> prints the path of a scratch copy of /repo's
sources (src/, include/ incl. generated Makefile/config.h) in which every file
that differs between <commit> and the working tree is replaced by its <commit>
version.  Used to run the checks against the pre-fix tree; caller removes it."""
import os, subprocess, sys
sys.path.insert(0, os.path.dirname(os.path.dirname(os.path.abspath(__file__))))
from mythverif import selftest
commit = sys.argv[1]
d = selftest.scratch_copy('/repo')
files = subprocess.check_output(['git', '-C', '/repo', 'diff', '--name-only', commit]).decode().split()
for f in files:
    if not (f.startswith('src/') or f.startswith('include/')):
        continue
    try:
        data = subprocess.check_output(['git', '-C', '/repo', 'show', '%s:%s' % (commit, f)])
    except subprocess.CalledProcessError:
        continue
    os.makedirs(os.path.dirname(os.path.join(d, f)), exist_ok=True)
    open(os.path.join(d, f), 'wb').write(data)
print(d)
