#!/usr/bin/env python3
"""tools/refresh_seeds.py [--own] [id ...] -- re-run every quick check against each kept seeded defect (scratch copies of the sources,
/repo is not touched) and refresh detected_by_checks / detected_by_rules in seeded/<id>/meta.json.  Exit 1 if the check of the
seed's own property does not report it."""
import json, os, subprocess, sys
from concurrent.futures import ThreadPoolExecutor
ROOT = os.path.dirname(os.path.dirname(os.path.abspath(__file__)))
OWN_ONLY = '--own' in sys.argv
ids = [a for a in sys.argv[1:] if a != '--own'] or sorted(os.listdir(os.path.join(ROOT, 'seeded')))


def one(sid):
    dst = os.path.join(ROOT, 'seeded', sid)
    mp0 = json.load(open(os.path.join(dst, 'meta.json')))
    extra = [mp0['property']] if OWN_ONLY else []
    out = subprocess.run([sys.executable, os.path.join(ROOT, 'tools', 'try_seed.py'), '--scratch', os.path.join(dst, 'patch.diff')] + extra,
                         capture_output=True, text=True).stdout
    fired = [l for l in out.splitlines() if l.startswith('FIRED:')]
    fired = [x for x in (fired[0].split()[1:] if fired else []) if x != 'none']
    broken = sorted(set(l.split()[1].split('=')[1] for l in out.splitlines() if l.strip().startswith('ANALYSIS-BROKEN')))
    rules = sorted(set(l.split()[1] for l in out.splitlines() if l.strip().startswith('rule ')))
    mp = os.path.join(dst, 'meta.json')
    m = json.load(open(mp))
    if OWN_ONLY:
        # only the seed's own property was re-run: merge with what was recorded before
        m['detected_by_checks'] = sorted(set([x for x in m.get('detected_by_checks', []) if x != m['property']]) | set(x for x in fired if x not in broken))
        m['detected_by_rules'] = sorted(set([r for r in m.get('detected_by_rules', []) if not r.startswith(m['property'] + '.')]) | set(rules))
    else:
        m['detected_by_checks'] = [x for x in fired if x not in broken]
        m['detected_by_rules'] = rules
    if broken:
        m['analysis_broken_in'] = broken
    else:
        m.pop('analysis_broken_in', None)
    json.dump(m, open(mp, 'w'), indent=1)
    return sid, m['property'], m['detected_by_checks'], rules, broken


bad = 0
with ThreadPoolExecutor(max_workers=(6 if OWN_ONLY else 3)) as ex:
    for sid, prop, fired, rules, broken in ex.map(one, ids):
        own = prop in fired
        print('%-10s own=%s fired=%s rules=%s%s' % (sid, 'yes' if own else 'NO', ','.join(fired), ','.join(rules),
                                                   ' BROKEN:' + ','.join(broken) if broken else ''), flush=True)
        bad += 0 if own else 1
print('%d seeds, %d not reported by their own property' % (len(ids), bad))
sys.exit(1 if bad else 0)
