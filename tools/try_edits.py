#!/usr/bin/env python3
"""tools/try_edits.py <mutants.py> -- ad-hoc hand mutants: the file defines M = [{'name', 'props': [...], 'edits': [(file, old, new)]}];
each is applied to a scratch copy of /repo's sources and the quick checks of the listed properties run against it.  Prints what fires."""
import os, shutil, subprocess, sys, runpy
from concurrent.futures import ThreadPoolExecutor
ROOT = os.path.dirname(os.path.dirname(os.path.abspath(__file__)))
sys.path.insert(0, ROOT)
from mythverif import selftest
M = runpy.run_path(sys.argv[1])['M']


def one(m):
    d = selftest.scratch_copy('/repo')
    try:
        for f, old, new in m['edits']:
            p = os.path.join(d, f)
            s = open(p).read()
            if s.count(old) != 1:
                return m['name'], 'EDIT-FAILED (%d matches) %s' % (s.count(old), f)
            open(p, 'w').write(s.replace(old, new))
        out = []
        for pr in m['props']:
            r = subprocess.run([os.path.join(ROOT, 'check'), pr, 'quick'], capture_output=True, text=True, cwd=ROOT,
                               env=dict(os.environ, MYTHVERIF_NO_EVIDENCE='1', MYTHVERIF_REPO=d))
            rules = sorted(set(l.split()[1] for l in r.stdout.splitlines() if l.strip().startswith('rule ')))
            broken = [l for l in r.stdout.splitlines() if l.startswith('ANALYSIS-BROKEN')]
            if os.environ.get("VERBOSE"): print(r.stdout[-3000:])
            out.append('%s rc=%d %s %s' % (pr, r.returncode, ','.join(rules), broken[:1] if broken else ''))
        return m['name'], ' ; '.join(out)
    finally:
        shutil.rmtree(d, ignore_errors=True)


with ThreadPoolExecutor(max_workers=4) as ex:
    for name, res in ex.map(one, M):
        print('%-70s %s' % (name[:70], res))
