#!/usr/bin/env python3
"""debug helper: tools/dumpfn.py <tu.c> <function> [stop1,stop2] [flavour] -- prints the inlined view of a function"""
import sys, os, json
sys.path.insert(0, os.path.dirname(os.path.dirname(os.path.abspath(__file__))))
from mythverif.core import Context
ctx = Context('X')
tu, fn = sys.argv[1], sys.argv[2]
stops = sys.argv[3].split(',') if len(sys.argv) > 3 and sys.argv[3] else []
fl = sys.argv[4] if len(sys.argv) > 4 else 'vanilla'
v = ctx.view(tu, roots=[fn], stops=stops, flavour=fl)
f = v.fn(fn)
for b in f.blocks:
    print('B%d idom=%d succ=%s' % (b.id, b.idom, b.succ))
    for i in b.insts:
        d = dict(i.d)
        for k in ('col', 'id', 'op', 'line', 'file', 'scev'):
            d.pop(k, None)
        inl = d.pop('inl', None)
        s = json.dumps(d)
        print('   %-5s %-14s L%-5d %s%s' % (i.id, i.op, i.line, s[:230], ('  <' + inl[0]) if inl else ''))
ctx.close()
