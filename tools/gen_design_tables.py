#!/usr/bin/env python3
"""Rewrites the generated blocks of DESIGN.md (between <!-- BEGIN:x --> / <!-- END:x -->):
rules   - per property, the rules as implemented (text taken from the evidence files the checks wrote)
mutants - per property, the checker self-test mutants and the rule that must catch each
seeded  - the independently produced seeded defects kept under seeded/ and which checks/rules catch them"""
import glob, importlib, json, os, re, sys
ROOT = os.path.dirname(os.path.dirname(os.path.abspath(__file__)))
sys.path.insert(0, ROOT)
props = [json.loads(l) for l in open(os.path.join(ROOT, 'properties.jsonl'))]


def block_rules():
    out = []
    for p in props:
        pid = p['id']
        evp = os.path.join(ROOT, 'evidence', pid + '.json')
        if not os.path.exists(evp):
            continue
        ev = json.load(open(evp))
        cov = ev['coverage']
        out.append('### %s - %s' % (pid, p['title']))
        out.append('')
        out.append('*%d obligations over %d rules on the current tree (%s tier), %d known finding(s).*' % (
            cov['obligations'], len(cov.get('per_rule', {})), ev['tier'], len(cov.get('known_findings_reported', []))))
        out.append('')
        for r in sorted(cov.get('rules', {})):
            n = cov.get('per_rule', {}).get(r, {}).get('obligations', 0)
            out.append('* **%s** (%d obligations): %s' % (r, n, cov['rules'][r]))
        nd = cov.get('not_decided')
        if nd:
            out.append('')
            out.append('*Not decided:* ' + nd)
        out.append('')
    return '\n'.join(out)


def block_mutants():
    out = []
    for p in props:
        pid = p['id']
        try:
            mod = importlib.import_module('mythverif.rules.' + pid.lower())
        except ImportError:
            continue
        ms = getattr(mod, 'MUTANTS', [])
        out.append('* **%s** (%d mutants): ' % (pid, len(ms)) + '; '.join('%s -> %s' % (m['name'], m['expect'] if isinstance(m['expect'], str) else '/'.join(m['expect'])) for m in ms))
    return '\n'.join(out)


def block_seeded():
    rows = ['| id | property | what it changes | needs to manifest | caught by (quick checks) | rules |', '|---|---|---|---|---|---|']
    for mp in sorted(glob.glob(os.path.join(ROOT, 'seeded', '*', 'meta.json'))):
        m = json.load(open(mp))

        def cut(x, n):
            x = re.sub(r'\s+', ' ', str(x or '')).replace('|', '/')
            return x if len(x) <= n else x[:n - 3] + '...'
        rows.append('| %s | %s | %s | %s | %s | %s |' % (m['id'], m['property'], cut(m.get('title') or m.get('what_changed'), 150),
                                                       cut(m.get('needs_to_manifest'), 170), ', '.join(m.get('detected_by_checks') or ['**none**']),
                                                       ', '.join(m.get('detected_by_rules') or [])))
    return '\n'.join(rows)


p = os.path.join(ROOT, 'DESIGN.md')
s = open(p).read()
for name, fn in (('rules', block_rules), ('mutants', block_mutants), ('seeded', block_seeded)):
    pat = re.compile(r'(<!-- BEGIN:%s -->).*?(<!-- END:%s -->)' % (name, name), re.S)
    if pat.search(s):
        s = pat.sub(lambda m: m.group(1) + '\n' + fn() + '\n' + m.group(2), s)
open(p, 'w').write(s)
print('DESIGN.md blocks regenerated')
