#!/usr/bin/env python3
"""tools/verify_seed.py <seeddir> [<seeddir> ...] -- independently confirm seeded defects in a scratch
worktree (/tmp/vseedwt, never /repo): patch applies, library builds, `make check` still 257/257, the
demonstration passes on the unchanged library and fails with the patch.  Writes <seeddir>/verified.json."""
import json, os, re, shlex, subprocess, sys, time
WT = '/tmp/vseedwt'


def sh(cmd, cwd=None, timeout=1200, env=None):
    # own session, so that a timeout can take the whole process tree down (a hung test must not keep spinning for hours)
    import signal
    p = subprocess.Popen(cmd, shell=True, cwd=cwd, stdout=subprocess.PIPE, stderr=subprocess.STDOUT, text=True, errors="replace", env=env, start_new_session=True)
    try:
        out, _ = p.communicate(timeout=timeout)
        return p.returncode, (out or '')[-3000:]
    except subprocess.TimeoutExpired:
        try:
            os.killpg(p.pid, signal.SIGKILL)
        except OSError:
            pass
        p.wait()
        return 124, 'TIMEOUT'


def ensure_wt():
    if not os.path.isdir(WT):
        rc, out = sh('git -C /repo worktree add --detach %s HEAD' % WT)
        assert rc == 0, out
        rc, out = sh('./configure CFLAGS=-Wno-error CXXFLAGS=-Wno-error >/dev/null 2>&1 && make -j16 >/dev/null 2>&1', cwd=WT)
        assert rc == 0, out
    else:
        sh('git checkout -- . && git checkout --detach $(git -C /repo rev-parse HEAD) 2>/dev/null; make -j16 >/dev/null 2>&1', cwd=WT)


def demo_cmds(d, meta):
    build = meta.get('build_cmd', '').split('#')[0]
    run = meta.get('run_cmd', '')
    envs = dict(re.findall(r'\b([A-Z][A-Z0-9_]+)=(\S+)', run))
    envs = {k: v for k, v in envs.items() if k.startswith(('MYTH', 'LD_', 'OMP'))}
    m = re.search(r'timeout\s+(?:-\S+\s+)*(\d+)', run)
    tmo = int(m.group(1)) if m else 120
    extra = [w for w in shlex.split(re.sub(r'\(.*?\)', '', build).replace('`', ' ')) if re.match(r'^-(O[0-3s]|g|std=[\w+]+|D\w+(=\S*)?|pthread|m[\w=-]+|f[\w=-]+|W[\w=-]+)$', w)]
    libs = [w for w in shlex.split(re.sub(r'\(.*?\)', '', build)) if w.startswith('-l')]
    if not any(l.startswith('-lmyth') or l == '-ldr' for l in libs):
        libs.append('-lmyth')
    if '-lpthread' not in libs:
        libs.append('-lpthread')
    src = 'demo.cc' if os.path.exists(os.path.join(d, 'demo.cc')) else ('demo.cpp' if os.path.exists(os.path.join(d, 'demo.cpp')) else 'demo.c')
    cc = 'g++' if src != 'demo.c' else 'gcc'
    inc = '-I%s/include -I%s/src -I%s/src/profiler -L%s/src/.libs -L%s/src/profiler/.libs -Wl,-rpath,%s/src/.libs -Wl,-rpath,%s/src/profiler/.libs' % ((WT,) * 7)
    if 'myth-ld.opts' in build:
        # link-time redirection: the --wrap option file of the worktree under test
        inc = '@%s/src/myth-ld.opts %s' % (WT, inc)
    bcmd = '%s %s %s %s %s -o /tmp/vseed_demo' % (cc, ' '.join(extra), os.path.join(d, src), inc, ' '.join(libs))
    args = ''
    m = re.search(r'\./demo\s+([^()\n;|&]*)', run)
    if m:
        args = m.group(1).strip()
    return bcmd, envs, tmo, args


def run_demo(d, meta, n=3):
    if os.path.exists(os.path.join(d, 'demo.sh')) and ('demo.sh' in meta.get('run_cmd', '') or (
            not os.path.exists(os.path.join(d, 'demo.c')) and not os.path.exists(os.path.join(d, 'demo.cc')))):
        res = []
        for _ in range(n):
            rc, out = sh('WT=%s sh %s/demo.sh %s' % (WT, d, WT), cwd=d, timeout=300)
            res.append((rc, out[-300:]))
        return res, 'demo.sh'
    bcmd, envs, tmo, args = demo_cmds(d, meta)
    rc, out = sh(bcmd)
    if rc != 0:
        return [(-1, 'demo build failed: ' + out[-500:])], bcmd
    env = dict(os.environ)
    env.update(envs)
    res = []
    for _ in range(n):
        rc, out = sh('timeout %d /tmp/vseed_demo %s' % (tmo + 30, args), env=env, timeout=tmo + 60)
        res.append((rc, out[-300:]))
    return res, bcmd + ' ; env ' + str(envs) + ' args ' + args


def verify(d):
    meta = json.load(open(os.path.join(d, 'meta.json')))
    ensure_wt()
    r = {'seed': d, 'property': meta.get('property'), 'at': time.strftime('%Y-%m-%d %H:%M:%S')}
    base, how = run_demo(d, meta)
    r['demo_cmd'] = how
    r['baseline_runs'] = base
    r['baseline_pass'] = all(rc == 0 for rc, _ in base)
    rc, out = sh('git apply %s' % os.path.join(d, 'patch.diff'), cwd=WT)
    r['applies'] = rc == 0
    if rc != 0:
        r['error'] = out
        return r
    try:
        rc, out = sh('make -j16 2>&1 | tail -5', cwd=WT)
        rc2, _ = sh('test -f src/.libs/libmyth.so', cwd=WT)
        r['builds'] = rc == 0 and rc2 == 0
        rc, out = sh('make -j8 check 2>&1 | grep -E "^# (PASS|FAIL|TOTAL)"', cwd=WT, timeout=1800)
        r['make_check'] = ' '.join(out.split())
        r['suite_passes'] = '# PASS: 257' in r['make_check'] and '# FAIL: 0' in r['make_check']
        pat, _ = run_demo(d, meta)
        r['patched_runs'] = pat
        r['patched_fail'] = sum(1 for rc, _ in pat if rc != 0)
    finally:
        sh('git checkout -- . && make -j16 >/dev/null 2>&1', cwd=WT)
    r['confirmed'] = bool(r.get('applies') and r.get('builds') and r.get('suite_passes') and r['baseline_pass'] and r.get('patched_fail', 0) >= 2)
    return r


for d in sys.argv[1:]:
    d = os.path.abspath(d)
    try:
        r = verify(d)
    except Exception as e:  # noqa
        r = {'seed': d, 'confirmed': False, 'error': repr(e)}
    json.dump(r, open(os.path.join(d, 'verified.json'), 'w'), indent=1)
    print(d, 'CONFIRMED' if r.get('confirmed') else 'NOT CONFIRMED', {k: r.get(k) for k in ('applies', 'builds', 'make_check', 'baseline_pass', 'patched_fail', 'error')})
