#!/usr/bin/env python3
"""tools/keep_seed.py <seeddir> [...] -- copy a *confirmed* seeded defect into /verif/seeded/<Cnn>-<mk>/ and
record which quick checks fire on it (applies the patch to /repo, runs the checks, reverts)."""
import json, os, shutil, subprocess, sys
ROOT = os.path.dirname(os.path.dirname(os.path.abspath(__file__)))
for d in sys.argv[1:]:
    d = os.path.abspath(d)
    ver = json.load(open(os.path.join(d, 'verified.json')))
    if not ver.get('confirmed'):
        print(d, 'not confirmed - skipped')
        continue
    meta = json.load(open(os.path.join(d, 'meta.json')))
    # second-round seeds live under /tmp/seed2/<Cnn>/m<k>: keep them apart from the first round's
    rnd = ''
    for k in ('2', '3', '4', '5', '6'):
        if os.sep + 'seed' + k + os.sep in d:
            rnd = 'r' + k
    sid = '%s-%s%s' % (meta['property'], rnd, os.path.basename(d))
    dst = os.path.join(ROOT, 'seeded', sid)
    os.makedirs(dst, exist_ok=True)
    for f in os.listdir(d):
        if f.startswith('demo') or f == 'patch.diff':
            shutil.copy(os.path.join(d, f), dst)
    out = subprocess.run([sys.executable, os.path.join(ROOT, 'tools', 'try_seed.py'), os.path.join(dst, 'patch.diff')],
                         capture_output=True, text=True).stdout
    fired = [l for l in out.splitlines() if l.startswith('FIRED:')]
    fired = fired[0].split()[1:] if fired else []
    rules = sorted(set(l.split()[1] for l in out.splitlines() if l.strip().startswith('rule ')))
    m = {'id': sid, 'property': meta['property'], 'title': meta.get('title'), 'what_changed': meta.get('what_changed'),
         'needs_to_manifest': meta.get('needs_to_manifest'), 'origin': 'independent sub-agent given only the property text',
         'what_i_ran': {'worktree': 'scratch git worktree of /repo under /tmp (removed afterwards)', 'demo_cmd': ver.get('demo_cmd'),
                        'make_check_with_patch': ver.get('make_check'),
                        'demo_without_patch': [r[0] for r in ver.get('baseline_runs', [])],
                        'demo_with_patch': [r[0] for r in ver.get('patched_runs', [])],
                        'when': ver.get('at')},
         'demo_observed_with_patch': meta.get('observed_with_patch'), 'demo_observed_without_patch': meta.get('observed_without_patch'),
         'detected_by_checks': [x for x in fired if x != 'none'], 'detected_by_rules': rules}
    json.dump(m, open(os.path.join(dst, 'meta.json'), 'w'), indent=1)
    print(sid, 'kept; detected by', m['detected_by_checks'], rules)
