// Compile-only instantiation of the profiling flavour of mtbb::task_group (DAG_RECORDER == 2): never linked, never run.
#define DAG_RECORDER 2
#include <myth/myth.h>
#include <mtbb/task_group.h>

struct Thunk { void operator()() const; };

void mythverif_use_task_group_prof(mtbb::task_group & tg, Thunk t) {
  tg.run(t);
  tg.wait();
}
