/* Compile-only witnesses (never linked, never run): every W(name, cond) is a
   _Static_assert against the *current* headers of /repo and the system
   <pthread.h>.  A failed assertion is reported as a violation naming `name`.
   Groups are selected with -DWG_<group>. */
#include <stddef.h>
#include <string.h>
#include <pthread.h>
#include <limits.h>
#include <time.h>
#include "myth/myth.h"

#define W(name, cond) _Static_assert(cond, "WITNESS:" #name)

#ifdef WG_once
W(once_init_value_is_PTHREAD_ONCE_INIT, myth_once_state_init == PTHREAD_ONCE_INIT);
W(once_fits_in_pthread_once_t, sizeof(myth_once_t) <= sizeof(pthread_once_t));
W(once_states_distinct, myth_once_state_init != myth_once_state_in_progress && myth_once_state_in_progress != myth_once_state_completed && myth_once_state_init != myth_once_state_completed);
W(once_state_at_offset_0, offsetof(myth_once_t, state) == 0);
#endif

#ifdef WG_abi
W(mutex_fits, sizeof(myth_mutex_t) <= sizeof(pthread_mutex_t));
W(cond_fits, sizeof(myth_cond_t) <= sizeof(pthread_cond_t));
W(barrier_fits, sizeof(myth_barrier_t) <= sizeof(pthread_barrier_t));
W(spinlock_fits, sizeof(myth_spinlock_t) <= sizeof(pthread_spinlock_t));
W(once_fits, sizeof(myth_once_t) <= sizeof(pthread_once_t));
W(key_width, sizeof(myth_key_t) <= sizeof(pthread_key_t));
W(thread_id_width, sizeof(myth_thread_t) <= sizeof(pthread_t));
/* the all-zero PTHREAD_MUTEX_INITIALIZER must be recognisable as "not yet a myth mutex" */
W(zero_is_not_mutex_magic, myth_mutex_magic_no != 0 && myth_mutex_magic_no_initializing != 0);
W(magic_values_distinct, myth_mutex_magic_no != myth_mutex_magic_no_initializing);
W(magic_inside_pthread_mutex, offsetof(myth_mutex_t, magic) + sizeof(int) <= sizeof(pthread_mutex_t));
W(once_init_value, myth_once_state_init == PTHREAD_ONCE_INIT);
W(barrier_serial_differs_from_zero, MYTH_BARRIER_SERIAL_THREAD != 0 && PTHREAD_BARRIER_SERIAL_THREAD != 0);
#endif

#ifdef WG_clock
/* the constant the checker compares the clock id of hr_gettime with */
W(clock_realtime_is_zero, CLOCK_REALTIME == 0);
#endif
