// Compile-only instantiation of the TBB-like layer (never linked, never run): makes the template code of
// /repo/src/mtbb/{task_group,parallel_for}.h appear in LLVM IR so that the C17 rules can analyse it.
#include <myth/myth.h>
#include <mtbb/task_group.h>
#include <mtbb/parallel_for.h>

struct BodyIdx { void operator()(long i) const; };
struct BodyRange { void operator()(int a, int b) const; };
struct Thunk { void operator()() const; };
// a user-supplied range for the range-based parallel_for: every member is only declared, so that each use stays a visible call
struct Rng {
  typedef int const_iterator;
  Rng(int b, int e, int g);
  int begin() const; int end() const; int grainsize() const;
  bool empty() const; bool is_divisible() const;
};
struct BodyRng { void operator()(const Rng & r) const; };

template BodyIdx mtbb::parallel_for<long, BodyIdx>(long, long, const BodyIdx &);
template BodyIdx mtbb::parallel_for<long, BodyIdx>(long, long, long, const BodyIdx &);
template BodyRange mtbb::parallel_for<int, BodyRange>(int, int, int, int, const BodyRange &);
template void mtbb::parallel_for<Rng, BodyRng>(const Rng &, BodyRng &);

void mythverif_use_task_group(mtbb::task_group & tg, Thunk t) {
  tg.run(t);
  tg.wait();
}
