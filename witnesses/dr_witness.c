/* compile-only witnesses for the DAG file format (never linked, never run) */
#include <string.h>
#define DAG_RECORDER 2
#include "dag_recorder_impl.h"
#define W(name, cond) _Static_assert(cond, "WITNESS:" #name)
#ifdef WG_drfmt
W(header_len_matches_header_string, sizeof(DAG_RECORDER_HEADER) - 1 == DAG_RECORDER_HEADER_LEN);
#endif
