// mythir: LLVM-14 IR fact extractor for the massivethreads static checks.
// Reads one IR module (.ll / .bc) and writes a JSON description of every
// function: CFG, dominators, loops, instructions with resolved struct-field
// paths (via debug info), inline-asm templates, SCEV strings and known bits.
// Nothing is executed; this is a pure syntactic/semantic dump of the compiled
// program for the Python rule library.
#include "llvm/ADT/SmallString.h"
#include "llvm/Analysis/AssumptionCache.h"
#include "llvm/Analysis/LoopInfo.h"
#include "llvm/Analysis/PostDominators.h"
#include "llvm/Analysis/ScalarEvolution.h"
#include "llvm/Analysis/ScalarEvolutionExpressions.h"
#include "llvm/Analysis/TargetLibraryInfo.h"
#include "llvm/Analysis/ValueTracking.h"
#include "llvm/IR/CFG.h"
#include "llvm/IR/Constants.h"
#include "llvm/IR/DebugInfo.h"
#include "llvm/IR/DebugInfoMetadata.h"
#include "llvm/IR/Dominators.h"
#include "llvm/IR/InlineAsm.h"
#include "llvm/IR/InstrTypes.h"
#include "llvm/IR/Instructions.h"
#include "llvm/IR/IntrinsicInst.h"
#include "llvm/IR/LLVMContext.h"
#include "llvm/IR/Module.h"
#include "llvm/IR/Operator.h"
#include "llvm/IRReader/IRReader.h"
#include "llvm/Passes/PassBuilder.h"
#include "llvm/Support/KnownBits.h"
#include "llvm/Support/SourceMgr.h"
#include "llvm/Support/raw_ostream.h"
#include <functional>
#include <map>
#include <set>
#include <string>
#include <vector>

using namespace llvm;

static std::string esc(StringRef s) {
  std::string o;
  o.reserve(s.size() + 2);
  o.push_back('"');
  for (unsigned char c : s) {
    switch (c) {
    case '"': o += "\\\""; break;
    case '\\': o += "\\\\"; break;
    case '\n': o += "\\n"; break;
    case '\t': o += "\\t"; break;
    case '\r': o += "\\r"; break;
    default:
      if (c < 0x20 || c >= 0x7f) {
        char b[8];
        snprintf(b, sizeof b, "\\u%04x", c);
        o += b;
      } else
        o.push_back(c);
    }
  }
  o.push_back('"');
  return o;
}

static std::string tystr(Type *T) {
  std::string s;
  raw_string_ostream os(s);
  T->print(os, false, true);
  return os.str();
}

// ---------- debug-info struct tables ----------
struct DIIndex {
  std::map<std::string, const DICompositeType *> byName;
  void add(const std::string &n, const DICompositeType *C) {
    if (n.empty() || !C) return;
    if (C->isForwardDecl()) return;
    auto it = byName.find(n);
    if (it == byName.end()) byName[n] = C;
  }
  void build(Module &M) {
    DebugInfoFinder F;
    F.processModule(M);
    for (const DIType *T : F.types()) {
      if (auto *C = dyn_cast<DICompositeType>(T)) {
        if (C->getTag() == dwarf::DW_TAG_structure_type ||
            C->getTag() == dwarf::DW_TAG_union_type ||
            C->getTag() == dwarf::DW_TAG_class_type)
          add(C->getName().str(), C);
      }
    }
    // typedef names of anonymous composites
    for (const DIType *T : F.types()) {
      if (auto *D = dyn_cast<DIDerivedType>(T)) {
        if (D->getTag() == dwarf::DW_TAG_typedef) {
          const DIType *B = D->getBaseType();
          if (auto *C = dyn_cast_or_null<DICompositeType>(B))
            if (C->getName().empty()) add(D->getName().str(), C);
        }
      }
    }
  }
};

static const DIType *stripDI(const DIType *T) {
  while (T) {
    if (auto *D = dyn_cast<DIDerivedType>(T)) {
      unsigned tag = D->getTag();
      if (tag == dwarf::DW_TAG_typedef || tag == dwarf::DW_TAG_const_type ||
          tag == dwarf::DW_TAG_volatile_type ||
          tag == dwarf::DW_TAG_restrict_type || tag == dwarf::DW_TAG_member ||
          tag == dwarf::DW_TAG_atomic_type) {
        T = D->getBaseType();
        continue;
      }
    }
    break;
  }
  return T;
}

static std::string diName(const DIType *T) {
  // best-effort printable name of a DI type (typedef name preferred)
  const DIType *cur = T;
  while (cur) {
    if (!cur->getName().empty()) return cur->getName().str();
    if (auto *D = dyn_cast<DIDerivedType>(cur)) {
      cur = D->getBaseType();
      continue;
    }
    break;
  }
  return "";
}

static std::string llvmStructBase(StructType *ST) {
  if (!ST->hasName()) return "";
  StringRef n = ST->getName();
  if (n.startswith("struct.")) n = n.drop_front(7);
  else if (n.startswith("union.")) n = n.drop_front(6);
  else if (n.startswith("class.")) n = n.drop_front(6);
  // drop numeric uniquifier ".123"
  size_t dot = n.rfind('.');
  if (dot != StringRef::npos) {
    StringRef suf = n.drop_front(dot + 1);
    bool num = !suf.empty();
    for (char c : suf) if (!isdigit((unsigned char)c)) num = false;
    if (num) n = n.take_front(dot);
  }
  return n.str();
}

struct Ctx {
  Module *M;
  const DataLayout *DL;
  DIIndex di;
  std::map<const Value *, std::string> ids; // per function
  std::map<const BasicBlock *, int> bidx;
  std::map<std::string, int> files;
  std::vector<std::string> fileList;
  int fileId(const std::string &f) {
    auto it = files.find(f);
    if (it != files.end()) return it->second;
    int k = fileList.size();
    files[f] = k;
    fileList.push_back(f);
    return k;
  }
};

static std::string ref(Ctx &C, const Value *V, int depth = 0);

struct DIEnd {
  const DIType *D = nullptr;   // DI type of the object the pointer designates
  std::string name;            // printable name of the enclosing named aggregate
  std::string member;          // union member selected by a cast ("" if none / anonymous)
};
static std::string gepPath(Ctx &C, const GEPOperator *G, int depth, DIEnd *end = nullptr);

static std::string namedAncestor(std::string n) {
  // "dr_dag_node.<anon>.<anon>" -> "dr_dag_node": members of anonymous aggregates belong to the enclosing named one
  const std::string suf = ".<anon>";
  while (n.size() > suf.size() && n.compare(n.size() - suf.size(), suf.size(), suf) == 0) n.erase(n.size() - suf.size());
  return n;
}

static unsigned diMemberCount(const DICompositeType *CT) {
  unsigned k = 0;
  for (const DINode *N : CT->getElements())
    if (auto *M = dyn_cast<DIDerivedType>(N))
      if (M->getTag() == dwarf::DW_TAG_member && !M->isStaticMember()) k++;
  return k;
}

// DI type designated by a pointer value: through GEPs, and through casts of a pointer to a union to one of its members
static DIEnd endOf(Ctx &C, const Value *P, int depth) {
  DIEnd e;
  if (depth > 8 || !P) return e;
  if (auto *G = dyn_cast<GEPOperator>(P)) {
    gepPath(C, G, depth + 1, &e);
    return e;
  }
  auto *BC = dyn_cast<BitCastOperator>(P);
  if (!BC) return e;
  DIEnd src = endOf(C, BC->getOperand(0), depth + 1);
  const DICompositeType *U = dyn_cast_or_null<DICompositeType>(stripDI(src.D));
  if (!U || U->getTag() != dwarf::DW_TAG_union_type) return e;
  auto *PT = dyn_cast<PointerType>(BC->getType());
  if (!PT || PT->isOpaque()) return e;
  Type *To = PT->getPointerElementType();
  if (!To->isSized()) return e;
  uint64_t bits = C.DL->getTypeAllocSize(To) * 8;
  bool wantAgg = To->isStructTy() || To->isArrayTy();
  const DIDerivedType *best = nullptr;
  unsigned nbest = 0;
  std::string allNames;
  bool sameType = true;
  for (const DINode *N : U->getElements()) {
    auto *Mem = dyn_cast<DIDerivedType>(N);
    if (!Mem || Mem->getTag() != dwarf::DW_TAG_member || Mem->isStaticMember()) continue;
    const DIType *B = stripDI(Mem->getBaseType());
    auto *BCt = dyn_cast_or_null<DICompositeType>(B);
    bool isAgg = BCt && (BCt->getTag() == dwarf::DW_TAG_structure_type || BCt->getTag() == dwarf::DW_TAG_union_type ||
                         BCt->getTag() == dwarf::DW_TAG_class_type || BCt->getTag() == dwarf::DW_TAG_array_type);
    if (isAgg != wantAgg) continue;
    if (Mem->getSizeInBits() != bits) continue;
    if (auto *ST = dyn_cast<StructType>(To))
      if (BCt && BCt->getTag() != dwarf::DW_TAG_array_type && diMemberCount(BCt) != ST->getNumElements()) {
        // padding may add LLVM elements; accept only an exact match when there are several candidates
        if (best) continue;
      }
    if (best && stripDI(best->getBaseType()) != B) sameType = false;
    best = Mem;
    nbest++;
    if (!Mem->getName().empty()) allNames += (allNames.empty() ? "" : "|") + Mem->getName().str();
  }
  if (nbest == 0) return e;
  if (nbest > 1) {
    // members of one union that have the very same type cannot be told apart by the cast: name all of them
    if (!sameType || wantAgg || allNames.empty()) return e;
    e.D = best->getBaseType();
    e.name = namedAncestor(src.name);
    e.member = e.name + "." + allNames;
    return e;
  }
  e.D = best->getBaseType();
  e.name = namedAncestor(src.name);
  if (!best->getName().empty()) e.member = e.name + "." + best->getName().str();
  {
    std::string nm = diName(e.D);
    const DICompositeType *BCt = dyn_cast_or_null<DICompositeType>(stripDI(e.D));
    if (BCt && BCt->getTag() != dwarf::DW_TAG_array_type && !nm.empty()) e.name = nm;
  }
  return e;
}

// Resolve a GEP (instruction or constant expression) to a JSON path array.
static std::string gepPath(Ctx &C, const GEPOperator *G, int depth, DIEnd *end) {
  std::string out = "[";
  Type *cur = G->getSourceElementType();
  const DIType *D = nullptr;
  std::string Dname;
  bool first = true;
  auto bindStruct = [&](StructType *ST) {
    std::string b = llvmStructBase(ST);
    auto it = C.di.byName.find(b);
    if (it == C.di.byName.end()) {
      // C++: LLVM names are qualified (mtbb::task_list_node), DI names are not
      size_t p = b.rfind("::");
      if (p != std::string::npos) {
        std::string tail = b.substr(p + 2);
        size_t lt = tail.find('<');
        auto it2 = C.di.byName.find(tail);
        if (it2 == C.di.byName.end() && lt != std::string::npos) it2 = C.di.byName.find(tail.substr(0, lt));
        if (it2 != C.di.byName.end()) { it = it2; b = it2->first; }
      }
    }
    if (it != C.di.byName.end()) { D = it->second; Dname = b; }
    else { D = nullptr; Dname = b.empty() ? "?" : b; }
  };
  if (auto *ST = dyn_cast<StructType>(cur)) {
    bindStruct(ST);
    if (!D) {
      // an anonymous struct reached through a cast of a union pointer: take the member the cast selects
      DIEnd b = endOf(C, G->getPointerOperand(), depth + 1);
      if (b.D && dyn_cast_or_null<DICompositeType>(stripDI(b.D))) { D = b.D; Dname = b.name; }
    }
  } else if (isa<ArrayType>(cur)) {
    DIEnd b = endOf(C, G->getPointerOperand(), depth + 1);
    if (b.D) { D = b.D; Dname = b.name; }
  }
  unsigned n = 0;
  for (auto it = G->idx_begin(); it != G->idx_end(); ++it, ++n) {
    const Value *Idx = *it;
    if (!first) out += ",";
    first = false;
    if (n == 0) {
      out += "{\"p\":" + ref(C, Idx, depth + 1) + "}";
      continue;
    }
    if (auto *ST = dyn_cast<StructType>(cur)) {
      unsigned k = cast<ConstantInt>(Idx)->getZExtValue();
      uint64_t off = C.DL->getStructLayout(ST)->getElementOffset(k);
      std::string fname = "#" + std::to_string(k);
      const DIType *memTy = nullptr;
      const DICompositeType *DC = dyn_cast_or_null<DICompositeType>(stripDI(D));
      if (DC) {
        const DIDerivedType *best = nullptr;
        uint64_t esz = C.DL->getTypeAllocSize(ST->getElementType(k));
        for (const DINode *N : DC->getElements()) {
          auto *Mem = dyn_cast<DIDerivedType>(N);
          if (!Mem || Mem->getTag() != dwarf::DW_TAG_member) continue;
          if (Mem->isStaticMember()) continue;
          if (Mem->getOffsetInBits() != off * 8) continue;
          if (!best) best = Mem;
          else if (best->getSizeInBits() == 0 && Mem->getSizeInBits() != 0) best = Mem;
          else if (Mem->getSizeInBits() == esz * 8 && best->getSizeInBits() != esz * 8) best = Mem;
        }
        if (best) {
          fname = best->getName().empty() ? std::string("<anon>") : best->getName().str();
          memTy = best->getBaseType();
        }
      }
      out += "{\"f\":" + esc(Dname + "." + fname) + ",\"off\":" + std::to_string(off) + "}";
      cur = ST->getElementType(k);
      // descend
      std::string parent = Dname + "." + fname;
      D = memTy;
      const DIType *S = stripDI(D);
      if (auto *CT = dyn_cast_or_null<DICompositeType>(S)) {
        if (CT->getTag() == dwarf::DW_TAG_array_type) {
          // keep D as array; element handled on array step
        } else {
          std::string nm = diName(D);
          Dname = nm.empty() ? namedAncestor(parent) : nm;
        }
      }
      if (auto *ST2 = dyn_cast<StructType>(cur)) {
        if (!dyn_cast_or_null<DICompositeType>(stripDI(D))) bindStruct(ST2);
      }
    } else if (auto *AT = dyn_cast<ArrayType>(cur)) {
      out += "{\"i\":" + ref(C, Idx, depth + 1) + ",\"n\":" + std::to_string(AT->getNumElements()) + "}";
      cur = AT->getElementType();
      const DIType *S = stripDI(D);
      if (auto *CT = dyn_cast_or_null<DICompositeType>(S)) {
        if (CT->getTag() == dwarf::DW_TAG_array_type) {
          D = CT->getBaseType();
          std::string nm = diName(D);
          if (!nm.empty()) Dname = nm;
        }
      }
      if (auto *ST2 = dyn_cast<StructType>(cur)) {
        const DIType *S2 = stripDI(D);
        auto *CT2 = dyn_cast_or_null<DICompositeType>(S2);
        if (!CT2 || CT2->getTag() == dwarf::DW_TAG_array_type) bindStruct(ST2);
      }
    } else if (auto *VT = dyn_cast<VectorType>(cur)) {
      out += "{\"i\":" + ref(C, Idx, depth + 1) + "}";
      cur = VT->getElementType();
    } else {
      out += "{\"i\":" + ref(C, Idx, depth + 1) + "}";
    }
  }
  out += "]";
  if (end) { end->D = D; end->name = Dname; }
  return out;
}

static std::string ref(Ctx &C, const Value *V, int depth) {
  if (!V) return "null";
  auto it = C.ids.find(V);
  if (it != C.ids.end()) return esc(it->second);
  if (auto *CI = dyn_cast<ConstantInt>(V)) {
    if (CI->getBitWidth() <= 64)
      return "{\"c\":" + std::to_string(CI->getSExtValue()) + ",\"w\":" +
             std::to_string(CI->getBitWidth()) + "}";
    SmallString<40> s;
    CI->getValue().toStringSigned(s);
    return "{\"c\":" + std::string(s.c_str()) + ",\"w\":" + std::to_string(CI->getBitWidth()) + "}";
  }
  if (isa<ConstantPointerNull>(V)) return "{\"c\":0,\"null\":true}";
  if (isa<UndefValue>(V)) return "{\"undef\":true}";
  if (auto *F = dyn_cast<Function>(V)) return "{\"fn\":" + esc(F->getName()) + "}";
  if (auto *G = dyn_cast<GlobalVariable>(V)) return "{\"g\":" + esc(G->getName()) + "}";
  if (auto *GA = dyn_cast<GlobalAlias>(V)) return "{\"g\":" + esc(GA->getName()) + "}";
  if (auto *CFP = dyn_cast<ConstantFP>(V)) {
    SmallString<40> s;
    CFP->getValueAPF().toString(s);
    return "{\"fp\":" + esc(s) + "}";
  }
  if (auto *IA = dyn_cast<InlineAsm>(V)) {
    return "{\"asm\":" + esc(IA->getAsmString()) + ",\"constraints\":" +
           esc(IA->getConstraintString()) + ",\"sideeffect\":" +
           (IA->hasSideEffects() ? "true" : "false") + "}";
  }
  if (auto *CE = dyn_cast<ConstantExpr>(V)) {
    if (depth > 6) return "{\"ce\":\"...\"}";
    std::string s = "{\"ce\":" + esc(CE->getOpcodeName()) + ",\"ty\":" + esc(tystr(CE->getType())) + ",\"ops\":[";
    for (unsigned i = 0; i < CE->getNumOperands(); i++) {
      if (i) s += ",";
      s += ref(C, CE->getOperand(i), depth + 1);
    }
    s += "]";
    if (auto *G = dyn_cast<GEPOperator>(CE)) s += ",\"path\":" + gepPath(C, G, depth + 1);
    s += "}";
    return s;
  }
  if (isa<ConstantAggregateZero>(V)) return "{\"zeroinit\":true}";
  if (auto *MV = dyn_cast<MetadataAsValue>(V)) { (void)MV; return "{\"md\":true}"; }
  if (isa<BasicBlock>(V)) {
    auto b = C.bidx.find(cast<BasicBlock>(V));
    if (b != C.bidx.end()) return "{\"bb\":" + std::to_string(b->second) + "}";
  }
  if (isa<Constant>(V)) return "{\"const\":" + esc(tystr(V->getType())) + "}";
  return "{\"unk\":true}";
}

static const Value *stripCasts(const Value *V) {
  return V->stripPointerCasts();
}

static const char *ordName(AtomicOrdering O) {
  switch (O) {
  case AtomicOrdering::NotAtomic: return "notatomic";
  case AtomicOrdering::Unordered: return "unordered";
  case AtomicOrdering::Monotonic: return "monotonic";
  case AtomicOrdering::Acquire: return "acquire";
  case AtomicOrdering::Release: return "release";
  case AtomicOrdering::AcquireRelease: return "acq_rel";
  case AtomicOrdering::SequentiallyConsistent: return "seq_cst";
  }
  return "?";
}

static std::string scevStr(const SCEV *S) {
  std::string s;
  raw_string_ostream os(s);
  S->print(os);
  return os.str();
}

// --prep mode: rewrite inlining attributes so that LLVM's own always-inline
// pass produces a per-rule "view": roots and stops stay separate functions,
// every other defined function without a source-level noinline is inlined.
static int prepMain(int argc, char **argv) {
  // mythir --prep in out --roots=a,b --stops=c,d
  std::set<std::string> roots, stops;
  auto split = [](const std::string &l, std::set<std::string> &o) {
    size_t p = 0;
    while (p <= l.size()) {
      size_t q = l.find(',', p);
      if (q == std::string::npos) q = l.size();
      if (q > p) o.insert(l.substr(p, q - p));
      p = q + 1;
    }
  };
  for (int i = 4; i < argc; i++) {
    std::string a = argv[i];
    if (a.rfind("--roots=", 0) == 0) split(a.substr(8), roots);
    else if (a.rfind("--stops=", 0) == 0) split(a.substr(8), stops);
  }
  LLVMContext Cx;
  SMDiagnostic Err;
  std::unique_ptr<Module> M = parseIRFile(argv[2], Err, Cx);
  if (!M) { Err.print("mythir", errs()); return 2; }
  for (Function &F : *M) {
    if (F.isDeclaration()) continue;
    std::string n = F.getName().str();
    bool keep = roots.count(n) || stops.count(n);
    if (keep) {
      F.removeFnAttr(Attribute::AlwaysInline);
      F.removeFnAttr(Attribute::InlineHint);
      F.addFnAttr(Attribute::NoInline);
      if (F.hasLocalLinkage()) { F.setLinkage(GlobalValue::ExternalLinkage); F.setVisibility(GlobalValue::HiddenVisibility); }
    } else if (F.hasFnAttribute(Attribute::NoInline)) {
      // source-level noinline (context-switch callbacks, *_noinline getters)
    } else {
      F.removeFnAttr(Attribute::InlineHint);
      F.removeFnAttr(Attribute::OptimizeNone);
      F.addFnAttr(Attribute::AlwaysInline);
    }
  }
  std::error_code EC;
  raw_fd_ostream out(argv[3], EC);
  if (EC) return 2;
  M->print(out, nullptr);
  return 0;
}

int main(int argc, char **argv) {
  if (argc >= 4 && std::string(argv[1]) == "--prep") return prepMain(argc, argv);
  if (argc < 3) {
    errs() << "usage: mythir <in.ll|bc> <out.json> [--scev] [--only=fn1,fn2]\n";
    return 2;
  }
  bool wantScev = false;
  std::set<std::string> only;
  for (int i = 3; i < argc; i++) {
    std::string a = argv[i];
    if (a == "--scev") wantScev = true;
    else if (a.rfind("--only=", 0) == 0) {
      std::string l = a.substr(7);
      size_t p = 0;
      while (p <= l.size()) {
        size_t q = l.find(',', p);
        if (q == std::string::npos) q = l.size();
        if (q > p) only.insert(l.substr(p, q - p));
        p = q + 1;
      }
    }
  }
  LLVMContext Cx;
  SMDiagnostic Err;
  std::unique_ptr<Module> M = parseIRFile(argv[1], Err, Cx);
  if (!M) {
    Err.print("mythir", errs());
    return 2;
  }
  Ctx C;
  C.M = M.get();
  C.DL = &M->getDataLayout();
  C.di.build(*M);

  PassBuilder PB;
  LoopAnalysisManager LAM;
  FunctionAnalysisManager FAM;
  CGSCCAnalysisManager CGAM;
  ModuleAnalysisManager MAM;
  PB.registerModuleAnalyses(MAM);
  PB.registerCGSCCAnalyses(CGAM);
  PB.registerFunctionAnalyses(FAM);
  PB.registerLoopAnalyses(LAM);
  PB.crossRegisterProxies(LAM, FAM, CGAM, MAM);

  std::error_code EC;
  raw_fd_ostream out(argv[2], EC);
  if (EC) { errs() << "cannot write " << argv[2] << "\n"; return 2; }

  std::set<std::string> usedNames;
  if (auto *GV = M->getGlobalVariable("llvm.used")) {
    if (GV->hasInitializer())
      if (auto *CA = dyn_cast<ConstantArray>(GV->getInitializer()))
        for (auto &Op : CA->operands())
          usedNames.insert(Op->stripPointerCasts()->getName().str());
  }
  if (auto *GV = M->getGlobalVariable("llvm.compiler.used")) {
    if (GV->hasInitializer())
      if (auto *CA = dyn_cast<ConstantArray>(GV->getInitializer()))
        for (auto &Op : CA->operands())
          usedNames.insert(Op->stripPointerCasts()->getName().str());
  }

  out << "{\"module\":" << esc(M->getSourceFileName()) << ",\n";
  // structs from DI
  out << "\"structs\":{";
  {
    bool f = true;
    for (auto &kv : C.di.byName) {
      if (!f) out << ",";
      f = false;
      out << "\n" << esc(kv.first) << ":{\"size\":" << kv.second->getSizeInBits() / 8 << ",\"fields\":[";
      bool g = true;
      std::function<void(const DICompositeType *, uint64_t, int)> emitMembers =
          [&](const DICompositeType *CTy, uint64_t baseBits, int lvl) {
        for (const DINode *N : CTy->getElements()) {
          auto *Mem = dyn_cast<DIDerivedType>(N);
          if (!Mem || Mem->getTag() != dwarf::DW_TAG_member) continue;
          if (!g) out << ",";
          g = false;
          const DIType *BT = stripDI(Mem->getBaseType());
          long nelem = -1;
          if (auto *CT = dyn_cast_or_null<DICompositeType>(BT))
            if (CT->getTag() == dwarf::DW_TAG_array_type)
              for (const DINode *E : CT->getElements())
                if (auto *SR = dyn_cast<DISubrange>(E))
                  if (auto *CI = SR->getCount().dyn_cast<ConstantInt *>()) nelem = CI->getSExtValue();
          bool vol = false;
          for (const DIType *t = Mem->getBaseType(); t;) {
            auto *D = dyn_cast<DIDerivedType>(t);
            if (!D) break;
            if (D->getTag() == dwarf::DW_TAG_volatile_type) vol = true;
            if (D->getTag() == dwarf::DW_TAG_pointer_type) break;
            t = D->getBaseType();
          }
          std::string mname = Mem->getName().empty() ? std::string("<anon>") : Mem->getName().str();
          out << "{\"name\":" << esc(mname) << ",\"off\":" << (baseBits + Mem->getOffsetInBits()) / 8
              << ",\"size\":" << Mem->getSizeInBits() / 8 << ",\"type\":" << esc(diName(Mem->getBaseType()))
              << ",\"nelem\":" << nelem << ",\"volatile\":" << (vol ? "true" : "false") << "}";
          // members of an anonymous struct/union are members of the enclosing aggregate
          if (Mem->getName().empty() && lvl < 6)
            if (auto *CT = dyn_cast_or_null<DICompositeType>(BT))
              if (CT->getTag() == dwarf::DW_TAG_structure_type || CT->getTag() == dwarf::DW_TAG_union_type)
                emitMembers(CT, baseBits + Mem->getOffsetInBits(), lvl + 1);
        }
      };
      emitMembers(kv.second, 0, 0);
      out << "]}";
    }
  }
  out << "},\n";
  // globals
  out << "\"globals\":{";
  {
    bool f = true;
    for (auto &G : M->globals()) {
      if (G.getName().startswith("llvm.")) continue;
      if (G.getName().startswith("__PRETTY_FUNCTION__") || G.getName().startswith("__func__")) continue;
      if (G.getName().startswith(".str")) {
        // string literals: short ones only (names of environment variables, dlsym symbols), not message texts
        bool keep = false;
        if (G.hasInitializer())
          if (auto *CDA = dyn_cast<ConstantDataArray>(G.getInitializer()))
            keep = CDA->isString() && CDA->getNumElements() <= 40;
        if (!keep) continue;
      }
      if (!f) out << ",";
      f = false;
      out << "\n" << esc(G.getName()) << ":{\"ty\":" << esc(tystr(G.getValueType()))
          << ",\"const\":" << (G.isConstant() ? "true" : "false")
          << ",\"tls\":" << (G.isThreadLocal() ? "true" : "false")
          << ",\"internal\":" << (G.hasLocalLinkage() ? "true" : "false");
      if (G.hasInitializer()) {
        const Constant *I = G.getInitializer();
        C.ids.clear();
        const Value *S = I->stripPointerCasts();
        if (isa<Function>(S) || isa<ConstantInt>(S) || isa<ConstantPointerNull>(S))
          out << ",\"init\":" << ref(C, S);
        else if (isa<ConstantAggregateZero>(I)) out << ",\"init\":{\"zeroinit\":true}";
        else if (auto *CDA = dyn_cast<ConstantDataArray>(I)) {
          if (CDA->isString()) out << ",\"init\":{\"str\":" << esc(CDA->getAsString()) << "}";
        }
      }
      out << "}";
    }
  }
  out << "},\n\"functions\":{";
  bool firstF = true;
  std::vector<std::string> decls;
  for (Function &F : *M) {
    if (F.isDeclaration()) {
      if (!F.isIntrinsic()) decls.push_back(F.getName().str());
      continue;
    }
    if (!only.empty() && !only.count(F.getName().str())) continue;
    C.ids.clear();
    C.bidx.clear();
    int ai = 0, ii = 0, bi = 0;
    for (Argument &A : F.args()) C.ids[&A] = "a" + std::to_string(ai++);
    for (BasicBlock &B : F) {
      C.bidx[&B] = bi++;
      for (Instruction &I : B) C.ids[&I] = "i" + std::to_string(ii++);
    }
    DominatorTree &DT = FAM.getResult<DominatorTreeAnalysis>(F);
    PostDominatorTree &PDT = FAM.getResult<PostDominatorTreeAnalysis>(F);
    LoopInfo &LI = FAM.getResult<LoopAnalysis>(F);
    ScalarEvolution *SE = nullptr;
    AssumptionCache &AC = FAM.getResult<AssumptionAnalysis>(F);
    if (wantScev) SE = &FAM.getResult<ScalarEvolutionAnalysis>(F);

    if (!firstF) out << ",";
    firstF = false;
    out << "\n" << esc(F.getName()) << ":{";
    out << "\"internal\":" << (F.hasLocalLinkage() ? "true" : "false");
    out << ",\"cc\":" << F.getCallingConv();
    out << ",\"used\":" << (usedNames.count(F.getName().str()) ? "true" : "false");
    out << ",\"attrs\":[";
    {
      bool g = true;
      for (Attribute A : F.getAttributes().getFnAttrs()) {
        if (!A.isEnumAttribute()) continue;
        if (!g) out << ",";
        g = false;
        out << esc(Attribute::getNameFromAttrKind(A.getKindAsEnum()));
      }
    }
    out << "]";
    out << ",\"ret\":" << esc(tystr(F.getReturnType()));
    std::string ffile;
    unsigned fline = 0;
    if (DISubprogram *SP = F.getSubprogram()) {
      ffile = SP->getFilename().str();
      if (!ffile.empty() && ffile[0] != '/' && !SP->getDirectory().empty()) ffile = SP->getDirectory().str() + "/" + ffile;
      fline = SP->getLine();
    }
    out << ",\"file\":" << C.fileId(ffile) << ",\"line\":" << fline;
    // params
    std::map<unsigned, std::string> pnames;
    if (DISubprogram *SP = F.getSubprogram())
      for (const DINode *N : SP->getRetainedNodes())
        if (auto *LV = dyn_cast<DILocalVariable>(N))
          if (LV->getArg()) pnames[LV->getArg()] = LV->getName().str();
    // also from dbg.declare (retainedNodes is empty at -O0)
    for (BasicBlock &B : F)
      for (Instruction &I : B)
        if (auto *DVI = dyn_cast<DbgVariableIntrinsic>(&I))
          if (DVI->getVariable()->getArg() && !(DVI->getDebugLoc() && DVI->getDebugLoc().getInlinedAt()))
            pnames[DVI->getVariable()->getArg()] = DVI->getVariable()->getName().str();
    out << ",\"params\":[";
    for (Argument &A : F.args()) {
      if (A.getArgNo()) out << ",";
      out << "{\"id\":" << esc(C.ids[&A]) << ",\"ty\":" << esc(tystr(A.getType()))
          << ",\"name\":" << esc(pnames.count(A.getArgNo() + 1) ? pnames[A.getArgNo() + 1] : "") << "}";
    }
    out << "]";
    // variable names for values
    out << ",\"vars\":[";
    {
      bool g = true;
      for (BasicBlock &B : F)
        for (Instruction &I : B)
          if (auto *DVI = dyn_cast<DbgVariableIntrinsic>(&I)) {
            const Value *V = DVI->getVariableLocationOp(0);
            if (!V) continue;
            auto it = C.ids.find(V);
            if (it == C.ids.end()) continue;
            if (!g) out << ",";
            g = false;
            out << "[" << esc(it->second) << "," << esc(DVI->getVariable()->getName()) << ","
                << (isa<DbgDeclareInst>(DVI) ? "\"declare\"" : "\"value\"") << "]";
          }
    }
    out << "]";
    // loops
    out << ",\"loops\":[";
    {
      std::vector<Loop *> all;
      std::vector<Loop *> work(LI.begin(), LI.end());
      while (!work.empty()) {
        Loop *L = work.back();
        work.pop_back();
        all.push_back(L);
        for (Loop *S : L->getSubLoops()) work.push_back(S);
      }
      std::map<Loop *, int> lidx;
      for (size_t i = 0; i < all.size(); i++) lidx[all[i]] = i;
      for (size_t i = 0; i < all.size(); i++) {
        Loop *L = all[i];
        if (i) out << ",";
        out << "{\"header\":" << C.bidx[L->getHeader()] << ",\"depth\":" << L->getLoopDepth()
            << ",\"parent\":" << (L->getParentLoop() ? lidx[L->getParentLoop()] : -1) << ",\"blocks\":[";
        bool g = true;
        for (BasicBlock *B : L->blocks()) {
          if (!g) out << ",";
          g = false;
          out << C.bidx[B];
        }
        out << "],\"latches\":[";
        SmallVector<BasicBlock *, 4> lat;
        L->getLoopLatches(lat);
        g = true;
        for (BasicBlock *B : lat) {
          if (!g) out << ",";
          g = false;
          out << C.bidx[B];
        }
        out << "],\"exits\":[";
        SmallVector<Loop::Edge, 4> ex;
        L->getExitEdges(ex);
        g = true;
        for (auto &E : ex) {
          if (!g) out << ",";
          g = false;
          out << "[" << C.bidx[E.first] << "," << C.bidx[E.second] << "]";
        }
        out << "]";
        if (SE) {
          out << ",\"max_trip\":" << SE->getSmallConstantMaxTripCount(L);
          const SCEV *BE = SE->getBackedgeTakenCount(L);
          out << ",\"backedge\":" << esc(scevStr(BE));
        }
        out << "}";
      }
    }
    out << "]";
    // blocks
    out << ",\"blocks\":[";
    for (BasicBlock &B : F) {
      if (C.bidx[&B]) out << ",";
      out << "\n {\"id\":" << C.bidx[&B];
      auto *N = DT.getNode(&B);
      int idom = -1;
      if (N && N->getIDom()) idom = C.bidx[N->getIDom()->getBlock()];
      out << ",\"idom\":" << idom << ",\"reach\":" << (N ? "true" : "false");
      auto *PN = PDT.getNode(&B);
      int ipdom = -1;
      if (PN && PN->getIDom() && PN->getIDom()->getBlock()) ipdom = C.bidx[PN->getIDom()->getBlock()];
      out << ",\"ipdom\":" << ipdom;
      out << ",\"succ\":[";
      {
        bool g = true;
        for (BasicBlock *S : successors(&B)) {
          if (!g) out << ",";
          g = false;
          out << C.bidx[S];
        }
      }
      out << "],\"insts\":[";
      bool firstI = true;
      for (Instruction &I : B) {
        if (isa<DbgInfoIntrinsic>(&I)) continue;
        if (!firstI) out << ",";
        firstI = false;
        out << "\n  {\"id\":" << esc(C.ids[&I]) << ",\"op\":" << esc(I.getOpcodeName());
        if (!I.getType()->isVoidTy()) out << ",\"ty\":" << esc(tystr(I.getType()));
        if (const DebugLoc &DLc = I.getDebugLoc()) {
          out << ",\"line\":" << DLc.getLine() << ",\"col\":" << DLc.getCol();
          if (auto *Sc = dyn_cast_or_null<DIScope>(DLc.getScope())) {
            std::string fn = Sc->getFilename().str();
            if (!fn.empty() && fn[0] != '/' && !Sc->getDirectory().empty()) fn = Sc->getDirectory().str() + "/" + fn;
            if (fn != ffile) out << ",\"file\":" << C.fileId(fn);
          }
          if (DLc.getInlinedAt()) {
            out << ",\"inl\":[";
            bool g = true;
            const DILocation *IA = DLc.getInlinedAt();
            const DILocalScope *Sc = DLc->getScope();
            // innermost function name first
            if (Sc && Sc->getSubprogram()) { out << esc(Sc->getSubprogram()->getName()); g = false; }
            while (IA) {
              if (!g) out << ",";
              g = false;
              std::string nm = IA->getScope()->getSubprogram() ? IA->getScope()->getSubprogram()->getName().str() : "";
              out << esc(nm + ":" + std::to_string(IA->getLine()));
              IA = IA->getInlinedAt();
            }
            out << "]";
          }
        }
        // operands
        auto emitOps = [&](unsigned from, unsigned to) {
          out << ",\"ops\":[";
          for (unsigned k = from; k < to; k++) {
            if (k > from) out << ",";
            out << ref(C, I.getOperand(k));
          }
          out << "]";
        };
        if (auto *CB = dyn_cast<CallBase>(&I)) {
          const Value *Callee = CB->getCalledOperand();
          const Value *S = stripCasts(Callee);
          if (auto *IA = dyn_cast<InlineAsm>(Callee)) {
            out << ",\"asm\":" << esc(IA->getAsmString()) << ",\"constraints\":"
                << esc(IA->getConstraintString()) << ",\"sideeffect\":"
                << (IA->hasSideEffects() ? "true" : "false");
          } else if (auto *CF = dyn_cast<Function>(S)) {
            out << ",\"callee\":" << esc(CF->getName());
            if (CF->isIntrinsic()) out << ",\"intrinsic\":true";
            if (CF->doesNotReturn() || CB->doesNotReturn()) out << ",\"noreturn\":true";
          } else {
            out << ",\"callee_ref\":" << ref(C, Callee);
          }
          out << ",\"args\":[";
          for (unsigned k = 0; k < CB->arg_size(); k++) {
            if (k) out << ",";
            out << ref(C, CB->getArgOperand(k));
          }
          out << "]";
          if (auto *MI = dyn_cast<MemIntrinsic>(&I)) out << ",\"mem_volatile\":" << (MI->isVolatile() ? "true" : "false");
        } else if (auto *BR = dyn_cast<BranchInst>(&I)) {
          if (BR->isConditional())
            out << ",\"cond\":" << ref(C, BR->getCondition()) << ",\"t\":" << C.bidx[BR->getSuccessor(0)]
                << ",\"f\":" << C.bidx[BR->getSuccessor(1)];
          else
            out << ",\"t\":" << C.bidx[BR->getSuccessor(0)];
        } else if (auto *SW = dyn_cast<SwitchInst>(&I)) {
          out << ",\"cond\":" << ref(C, SW->getCondition()) << ",\"default\":" << C.bidx[SW->getDefaultDest()]
              << ",\"cases\":[";
          bool g = true;
          for (auto &Cs : SW->cases()) {
            if (!g) out << ",";
            g = false;
            out << "[" << Cs.getCaseValue()->getSExtValue() << "," << C.bidx[Cs.getCaseSuccessor()] << "]";
          }
          out << "]";
        } else if (auto *PH = dyn_cast<PHINode>(&I)) {
          out << ",\"incoming\":[";
          for (unsigned k = 0; k < PH->getNumIncomingValues(); k++) {
            if (k) out << ",";
            out << "[" << ref(C, PH->getIncomingValue(k)) << "," << C.bidx[PH->getIncomingBlock(k)] << "]";
          }
          out << "]";
        } else if (auto *GEP = dyn_cast<GetElementPtrInst>(&I)) {
          out << ",\"base\":" << ref(C, GEP->getPointerOperand());
          out << ",\"srcty\":" << esc(tystr(GEP->getSourceElementType()));
          out << ",\"path\":" << gepPath(C, cast<GEPOperator>(GEP), 0);
          APInt Off(C.DL->getIndexSizeInBits(GEP->getPointerAddressSpace()), 0);
          if (GEP->accumulateConstantOffset(*C.DL, Off)) out << ",\"coff\":" << Off.getSExtValue();
        } else {
          emitOps(0, I.getNumOperands());
        }
        if (auto *LD = dyn_cast<LoadInst>(&I)) {
          if (LD->isVolatile()) out << ",\"volatile\":true";
          if (LD->isAtomic()) out << ",\"ordering\":" << esc(ordName(LD->getOrdering()));
        } else if (auto *ST = dyn_cast<StoreInst>(&I)) {
          if (ST->isVolatile()) out << ",\"volatile\":true";
          if (ST->isAtomic()) out << ",\"ordering\":" << esc(ordName(ST->getOrdering()));
          if (ST->getValueOperand()->getType()->isIntegerTy()) {
            KnownBits KB = computeKnownBits(ST->getValueOperand(), *C.DL, 0, &AC, ST, &DT);
            if (KB.getBitWidth() <= 64)
              out << ",\"kz\":" << KB.Zero.getZExtValue() << ",\"ko\":" << KB.One.getZExtValue();
          }
        } else if (auto *CX = dyn_cast<AtomicCmpXchgInst>(&I)) {
          out << ",\"ordering\":" << esc(ordName(CX->getSuccessOrdering()));
          if (CX->isVolatile()) out << ",\"volatile\":true";
        } else if (auto *RMW = dyn_cast<AtomicRMWInst>(&I)) {
          out << ",\"rmw\":" << esc(AtomicRMWInst::getOperationName(RMW->getOperation()))
              << ",\"ordering\":" << esc(ordName(RMW->getOrdering()));
        } else if (auto *FN = dyn_cast<FenceInst>(&I)) {
          out << ",\"ordering\":" << esc(ordName(FN->getOrdering()))
              << ",\"singlethread\":" << (FN->getSyncScopeID() == SyncScope::SingleThread ? "true" : "false");
        } else if (auto *CMP = dyn_cast<CmpInst>(&I)) {
          out << ",\"pred\":" << esc(CmpInst::getPredicateName(CMP->getPredicate()));
        } else if (auto *AL = dyn_cast<AllocaInst>(&I)) {
          out << ",\"alloc_ty\":" << esc(tystr(AL->getAllocatedType()));
        } else if (auto *EV = dyn_cast<ExtractValueInst>(&I)) {
          out << ",\"indices\":[";
          for (unsigned k = 0; k < EV->getNumIndices(); k++) {
            if (k) out << ",";
            out << EV->getIndices()[k];
          }
          out << "]";
        } else if (auto *CI = dyn_cast<CastInst>(&I)) {
          out << ",\"srcty\":" << esc(tystr(CI->getSrcTy()));
          if (isa<BitCastInst>(CI) && CI->getType()->isPointerTy()) {
            DIEnd e = endOf(C, CI, 0);
            if (!e.member.empty()) out << ",\"um\":" << esc(e.member);
          }
        }
        if (SE && I.getType()->isIntegerTy() && LI.getLoopFor(&B) && SE->isSCEVable(I.getType())) {
          const SCEV *S = SE->getSCEV(&I);
          if (!isa<SCEVUnknown>(S) && !isa<SCEVCouldNotCompute>(S)) out << ",\"scev\":" << esc(scevStr(S));
        }
        if (SE && isa<GetElementPtrInst>(&I) && LI.getLoopFor(&B)) {
          const SCEV *S = SE->getSCEV(&I);
          if (!isa<SCEVUnknown>(S) && !isa<SCEVCouldNotCompute>(S)) out << ",\"scev\":" << esc(scevStr(S));
        }
        out << "}";
      }
      out << "]}";
    }
    out << "]}";
  }
  out << "},\n\"decls\":[";
  for (size_t i = 0; i < decls.size(); i++) {
    if (i) out << ",";
    out << esc(decls[i]);
  }
  out << "],\n\"files\":[";
  for (size_t i = 0; i < C.fileList.size(); i++) {
    if (i) out << ",";
    out << esc(C.fileList[i]);
  }
  out << "]}\n";
  out.close();
  return 0;
}
