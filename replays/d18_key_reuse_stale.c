/* replay for finding D18 (property C10; differential C16): a key index reused after pthread_key_delete still shows, in a
 * thread that is alive across the delete/create, the value that thread stored under the *old* key.  The thread never
 * stored under the new key, so it must read NULL (POSIX: key creation associates NULL with the new key in all threads).
 *   system:  gcc d18_key_reuse_stale.c -lpthread -o d18_sys && ./d18_sys     -> "OK new key reads (nil)"
 *   myth:    gcc d18_key_reuse_stale.c @$R/src/myth-ld.opts -L$R/src/.libs -Wl,-rpath,$R/src/.libs -lmyth-ld -lpthread -ldl -o d18_myth
 *            ./d18_myth  -> "FAIL new key (same index) reads 0x... = the value stored under the deleted key" (exit 1)
 */
#include <pthread.h>
#include <stdio.h>

static pthread_key_t k, k2;
static pthread_barrier_t b;
static void *seen;
static int v = 7;

static void *body(void *arg) {
  (void)arg;
  pthread_setspecific(k, &v);
  pthread_barrier_wait(&b);      /* value stored under k */
  pthread_barrier_wait(&b);      /* main deleted k and created k2 */
  seen = pthread_getspecific(k2);
  return 0;
}

int main(void) {
  pthread_t t;
  pthread_barrier_init(&b, 0, 2);
  pthread_key_create(&k, 0);
  pthread_create(&t, 0, body, 0);
  pthread_barrier_wait(&b);
  pthread_key_delete(k);
  pthread_key_create(&k2, 0);
  pthread_barrier_wait(&b);
  pthread_join(t, 0);
  if (seen) printf("FAIL new key %s reads %p = the value stored under the deleted key\n", k2 == k ? "(same index)" : "", seen);
  else printf("OK new key reads %p\n", seen);
  return seen != 0;
}
