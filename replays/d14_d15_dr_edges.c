/* replay for defects D14/D15 (property C18), derived from the demonstration of seeded defect C18/m1 with the
 * end-parent and other-cont edge totals checked as well.
 *   build: make -C $R/src/profiler && gcc -O2 d14_d15_dr_edges.c -I$R/src/profiler -L$R/src/profiler/.libs \
 *          -Wl,-rpath,$R/src/profiler/.libs -ldr -lpthread -o d14
 *   run:   ./d14 24 1     (exit 1 + 'FAIL' before commits cd754dc/90340e3: 204 of 315 runs differ; 'OK' after)
 */
/*
 * C18 demo: DAG Recorder totals must not depend on contraction / worker assignment.
 *
 * The program drives the DAG Recorder instrumentation API directly (the
 * explicit-worker "__" entry points), single threaded, replaying scripted and
 * random well-nested task-parallel executions with a chosen assignment of
 * tasks to workers.  Through the recorder's hooks it sees every primitive
 * interval (the complete uncontracted sequence) and computes from those
 *   work, critical path, #create/#wait/#end intervals, #edges by kind.
 * Every execution is repeated under several contraction settings; after each
 * run the .stat report written by dr_dump() is parsed and compared with the
 * values computed from the uncontracted interval sequence.
 *
 * (end-parent and other-cont edge totals are printed but not checked.)
 *
 * script syntax (one task = "( ... )"):
 *   c(..)  create a child task and run it right away (work-first)
 *   d(..)  create a child task that is started only after the parent has
 *          reached the wait of the enclosing section (parent blocks)
 *   w      wait (closes the innermost open section)
 *   [      begin a (nested) section explicitly; closed by its w; ']' is decoration
 *   o      an "other" interval (dr_enter_other / dr_return_from_other)
 *   @n     right after '(' : the task starts on worker n
 *          right after c(..) d(..) w o : the task continues on worker n
 */
#define DAG_RECORDER 2
#define dr_get_worker() 0
#define dr_get_max_workers() 1
#include <dag_recorder.h>
#include <unistd.h>
#include <sys/wait.h>

enum { NW = 4 };

/* ---------- what the uncontracted interval sequence says ---------- */
typedef struct {
  dr_clock_t work;
  long n_create, n_wait, n_end, n_other;
} truth_t;
static truth_t O;
static dr_clock_t last_len;
static int hook_iv(dr_dag_node * n) {
  last_len = n->info.end.t - n->info.start.t;
  return 0;
}

static volatile unsigned long sink;
static unsigned long rs = 1;
static unsigned long rnd(void) {
  rs = rs * 6364136223846793005UL + 1442695040888963407UL;
  return rs >> 33;
}
static void spin(void) {
  unsigned long n = 30 + rnd() % 300, i;
  for (i = 0; i < n; i++) sink += i;
}

/* ---------- script interpreter ---------- */
enum { MAXD = 16, MAXDEF = 16 };
typedef struct {
  dr_clock_t pre, best;
  int nd;
  const char * d_src[MAXDEF];
  dr_dag_node * d_create[MAXDEF];
  dr_clock_t d_pre[MAXDEF];
  int d_w[MAXDEF];
} secctx;

static const char * skip_task(const char * p) {
  int d = 0;
  do {
    if (*p == '(') d++;
    if (*p == ')') d--;
    p++;
  } while (d > 0);
  return p;
}
static int opt_worker(const char ** pp, int w) {
  if (**pp == '@') { w = (*pp)[1] - '0'; *pp += 2; }
  return w;
}
static void sec_open(secctx * s) { s->pre = s->best = 0; s->nd = 0; }

static dr_clock_t run_task(const char ** pp, dr_dag_node * parent, int w,
                           int is_root, int * w_out) {
  const char * p = *pp;
  secctx * st = (secctx *)calloc(MAXD, sizeof(secctx));
  int depth = 0;
  dr_clock_t span = 0;
  dr_dag_node * t;
  if (*p != '(') { fprintf(stderr, "bad script at '%s'\n", p); exit(2); }
  p++;
  w = opt_worker(&p, w);
  if (!is_root) dr_start_task__(parent, __FILE__, __LINE__, w);
  for (;;) {
    char ch = *p;
    if (ch == ' ' || ch == ']') { p++; continue; }
    if (ch == 'c' || ch == 'd') {
      dr_dag_node * c = 0;
      secctx * s;
      p++;
      if (depth == 0) { sec_open(&st[0]); depth = 1; }
      s = &st[depth - 1];
      spin();
      t = dr_enter_create_task__(&c, __FILE__, __LINE__, w);
      O.work += last_len; O.n_create++; s->pre += last_len;
      if (ch == 'c') {
        dr_clock_t cs = run_task(&p, c, w, 0, 0);
        if (s->pre + cs > s->best) s->best = s->pre + cs;
      } else {
        s->d_src[s->nd] = p; s->d_create[s->nd] = c;
        s->d_pre[s->nd] = s->pre; s->d_w[s->nd] = w; s->nd++;
        p = skip_task(p);
      }
      w = opt_worker(&p, w);
      dr_return_from_create_task__(t, __FILE__, __LINE__, w);
    } else if (ch == '[') {
      p++;
      dr_begin_section__(w);
      sec_open(&st[depth]); depth++;
    } else if (ch == 'w') {
      secctx * s;
      dr_clock_t ss;
      int i;
      p++;
      if (depth == 0) { sec_open(&st[0]); depth = 1; }
      s = &st[depth - 1];
      spin();
      t = dr_enter_wait_tasks__(__FILE__, __LINE__, w);
      O.work += last_len; O.n_wait++; s->pre += last_len;
      /* children whose start was deferred run now, while the parent is blocked */
      for (i = 0; i < s->nd; i++) {
        const char * q = s->d_src[i];
        dr_clock_t cs = run_task(&q, s->d_create[i], s->d_w[i], 0, 0);
        if (s->d_pre[i] + cs > s->best) s->best = s->d_pre[i] + cs;
      }
      w = opt_worker(&p, w);
      dr_return_from_wait_tasks__(t, __FILE__, __LINE__, w);
      ss = s->pre > s->best ? s->pre : s->best;
      depth--;
      if (depth > 0) st[depth - 1].pre += ss; else span += ss;
    } else if (ch == 'o') {
      p++;
      spin();
      t = dr_enter_other__(__FILE__, __LINE__, w);
      O.work += last_len; O.n_other++;
      if (depth > 0) st[depth - 1].pre += last_len; else span += last_len;
      w = opt_worker(&p, w);
      dr_return_from_other__(t, __FILE__, __LINE__, w);
    } else if (ch == ')') {
      p++;
      spin();
      if (is_root) dr_stop__(__FILE__, __LINE__, w);
      else dr_end_task__(__FILE__, __LINE__, w);
      O.work += last_len; O.n_end++; span += last_len;
      break;
    } else {
      fprintf(stderr, "bad script char '%c'\n", ch); exit(2);
    }
  }
  free(st);
  *pp = p;
  if (w_out) *w_out = w;
  return span;
}

/* ---------- random scripts ---------- */
static char * gb; static size_t gn, gcap;
static void emit(char c) {
  if (gn + 2 > gcap) { gcap = gcap ? gcap * 2 : 256; gb = (char *)realloc(gb, gcap); }
  gb[gn++] = c; gb[gn] = 0;
}
static void emit_w(int force) {
  if (force || rnd() % 3 == 0) { emit('@'); emit('0' + rnd() % NW); }
}
static void gen_task(int depth, int first);
static void gen_items(int depth, int nest) {
  int n = rnd() % 4, i;
  for (i = 0; i < n && depth > 0; i++) {
    unsigned long r = rnd() % 12;
    if (r < 8) {
      emit(r < 6 ? 'c' : 'd'); gen_task(depth - 1, 0); emit_w(0);
    } else if (r < 10 && nest < 2) {
      emit('['); gen_items(depth - 1, nest + 1); emit('w'); emit_w(0); emit(']');
    } else {
      emit('o'); emit_w(0);
    }
  }
}
static void gen_task(int depth, int first) {
  int ns = (depth <= 0 ? (int)(rnd() % 2) : 1 + (int)(rnd() % 2)), i;
  emit('(');
  if (!first) emit_w(0);
  for (i = 0; i < ns; i++) {
    if (rnd() % 5 == 0) { emit('o'); emit_w(0); }
    gen_items(depth, 0); emit('w'); emit_w(0);
  }
  if (rnd() % 5 == 0) { emit('o'); emit_w(0); }
  emit(')');
}

/* ---------- contraction settings ---------- */
typedef struct { const char * name; unsigned long long cmax, umin; long cmaxcount, target, prune; int use; } cfg_t;
static cfg_t cfgs[] = {
  { "no contraction (collapse_max=0)",        0, 0, 0, 0, 0, 1 },
  { "default (collapse_max=2^60)",            0, 0, 0, 0, 0, 0 },
  { "collapse all (uncollapse_min=2^60)",     0, 1ULL << 60, 0, 0, 0, 0 },
  { "collapse_max=15000 clocks",              15000, 0, 0, 0, 0, 1 },
  { "collapse_max=0 uncollapse_min=15000",    0, 15000, 0, 0, 0, 1 },
  { "collapse_max_count=10",                  0, 0, 10, 0, 0, 0 },
  { "collapse_max_count=4",                   0, 0, 4, 0, 0, 0 },
  { "node_count_target=20 prune_threshold=30",0, 0, 0, 20, 30, 0 },
  { "node_count_target=5 prune_threshold=5",  0, 0, 0, 5, 5, 0 },
};
enum { NCFG = sizeof(cfgs) / sizeof(cfgs[0]) };

/* ---------- .stat parser ---------- */
typedef struct { unsigned long long work, tinf; long n_create, n_wait, n_end; long e[5]; int ok; } rep_t;
static void parse_stat(const char * fn, rep_t * r) {
  FILE * fp = fopen(fn, "r");
  char line[8192];
  int k = -1, rows = 0, seen = 0;
  memset(r, 0, sizeof(*r));
  if (!fp) return;
  while (fgets(line, sizeof(line), fp)) {
    if (sscanf(line, "create_task = %ld", &r->n_create) == 1) { seen++; continue; }
    if (sscanf(line, "wait_tasks = %ld", &r->n_wait) == 1) { seen++; continue; }
    if (sscanf(line, "end_task = %ld", &r->n_end) == 1) { seen++; continue; }
    if (sscanf(line, "work (T1) = %llu", &r->work) == 1) { seen++; continue; }
    if (sscanf(line, "critical_path (T_inf) = %llu", &r->tinf) == 1) { seen++; continue; }
    if (strstr(line, "end-parent edges:"))   { k = 0; rows = 0; continue; }
    if (strstr(line, "create-child edges:")) { k = 1; rows = 0; continue; }
    if (strstr(line, "create-cont edges:"))  { k = 2; rows = 0; continue; }
    if (strstr(line, "wait-cont edges:"))    { k = 3; rows = 0; continue; }
    if (strstr(line, "other-cont edges:"))   { k = 4; rows = 0; continue; }
    if (k >= 0 && rows < NW + 1) {
      char * p = line; char * q;
      for (;;) { long v = strtol(p, &q, 10); if (q == p) break; r->e[k] += v; p = q; }
      rows++;
    }
  }
  fclose(fp);
  r->ok = (seen == 5 && k == 4);
}

/* run one script under one setting; return number of mismatches */
static char msg[8192]; static size_t msgn;
#define MSG(...) do { if (msgn < sizeof(msg) - 300) msgn += snprintf(msg + msgn, 300, __VA_ARGS__); } while (0)
static int run_one(const char * script, int ci, const char * prefix, unsigned long tseed) {
  dr_options opts[1];
  rep_t R;
  char fn[512];
  const char * p = script;
  dr_clock_t span;
  int w = 0, bad = 0;
  cfg_t * c = &cfgs[ci];
  dr_options_default_(opts);
  opts->dag_file_prefix = prefix;
  opts->dag_file_yes = 0; opts->gpl_file_yes = 0; opts->dot_file_yes = 0; opts->text_file_yes = 0;
  opts->stat_file_yes = 1; opts->on = 1; opts->verbose_level = 0; opts->chk_level = 0; opts->dbg_level = 0;
  opts->worker_specific_state_array = 1;
  opts->hooks.enter_create_task = hook_iv;
  opts->hooks.enter_wait_tasks = hook_iv;
  opts->hooks.enter_other = hook_iv;
  opts->hooks.end_task = hook_iv;
  opts->uncollapse_min = c->umin;
  if (c->use) opts->collapse_max = c->cmax; else opts->collapse_max = 1ULL << 60;
  opts->collapse_max_count = c->cmaxcount;
  opts->node_count_target = c->target;
  opts->prune_threshold = c->target ? c->prune : 100000;
  memset(&O, 0, sizeof(O));
  rs = tseed;
  dr_start__(opts, __FILE__, __LINE__, 0, NW);
  span = run_task(&p, 0, 0, 1, &w);
  dr_dump_();
  snprintf(fn, sizeof(fn), "%s.stat", prefix);
  parse_stat(fn, &R);
  if (!R.ok) { MSG("    no/short stat file\n"); return 1; }
#define CHK(what, got, want) do { if ((long long)(got) != (long long)(want)) { bad++; \
    MSG("    MISMATCH %-22s reported %lld, uncontracted interval sequence gives %lld\n", what, (long long)(got), (long long)(want)); } } while (0)
  CHK("work (T1)", R.work, O.work);
  CHK("critical_path (T_inf)", R.tinf, span);
  CHK("create_task intervals", R.n_create, O.n_create);
  CHK("wait_tasks intervals", R.n_wait, O.n_wait);
  CHK("end_task intervals", R.n_end, O.n_end);
  CHK("create-child edges", R.e[1], O.n_create);
  CHK("create-cont edges", R.e[2], O.n_create);
  CHK("wait-cont edges", R.e[3], O.n_wait);
  CHK("end-parent edges", R.e[0], O.n_create);
  CHK("other-cont edges", R.e[4], O.n_other);
  if (R.tinf > R.work) { bad++; MSG("    MISMATCH critical path %llu exceeds work %llu\n", R.tinf, R.work); }
  return bad;
}

static const char * fixed[] = {
  /* balanced binary tree, one worker */
  "(c(c()c()w)c(c()c()w)w)",
  /* two phases in one task; task migrates between the phases */
  "(c()w@1 c()w)",
  "(c()c()w@1 [c()w] c()w@2 c()w)",
  "(c(c()w@1 c()w)w@1 c(@2 c()w@3 [c()w]w)w)",
  /* parent blocks in wait: children start after the parent reached the wait */
  "(d(@1)w)",
  "(d(@1 d(@2)w)d(@3)w c()w)",
  /* several small subgraphs each executed by two workers */
  "(c(@1)w c(@1)w c(@1)w c(@1)w c(@1)w)",
  "(c(@1 c(@2)w)w c(@2 c(@3)w)w c(@1)w c(@3)w)",
  /* 'other' intervals, inside sections and at task level */
  "(c()o c()w o c()w)",
  "(c()w o)",
  "(c(c()w o)w c(o)w@1 o@0)",
};
enum { NFIXED = sizeof(fixed) / sizeof(fixed[0]) };

int main(int argc, char ** argv) {
  int n_random = argc > 1 ? atoi(argv[1]) : 24;
  int verbose = argc > 2 ? atoi(argv[2]) : 0;
  char dir[] = "/tmp/c18demoXXXXXX";
  char prefix[256];
  int si, ci, total_bad_runs = 0, runs = 0;
  if (!mkdtemp(dir)) { perror("mkdtemp"); return 2; }
  snprintf(prefix, sizeof(prefix), "%s/dr", dir);
  for (si = 0; si < NFIXED + n_random; si++) {
    const char * script;
    if (si < NFIXED) script = fixed[si];
    else { rs = 1000 + si; gn = 0; gen_task(4, 1); script = gb; }
    for (ci = 0; ci < NCFG; ci++) {
      pid_t pid;
      int status = 0;
      fflush(stdout);
      pid = fork();
      if (pid == 0) {
        int bad = run_one(script, ci, prefix, 77 + si);
        if (bad || verbose) {
          printf("  script %d %s | %s\n%s", si, strlen(script) < 100 ? script : "(long random script)", cfgs[ci].name, msg);
          fflush(stdout);
        }
        _exit(bad ? 1 : 0);
      }
      waitpid(pid, &status, 0);
      runs++;
      if (WIFSIGNALED(status)) {
        printf("  script %d %s | %s\n    CRASH: recorder died with signal %d\n", si, strlen(script) < 100 ? script : "(long random script)", cfgs[ci].name, WTERMSIG(status));
        total_bad_runs++;
      } else if (WEXITSTATUS(status) != 0) {
        total_bad_runs++;
      }
    }
  }
  {
    char cmd[300];
    snprintf(cmd, sizeof(cmd), "rm -rf %s", dir);
    if (system(cmd)) {}
  }
  printf("%d runs, %d with totals differing from the uncontracted interval sequence\n", runs, total_bad_runs);
  printf(total_bad_runs ? "FAIL\n" : "OK\n");
  return total_bad_runs ? 1 : 0;
}
