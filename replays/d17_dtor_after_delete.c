/* replay for defect D17 (property C16, also C11's "live key"): the destructor of a key deleted with pthread_key_delete
 * is still run when a thread that holds a value under it exits.  POSIX: after deletion no destructor is called.
 *   system:  gcc d17_dtor_after_delete.c -lpthread -o d17_sys && ./d17_sys      -> "OK calls=0"
 *   myth:    gcc d17_dtor_after_delete.c @$R/src/myth-ld.opts -L$R/src/.libs -Wl,-rpath,$R/src/.libs -lmyth-ld -lpthread -ldl -o d17_myth
 *            ./d17_myth  -> before the fix "FAIL calls=1" (exit 1), after it "OK calls=0"
 */
#include <pthread.h>
#include <stdio.h>

static int calls;
static void dtor(void *p) { (void)p; calls++; }
static pthread_key_t k;
static pthread_barrier_t b;

static void *body(void *arg) {
  static int v = 7;
  (void)arg;
  pthread_setspecific(k, &v);
  pthread_barrier_wait(&b);      /* value stored */
  pthread_barrier_wait(&b);      /* key deleted by main */
  return 0;
}

int main(void) {
  pthread_t t;
  pthread_barrier_init(&b, 0, 2);
  pthread_key_create(&k, dtor);
  pthread_create(&t, 0, body, 0);
  pthread_barrier_wait(&b);
  pthread_key_delete(k);
  pthread_barrier_wait(&b);
  pthread_join(t, 0);
  printf("%s calls=%d\n", calls == 0 ? "OK" : "FAIL", calls);
  return calls != 0;
}
