/* D8: custom stack size just above 1 GiB: size-class index 31 >= FREE_LIST_NUM (31 entries) */
#include <myth/myth.h>
#include <stdio.h>
#include <stdlib.h>
static void *f(void *x){ return x; }
int main(int argc,char**argv){
  size_t sz = argc>1 ? strtoul(argv[1],0,0) : 0x40001000UL;
  myth_thread_attr_t a; myth_thread_attr_init(&a); myth_thread_attr_setstacksize(&a, sz);
  myth_thread_t t; myth_create_ex(&t,&a,f,(void*)1); void*r; myth_join(t,&r);
  printf("ok %p\n", r); return 0; }
