/* D10/D11: pthread spin lock return values through the MassiveThreads redirection.
   POSIX: pthread_spin_trylock returns 0 when it acquired the lock and EBUSY otherwise;
          pthread_spin_lock returns 0 on success.  Run once with the system pthreads and once linked
          with libmyth-dl / libmyth-ld: a determinate program must print the same. */
#include <pthread.h>
#include <stdio.h>
#include <errno.h>
static pthread_spinlock_t l;
static volatile int go;
static void *holder(void *x) { pthread_spin_lock(&l); go = 1; while (go != 2) sched_yield(); pthread_spin_unlock(&l); return x; }
int main(void) {
  int bad = 0;
  pthread_spin_init(&l, PTHREAD_PROCESS_PRIVATE);
  int r1 = pthread_spin_trylock(&l);           /* free lock: must be 0 */
  int r2 = pthread_spin_trylock(&l);           /* held lock: must be EBUSY */
  printf("trylock(free)=%d trylock(held)=%d (expect 0 and %d)\n", r1, r2, EBUSY);
  if (r1 != 0 || r2 != EBUSY) bad = 1;
  if (r1 == 0 || r2 == 0) pthread_spin_unlock(&l);
  /* contended lock: the second locker must still get 0 */
  pthread_t t; pthread_create(&t, 0, holder, 0);
  while (!go) sched_yield();
  go = 2;
  int r3 = pthread_spin_lock(&l);
  printf("lock(after contention)=%d (expect 0)\n", r3);
  if (r3 != 0) bad = 1;
  pthread_spin_unlock(&l);
  pthread_join(t, 0);
  puts(bad ? "FAIL" : "OK"); return bad;
}
