/* D1+D2: attr prepared only by myth_thread_attr_init on a dirty stack slot; NULL id */
#include <myth/myth.h>
#include <string.h>
#include <stdio.h>
static void *f(void *x){ return x; }
static void dirty(void){ volatile char b[4096]; memset((void*)b,0x5a,sizeof b); }
static int go(void){ myth_thread_attr_t a; myth_thread_attr_init(&a); myth_thread_t t; myth_create_ex(&t,&a,f,(void*)7); void*r; myth_join(t,&r); return r==(void*)7; }
int main(){ dirty(); int ok=go(); myth_create_ex(0,0,f,0); myth_yield(); printf("ok=%d\n",ok); return !ok; }
