#include <myth/myth.h>
#include <mtbb/parallel_for.h>
#include <cstdio>
#include <atomic>
static std::atomic<long> n;
int main(){ mtbb::parallel_for(0L,0L,[](long){ n++; }); mtbb::parallel_for(5L,3L,[](long){ n++; }); mtbb::parallel_for(0L,10L,[](long){ n++; }); printf("n=%ld\n",n.load()); return n!=10; }
