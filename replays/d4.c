/* D4: destructors for keys behind empty branches */
#include <myth/myth.h>
#include <stdio.h>
static int calls; static long sum;
static void d(void*v){ calls++; sum+=(long)v; }
static myth_key_t k[40];
static void *f(void*x){ myth_setspecific(k[0],(void*)1); myth_setspecific(k[17],(void*)10); myth_setspecific(k[33],(void*)100); return 0; }
int main(){ for(int i=0;i<40;i++) myth_key_create(&k[i],d); myth_thread_t t=myth_create(f,0); myth_join(t,0); printf("calls=%d sum=%ld\n",calls,sum); return !(sum==111); }
