/* (meaningful on the tree BEFORE the fix only: with the spinlock fix a signal handler that re-enters the allocator self-deadlocks;
   use d5_aba_mt.c on the repaired tree.)
   D5: ABA in the lock-free key free list (myth_tls_key_allocator_alloc).
   A creator is interrupted (timer signal on its own OS thread) between reading head->next and its CAS;
   the handler performs create, create, delete(first) -- exactly the history
       A: ke=K0, next=K1 | B: alloc K0, alloc K1, free K0 | A: CAS(free,K0,K1) succeeds -> free list head = K1 (live)
   after which the next create hands out a key that is still live. */
#define _GNU_SOURCE
#include <myth/myth.h>
#include <signal.h>
#include <stdio.h>
#include <stdlib.h>
#include <string.h>
#include <sys/time.h>
#include <unistd.h>
static volatile int in_main_create, handler_busy;
static volatile long n_sig, n_hit;
static myth_key_t held[4096]; static volatile int n_held;
static char live[1100];
static void handler(int sig) {
  (void)sig;
  if (handler_busy) return; handler_busy = 1; n_sig++;
  if (n_held < 4000) {
    myth_key_t a, b;
    if (myth_key_create(&a, 0) == 0) {
      if (myth_key_create(&b, 0) == 0) { held[n_held++] = b; }
      myth_key_delete(a);
    }
  }
  handler_busy = 0;
}
int main(int argc, char **argv) {
  long iters = argc > 1 ? atol(argv[1]) : 200000000L;
  myth_init();
  struct sigaction sa; memset(&sa, 0, sizeof sa); sa.sa_handler = handler; sigaction(SIGPROF, &sa, 0);
  struct itimerval it = { {0, 37}, {0, 37} }; setitimer(ITIMER_PROF, &it, 0);
  for (long i = 0; i < iters; i++) {
    myth_key_t k;
    if (myth_key_create(&k, 0) != 0) { /* table exhausted: release what the handler holds */
      sigset_t s; sigemptyset(&s); sigaddset(&s, SIGPROF); sigprocmask(SIG_BLOCK, &s, 0);
      for (int j = 0; j < n_held; j++) myth_key_delete(held[j]); n_held = 0;
      sigprocmask(SIG_UNBLOCK, &s, 0); continue; }
    /* k must not be one of the keys the handler still holds */
    sigset_t s; sigemptyset(&s); sigaddset(&s, SIGPROF); sigprocmask(SIG_BLOCK, &s, 0);
    for (int j = 0; j < n_held; j++) if (held[j] == k) {
      printf("FAIL: key %d handed out twice (iteration %ld, %ld signals)\n", k, i, n_sig); return 1; }
    if (n_held > 900) { for (int j = 0; j < n_held; j++) myth_key_delete(held[j]); n_held = 0; }
    sigprocmask(SIG_UNBLOCK, &s, 0);
    myth_key_delete(k);
  }
  printf("OK: no duplicate in %ld iterations, %ld signals\n", iters, n_sig); return 0;
}
