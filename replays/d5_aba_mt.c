/* D5 with real concurrency: several user threads on several workers create and delete keys; each thread
   checks that the keys it currently holds are not handed to it again.  On the unrepaired tree the pop-side ABA
   corrupts the free list (duplicate live keys, or the -1 "in use" marker becomes the list head -> SIGSEGV). */
#include <myth/myth.h>
#include <stdio.h>
#include <stdlib.h>
#define NT 8
static volatile int fail;
static char owner[1100];
static void *w(void *a) {
  long id = (long)a + 1, n = 0;
  myth_key_t k[3];
  for (long i = 0; i < 3000000 && !fail; i++) {
    int m = 0;
    for (int j = 0; j < 3; j++) if (myth_key_create(&k[m], 0) == 0) {
      char o = __sync_val_compare_and_swap(&owner[k[m]], 0, (char)id);
      if (o != 0) { printf("FAIL: key %d given to thread %ld while thread %d holds it (iteration %ld)\n", k[m], id, o, i); fail = 1; return 0; }
      m++; }
    for (int j = 0; j < m; j++) { owner[k[j]] = 0; myth_key_delete(k[j]); }
    n++;
  }
  return 0;
}
int main() {
  myth_thread_t t[NT];
  for (long i = 0; i < NT; i++) t[i] = myth_create(w, (void *)i);
  for (int i = 0; i < NT; i++) myth_join(t[i], 0);
  puts(fail ? "FAILED" : "OK"); return fail;
}
