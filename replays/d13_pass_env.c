/* D13: a thread handed to another worker with myth_wsapi_runqueue_pass and picked up there by the
   thread-exit path (myth_entry_point_cleanup pops the next thread) keeps the env of its old worker:
   every other consumer of a popped/stolen thread rebinds next->env, the exit path does not. */
#include <myth/myth.h>
#include <stdio.h>
#include <stdlib.h>
static volatile int stage, done_cnt;
static void *victim(void *x) { __sync_fetch_and_add(&done_cnt, 1); return x; }       /* the thread that gets passed */
static void *busy(void *x) {                                                          /* keeps worker 1 busy, then exits */
  stage = 1; while (stage < 2) { } return x; }
static void *passer(void *x) {
  /* runs on worker 0: wait until `busy` runs on the other worker */
  while (stage < 1) myth_yield();
  for (;;) {
    myth_thread_t t = myth_wsapi_runqueue_pop();     /* a ready thread from my own queue (one of the victims) */
    if (!t) break;
    while (!myth_wsapi_runqueue_pass(1 - myth_get_worker_num(), t)) { }
  }
  stage = 2;                                         /* let busy finish: its exit path pops a passed thread */
  return x;
}
int main(void) {
  enum { N = 64 };
  myth_thread_t v[N];
  myth_thread_attr_t a; myth_thread_attr_init(&a); a.child_first = 0;   /* parent-first: victims stay in my queue */
  myth_thread_t b, p;
  myth_create_ex(&b, &a, busy, 0);
  for (int i = 0; i < N; i++) myth_create_ex(&v[i], &a, victim, 0);
  myth_create_ex(&p, &a, passer, 0);
  myth_join(p, 0); myth_join(b, 0);
  for (int i = 0; i < N; i++) myth_join(v[i], 0);
  printf("OK: %d passed threads ran\n", done_cnt); return 0;
}
