/* D12: pthread_mutex_unlock must return 0 on success; through the redirection it returns
   myth_mutex_unlock_body's internal retry counter. */
#include <pthread.h>
#include <stdio.h>
static pthread_mutex_t m = PTHREAD_MUTEX_INITIALIZER;
static volatile long bad, first_bad;
static void *w(void *x) {
  for (int i = 0; i < 300000 && !bad; i++) {
    int r = pthread_mutex_lock(&m); if (r) { bad = 1; first_bad = 1000 + r; }
    r = pthread_mutex_unlock(&m); if (r) { bad = 1; first_bad = r; }
  }
  return x;
}
int main(void) {
  pthread_t t[8];
  for (int i = 0; i < 8; i++) pthread_create(&t[i], 0, w, 0);
  for (int i = 0; i < 8; i++) pthread_join(t[i], 0);
  if (bad) printf("FAIL: a successful lock/unlock returned %ld\n", first_bad); else puts("OK");
  return bad != 0;
}
