/* replay for defect D16 (properties C16 / C11): a key destructor is invoked with NULL for a key the exiting thread
 * never set, when the thread used another key of the same 16-entry leaf.  POSIX (and the system library) call a
 * destructor only for a non-NULL value, so a determinate pthread program observes a different result.
 *   system:  gcc d16_dtor_null.c -lpthread -o d16_sys && ./d16_sys             -> "OK calls=1 null_calls=0"
 *   myth:    gcc d16_dtor_null.c @$R/src/myth-ld.opts -L$R/src/.libs -Wl,-rpath,$R/src/.libs -lmyth-ld -lpthread -ldl -o d16_myth
 *            ./d16_myth   -> before the fix "FAIL calls=2 null_calls=1" (exit 1); after it the same line as the system library
 */
#include <pthread.h>
#include <stdio.h>
#include <stdlib.h>

static int calls, null_calls;
static void dtor(void *p) { calls++; if (!p) null_calls++; }

static pthread_key_t k0, k1;
static void *body(void *arg) {
  static int v = 7;
  (void)arg;
  pthread_setspecific(k0, &v);     /* k1 is left unset: its value is NULL */
  return 0;
}

int main(void) {
  pthread_t t;
  pthread_key_create(&k0, dtor);
  pthread_key_create(&k1, dtor);
  pthread_create(&t, 0, body, 0);
  pthread_join(t, 0);
  printf("%s calls=%d null_calls=%d\n", (calls == 1 && null_calls == 0) ? "OK" : "FAIL", calls, null_calls);
  return !(calls == 1 && null_calls == 0);
}
