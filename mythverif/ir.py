"""Object model and graph queries over the JSON facts emitted by engine/mythir.

Everything here is a static query over the compiled program: CFG reachability,
dominance, def-use walks, struct-field access paths, inline-asm classification.
"""
import json
import re
from collections import deque


def is_const(r):
    return isinstance(r, dict)


def const_int(r):
    if isinstance(r, dict) and 'c' in r:
        return r['c']
    return None


class Inst:
    __slots__ = ('id', 'op', 'ty', 'line', 'col', 'file', 'block', 'idx', 'd', 'fn')

    def __init__(self, d, block, idx, fn):
        self.d = d
        self.id = d['id']
        self.op = d['op']
        self.ty = d.get('ty')
        self.line = d.get('line', 0)
        self.col = d.get('col', 0)
        self.file = d.get('file', fn.file)
        self.block = block
        self.idx = idx
        self.fn = fn

    # convenient accessors
    @property
    def callee(self):
        return self.d.get('callee')

    @property
    def args(self):
        return self.d.get('args', [])

    @property
    def ops(self):
        return self.d.get('ops', [])

    @property
    def asm(self):
        return self.d.get('asm')

    @property
    def constraints(self):
        return self.d.get('constraints', '')

    @property
    def pred(self):
        return self.d.get('pred')

    @property
    def volatile(self):
        return bool(self.d.get('volatile'))

    @property
    def inl(self):
        """inline chain: [innermost function, 'caller:line', ...] or []"""
        return self.d.get('inl', [])

    @property
    def origin_fn(self):
        """source function this instruction was written in"""
        c = self.d.get('inl')
        return c[0] if c else self.fn.name

    def from_fn(self, name):
        """True if the instruction is (transitively) inlined from `name` or is in it."""
        if self.fn.name == name:
            return True
        c = self.d.get('inl')
        if not c:
            return False
        if c[0] == name:
            return True
        return any(x.split(':')[0] == name for x in c[1:])

    @property
    def loc(self):
        f = self.fn.mod.files[self.file] if self.file is not None and self.file < len(self.fn.mod.files) else '?'
        return '%s:%d' % (shortpath(f), self.line)

    @property
    def ptr(self):
        """pointer operand of a memory access"""
        if self.op == 'load':
            return self.ops[0]
        if self.op == 'store':
            return self.ops[1]
        if self.op in ('cmpxchg', 'atomicrmw'):
            return self.ops[0]
        return None

    def __repr__(self):
        return '<%s %s %s @%s>' % (self.id, self.op, self.callee or self.asm_kind() or '', self.loc)

    def asm_kind(self):
        return classify_asm(self.asm, self.constraints) if self.asm is not None else None


def shortpath(p):
    """path relative to the repository root (works for /repo and for scratch copies of it)"""
    if not p:
        return '?'
    p = re.sub(r'/\./', '/', p)
    p = re.sub(r'^\./', '', p)
    for seg in ('/src/', '/include/', '/witnesses/'):
        k = p.find(seg)
        if k >= 0:
            return p[k + 1:]
    if not p.startswith('/') and '/' not in p:
        return 'src/' + p
    return p


class Block:
    __slots__ = ('id', 'insts', 'succ', 'pred', 'idom', 'ipdom', 'reach')

    def __init__(self, d):
        self.id = d['id']
        self.succ = list(d['succ'])
        self.pred = []
        self.idom = d['idom']
        self.ipdom = d['ipdom']
        self.reach = d['reach']
        self.insts = []


NORETURN_CALLS = {'abort', 'exit', '_exit', '__assert_fail', '__assert_rtn', 'myth_unreachable', 'pthread_exit'}


class Function:
    def __init__(self, name, d, mod):
        self.name = name
        self.mod = mod
        self.d = d
        self.file = d.get('file')
        self.line = d.get('line')
        self.internal = d['internal']
        self.used = d['used']
        self.attrs = d['attrs']
        self.cc = d['cc']
        self.params = d['params']
        self.ret = d['ret']
        self.loops = d['loops']
        self.blocks = []
        self.insts = {}
        self.order = []
        for bd in d['blocks']:
            b = Block(bd)
            self.blocks.append(b)
            for k, idd in enumerate(bd['insts']):
                ins = Inst(idd, b, k, self)
                b.insts.append(ins)
                self.insts[ins.id] = ins
                self.order.append(ins)
        for b in self.blocks:
            for s in b.succ:
                self.blocks[s].pred.append(b.id)
        self.varnames = {}
        for v, n, kind in d.get('vars', []):
            self.varnames.setdefault(v, n)
        self._users = None
        self._domcache = {}
        self._feasible = None

    # ---- basic ----
    @property
    def loc(self):
        f = self.mod.files[self.file] if self.file is not None and self.file < len(self.mod.files) else '?'
        return '%s:%s' % (shortpath(f), self.line)

    def get(self, ref):
        if isinstance(ref, str):
            return self.insts.get(ref)
        return None

    def param_index(self, ref):
        if isinstance(ref, str) and ref.startswith('a'):
            return int(ref[1:])
        return None

    def param_named(self, name):
        for p in self.params:
            if p['name'] == name:
                return p['id']
        return None

    def users(self, ref):
        if self._users is None:
            u = {}
            for ins in self.order:
                for r in iter_refs(ins.d):
                    u.setdefault(r, []).append(ins)
            self._users = u
        return self._users.get(ref, [])

    def calls(self, name=None):
        return [i for i in self.order if i.op in ('call', 'invoke') and (name is None or i.callee == name)]

    def var(self, ref):
        return self.varnames.get(ref) if isinstance(ref, str) else None

    # ---- CFG with infeasible (constant-condition) edges removed ----
    def term(self, b):
        return b.insts[-1] if b.insts else None

    def is_noreturn(self, ins):
        if ins.op == 'unreachable':
            return True
        if ins.op == 'call':
            if ins.d.get('noreturn') or ins.callee in NORETURN_CALLS:
                return True
            if ins.asm is not None and classify_asm(ins.asm, ins.constraints) in ('set_context', 'set_context_withcall'):
                return True
        return False

    def succs(self, b):
        """feasible successor block ids of block b (constant conditions folded)"""
        t = self.term(b)
        if t is None:
            return []
        if t.op == 'br' and 'cond' in t.d:
            c = self.const_cond(t.d['cond'])
            if c is True:
                return [t.d['t']]
            if c is False:
                return [t.d['f']]
        return b.succ

    def const_cond(self, ref):
        if isinstance(ref, dict):
            if 'c' in ref:
                return bool(ref['c'])
            return None
        ins = self.get(ref)
        if ins is not None and ins.op == 'icmp':
            a, b = ins.ops
            # function address compared with null
            for x, y in ((a, b), (b, a)):
                if isinstance(x, dict) and ('fn' in x or 'g' in x) and isinstance(y, dict) and y.get('null'):
                    return ins.pred == 'ne'
            ca, cb = const_int(a), const_int(b)
            if ca is not None and cb is not None and isinstance(a, dict) and isinstance(b, dict):
                return eval_icmp(ins.pred, ca, cb, a.get('w', 64))
        return None

    def inst_succs(self, ins):
        """instruction-level successors"""
        if self.is_noreturn(ins):
            return []
        b = ins.block
        if ins.idx + 1 < len(b.insts):
            return [b.insts[ins.idx + 1]]
        return [self.blocks[s].insts[0] for s in self.succs(b) if self.blocks[s].insts]

    def reachable_from(self, start, blocked=(), include_start=False, stop_pred=None):
        """set of instructions reachable from `start` (an Inst) along feasible
        CFG edges without passing *through* an instruction in `blocked`
        (blocked instructions themselves are reported as reached, not expanded)."""
        blocked = set(b.id if isinstance(b, Inst) else b for b in blocked)
        seen = set()
        out = set()
        dq = deque()
        if include_start:
            dq.append(start)
        else:
            dq.extend(self.inst_succs(start))
        while dq:
            i = dq.popleft()
            if i.id in seen:
                continue
            seen.add(i.id)
            out.add(i)
            if i.id in blocked:
                continue
            if stop_pred is not None and stop_pred(i):
                continue
            dq.extend(self.inst_succs(i))
        return out

    def entry_inst(self):
        return self.blocks[0].insts[0]

    def exits(self):
        """return instructions (normal function exits)"""
        return [i for i in self.order if i.op == 'ret']

    def can_reach(self, a, b, blocked=()):
        return b in self.reachable_from(a, blocked)

    def reachable_insts(self):
        e = self.entry_inst()
        return self.reachable_from(e, include_start=True)

    def always_passes(self, a, through, to=None, blocked_extra=()):
        """True iff every feasible path from instruction `a` to a function
        return (or to any instruction in `to`) passes through one of `through`."""
        targets = set(i.id for i in (to if to is not None else self.exits()))
        reached = self.reachable_from(a, blocked=list(through) + list(blocked_extra))
        thr = set(t.id if isinstance(t, Inst) else t for t in through)
        for i in reached:
            if i.id in targets and i.id not in thr:
                return False
        return True

    def witness_path(self, a, targets, blocked=()):
        """a shortest instruction path from a to any target avoiding blocked (for reports)"""
        blocked = set(b.id if isinstance(b, Inst) else b for b in blocked)
        tg = set(t.id if isinstance(t, Inst) else t for t in targets)
        prev = {}
        dq = deque()
        for s in self.inst_succs(a):
            if s.id not in prev:
                prev[s.id] = None
                dq.append(s)
        while dq:
            i = dq.popleft()
            if i.id in tg:
                path = []
                cur = i
                while cur is not None:
                    path.append(cur)
                    cur = prev[cur.id]
                return [a] + path[::-1]
            if i.id in blocked:
                continue
            for s in self.inst_succs(i):
                if s.id not in prev:
                    prev[s.id] = i
                    dq.append(s)
        return None

    @staticmethod
    def path_lines(path):
        if not path:
            return []
        out = []
        for i in path:
            l = i.loc
            if not out or out[-1] != l:
                out.append(l)
        return out

    # ---- dominance ----
    def bdom(self, a, b):
        """block a dominates block b (by ids)"""
        if a == b:
            return True
        cur = self.blocks[b].idom
        while cur is not None and cur >= 0:
            if cur == a:
                return True
            cur = self.blocks[cur].idom
        return False

    def dominates(self, i1, i2):
        """i1 executes before i2 on every path from entry to i2 (static CFG,
        constant conditions NOT folded: conservative LLVM dominator tree)"""
        if i1.block is i2.block:
            return i1.idx < i2.idx
        return self.bdom(i1.block.id, i2.block.id)

    def dominates_f(self, i1, i2):
        """dominance on the feasible CFG (constant branches folded): every feasible
        path entry->i2 passes i1."""
        if i1 is i2:
            return True
        if isinstance(i2, EdgePoint):
            if i2.bto not in self.succs(self.blocks[i2.bfrom]):
                return True
            i2 = i2.term
            if i1 is i2:
                return True
        e = self.entry_inst()
        if e is i1:
            return True
        r = self.reachable_from(e, blocked=[i1], include_start=True)
        return i2 not in r

    def edge_dominates(self, bfrom, bto, target):
        """every feasible path entry -> target traverses CFG edge bfrom->bto.
        target is an Inst or an EdgePoint (the CFG edge itself being traversed)."""
        tedge = None
        if isinstance(target, EdgePoint):
            tedge = (target.bfrom, target.bto)
            if tedge == (bfrom, bto):
                return True
            if target.bto not in self.succs(self.blocks[target.bfrom]):
                return True  # infeasible edge: vacuous
            target = self.blocks[target.bfrom].insts[-1]
        e = self.entry_inst()
        seen = set()
        dq = deque([e])
        while dq:
            i = dq.popleft()
            if i.id in seen:
                continue
            seen.add(i.id)
            if i is target:
                return False
            if self.is_noreturn(i):
                continue
            b = i.block
            if i.idx + 1 < len(b.insts):
                dq.append(b.insts[i.idx + 1])
            else:
                for s in self.succs(b):
                    if b.id == bfrom and s == bto:
                        continue
                    if self.blocks[s].insts:
                        dq.append(self.blocks[s].insts[0])
        return True

    def cond_edges(self, cond_ref):
        """[(br_inst, true_block, false_block)] for branches on cond_ref"""
        out = []
        for ins in self.order:
            if ins.op == 'br' and ins.d.get('cond') == cond_ref:
                out.append((ins, ins.d['t'], ins.d['f']))
        return out

    def on_edge(self, cond_ref, polarity, target):
        """target executes only after branch on cond_ref was taken with `polarity`"""
        for br, t, f in self.cond_edges(cond_ref):
            if t == f:
                continue
            if self.edge_dominates(br.block.id, t if polarity else f, target):
                return True
        return False

    def loop_of_block(self, bid):
        best = None
        for k, l in enumerate(self.loops):
            if bid in l['blocks']:
                if best is None or l['depth'] > self.loops[best]['depth']:
                    best = k
        return best

    def in_loop(self, ins):
        return self.loop_of_block(ins.block.id) is not None

    # ---- value flow ----
    PASS_OPS = ('bitcast', 'ptrtoint', 'inttoptr', 'zext', 'sext', 'trunc', 'addrspacecast', 'freeze')

    def strip(self, ref):
        """look through value-preserving casts"""
        while isinstance(ref, str):
            ins = self.insts.get(ref)
            if ins is None:
                break
            if ins.op == 'phi' and len(ins.d['incoming']) == 1:
                ref = ins.d['incoming'][0][0]
                continue
            if ins.op not in self.PASS_OPS:
                break
            ref = ins.ops[0]
        if isinstance(ref, dict) and ref.get('ce') in ('bitcast', 'ptrtoint', 'inttoptr'):
            return self.strip(ref['ops'][0])
        return ref

    def sources(self, ref, through_arith=False, through_gep0=True, limit=400):
        """set of origin values (refs, as hashable keys) reaching `ref` through
        casts, phi and select (and optionally arithmetic / GEP)."""
        out = set()
        seen = set()
        st = [ref]
        n = 0
        while st and n < limit:
            r = st.pop()
            n += 1
            k = refkey(r)
            if k in seen:
                continue
            seen.add(k)
            if isinstance(r, dict):
                if r.get('ce') in ('bitcast', 'ptrtoint', 'inttoptr'):
                    st.append(r['ops'][0])
                else:
                    out.add(k)
                continue
            ins = self.insts.get(r)
            if ins is None:
                out.add(k)  # parameter
                continue
            if ins.op in self.PASS_OPS:
                st.append(ins.ops[0])
            elif ins.op == 'phi':
                for v, _b in ins.d['incoming']:
                    st.append(v)
            elif ins.op == 'select':
                st.append(ins.ops[1])
                st.append(ins.ops[2])
            elif through_arith and ins.op in ('add', 'sub', 'mul', 'and', 'or', 'xor', 'shl', 'lshr', 'ashr',
                                              'sdiv', 'udiv', 'srem', 'urem'):
                for o in ins.ops:
                    st.append(o)
            elif through_arith and ins.op == 'getelementptr':
                st.append(ins.d['base'])
            elif through_gep0 and ins.op == 'getelementptr' and ins.d.get('coff') == 0:
                st.append(ins.d['base'])
            else:
                out.add(k)
        return out

    def derives_from(self, ref, pred, through_arith=True):
        """some origin of ref satisfies pred(ref_or_inst)"""
        for k in self.sources(ref, through_arith=through_arith):
            r = keyref(k)
            ins = self.insts.get(r) if isinstance(r, str) else None
            if pred(ins if ins is not None else r):
                return True
        return False

    # ---- access paths ----
    def ap(self, ref, depth=0):
        """AccessPath of a pointer value: (root_ref, [field names ...], steps)"""
        fields = []
        steps = []
        cur = ref
        guard = 0
        while guard < 64:
            guard += 1
            if isinstance(cur, dict):
                if cur.get('ce') == 'getelementptr':
                    p = cur.get('path', [])
                    fs, ss = path_fields(p)
                    fields = fs + fields
                    steps = ss + steps
                    cur = cur['ops'][0]
                    continue
                if cur.get('ce') in ('bitcast',):
                    cur = cur['ops'][0]
                    continue
                break
            ins = self.insts.get(cur)
            if ins is None:
                break
            if ins.op == 'getelementptr':
                fs, ss = path_fields(ins.d['path'])
                fields = fs + fields
                steps = ss + steps
                cur = ins.d['base']
            elif ins.op in ('bitcast', 'addrspacecast'):
                um = ins.d.get('um')
                if um:
                    # a cast of a pointer to a union selects one named member of it
                    fields = [um] + fields
                    steps = [('f', um)] + steps
                cur = ins.ops[0]
            elif ins.op == 'phi' and len(ins.d['incoming']) == 1:
                cur = ins.d['incoming'][0][0]
            elif ins.op == 'phi' and depth < 4:
                # a phi of structurally identical addresses (block duplication by jump threading)
                subs = [self.ap(v, depth + 1) for v, _b in ins.d['incoming'] if v != cur]
                keys = set(a.key() for a in subs)
                if len(keys) == 1 and subs:
                    a0 = subs[0]
                    fields = a0.fields + fields
                    steps = a0.steps + steps
                    cur = a0.root
                break
            else:
                break
        return AccessPath(cur, fields, steps, self)

    def field(self, ins):
        """last struct field touched by a memory instruction ('' if none)"""
        p = ins.ptr
        if p is None:
            return ''
        a = self.ap(p)
        return a.fields[-1] if a.fields else ''

    def mem_accesses(self, field=None, ops=('load', 'store', 'cmpxchg', 'atomicrmw')):
        self.mod.check_fields(field)
        out = []
        for ins in self.order:
            if ins.op in ops:
                f = self.field(ins)
                if field is None or f == field or (isinstance(field, (set, tuple, list)) and f in field):
                    out.append(ins)
        return out

    def stores_to(self, field):
        return self.mem_accesses(field, ops=('store',))

    def loads_of(self, field):
        return self.mem_accesses(field, ops=('load',))


class EdgePoint:
    """a program point on a CFG edge (used for phi-selected return values)"""

    def __init__(self, fn, bfrom, bto):
        self.fn = fn
        self.bfrom = bfrom
        self.bto = bto
        self.term = fn.blocks[bfrom].insts[-1]
        self.loc = self.term.loc
        self.id = 'edge:%d->%d' % (bfrom, bto)
        self.block = fn.blocks[bfrom]

    def __repr__(self):
        return '<edge %d->%d @%s>' % (self.bfrom, self.bto, self.loc)


class AccessPath:
    def __init__(self, root, fields, steps, fn):
        self.root = root
        self.fields = fields
        self.steps = steps
        self.fn = fn

    def root_desc(self):
        r = self.root
        if isinstance(r, dict):
            if 'g' in r:
                return '@' + r['g']
            return json.dumps(r)
        ins = self.fn.insts.get(r)
        if ins is None:
            idx = self.fn.param_index(r)
            if idx is not None and idx < len(self.fn.params):
                return 'param:' + (self.fn.params[idx]['name'] or r)
            return r
        v = self.fn.var(r)
        if ins.op == 'load':
            inner = self.fn.ap(ins.ops[0])
            return 'load(%s)' % inner.desc()
        if ins.op == 'call':
            return 'call:%s' % (ins.callee or '?')
        return v or ('%s:%s' % (ins.op, r))

    def desc(self):
        s = self.root_desc()
        for f in self.fields:
            s += '->' + f
        return s

    def key(self):
        """structural key (root identity + fields + constant indices)"""
        return (refkey(self.fn.strip(self.root)), tuple(self.steps))


def path_fields(path):
    fs = []
    ss = []
    for k, st in enumerate(path):
        if 'f' in st:
            fs.append(st['f'])
            ss.append(('f', st['f']))
        elif 'i' in st:
            c = const_int(st['i'])
            ss.append(('i', c if c is not None else refkey(st['i'])))
        elif 'p' in st:
            c = const_int(st['p'])
            if c != 0:
                ss.append(('p', c if c is not None else refkey(st['p'])))
    return fs, ss


def refkey(r):
    if isinstance(r, str):
        return r
    return json.dumps(r, sort_keys=True)


def keyref(k):
    if k.startswith('{') or k.startswith('['):
        return json.loads(k)
    return k


def iter_refs(d):
    """all value-id strings referenced by an instruction dict"""
    for key in ('ops', 'args'):
        for r in d.get(key, []):
            yield from _refs_in(r)
    for key in ('base', 'cond', 'callee_ref'):
        if key in d:
            yield from _refs_in(d[key])
    for st in d.get('path', []):
        for k in ('i', 'p'):
            if k in st:
                yield from _refs_in(st[k])
    for v, _b in d.get('incoming', []):
        yield from _refs_in(v)


def _refs_in(r):
    if isinstance(r, str):
        yield r
    elif isinstance(r, dict):
        for o in r.get('ops', []):
            yield from _refs_in(o)


def eval_icmp(pred, a, b, w=64):
    m = (1 << w) - 1
    ua, ub = a & m, b & m
    return {'eq': a == b, 'ne': a != b, 'slt': a < b, 'sle': a <= b, 'sgt': a > b, 'sge': a >= b,
            'ult': ua < ub, 'ule': ua <= ub, 'ugt': ua > ub, 'uge': ua >= ub}.get(pred)


# ---------------------------------------------------------------------------
# inline asm classification (x86-64, AT&T, LLVM-escaped: $$ for $, ${N} operands)
# ---------------------------------------------------------------------------

def asm_lines(template):
    t = template.replace('\\0A', '\n').replace('\\09', ' ')
    out = []
    for l in re.split(r'[\n;]', t):
        l = l.strip()
        if l:
            out.append(l)
    return out


def classify_asm(template, constraints=''):
    """'swap_context' | 'swap_context_withcall' | 'set_context' |
    'set_context_withcall' | 'fence_full' | 'fence_compiler' | 'fence_load' |
    'fence_store' | 'other'"""
    if template is None:
        return None
    lines = asm_lines(template)
    txt = ' '.join(lines)
    saves_rsp = bool(re.search(r'mov[q]?\s+%rsp\s*,\s*\(', txt))
    loads_rsp = bool(re.search(r'mov[q]?\s+\(\s*[^)]*\)\s*,\s*%rsp', txt))
    has_call = bool(re.search(r'\bcall\b', txt))
    if loads_rsp:
        if saves_rsp:
            return 'swap_context_withcall' if has_call else 'swap_context'
        return 'set_context_withcall' if has_call else 'set_context'
    mem = 'memory' in constraints
    if not lines:
        return 'fence_compiler' if mem else 'other'
    if len(lines) <= 2:
        if re.search(r'\bmfence\b', txt) and mem:
            return 'fence_full'
        if re.search(r'\bxchg[a-z]?\b', txt) and mem and (re.search(r'\(', txt) or '*m' in constraints):
            return 'fence_full'  # xchg with a memory operand is implicitly locked
        if re.search(r'\block\b', txt) and mem:
            return 'fence_full'
        if re.search(r'\blfence\b', txt):
            return 'fence_load'
        if re.search(r'\bsfence\b', txt):
            return 'fence_store'
    return 'other'


def asm_callback(template):
    m = re.search(r'\bcall\s+([A-Za-z_][A-Za-z0-9_]*)(@PLT)?', template.replace('\\0A', '\n'))
    return m.group(1) if m else None


class Module:
    def __init__(self, path_or_dict, tag=''):
        if isinstance(path_or_dict, str):
            with open(path_or_dict) as fh:
                d = json.load(fh)
        else:
            d = path_or_dict
        self.tag = tag
        self.name = d['module']
        self.structs = d['structs']
        self.globals = d['globals']
        self.files = d['files']
        self.decls = set(d['decls'])
        self.functions = {}
        for n, fd in d['functions'].items():
            self.functions[n] = Function(n, fd, self)

    def fn(self, name):
        return self.functions.get(name)

    def check_fields(self, field):
        """a rule that names a struct field which the compiled program does not have is broken
        (typo or renamed/removed anchor): never silently match nothing"""
        if field is None:
            return
        names = [field] if isinstance(field, str) else list(field)
        for n in names:
            if '.' not in n:
                continue
            sname, fname = n.split('.', 1)
            if '|' in fname:
                # members of one union with identical type, indistinguishable after the cast
                for alt in fname.split('|'):
                    self.check_fields(sname + '.' + alt)
                continue
            st = self.structs.get(sname)
            if st is None:
                from .frontend import AnalysisBroken
                raise AnalysisBroken('rule refers to struct %s which does not exist in %s' % (sname, self.tag))
            if not any(f['name'] == fname for f in st['fields']):
                from .frontend import AnalysisBroken
                raise AnalysisBroken('rule refers to field %s which does not exist in %s' % (n, self.tag))

    def struct_field(self, sname, fname):
        s = self.structs.get(sname)
        if not s:
            return None
        for f in s['fields']:
            if f['name'] == fname:
                return f
        return None
