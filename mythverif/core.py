"""Check driver: builds IR views of the current /repo tree on demand, collects
obligations from the rule modules, applies known findings, writes evidence and
sets the exit code (0 held / 1 violation / 2 analysis broken)."""
import hashlib
import json
import os
import re
import shutil
import subprocess
import sys
import time
from concurrent.futures import ThreadPoolExecutor

from . import frontend as fe
from .frontend import AnalysisBroken
from .ir import Module

VERIF = fe.VERIF


class Obligation:
    __slots__ = ('rule', 'key', 'loc', 'ok', 'detail', 'what', 'trace', 'unit')

    def __init__(self, rule, key, loc, ok, what, detail='', trace=None, unit=''):
        self.rule = rule
        self.key = key
        self.loc = loc
        self.ok = ok
        self.what = what
        self.detail = detail
        self.trace = trace or []
        self.unit = unit

    def as_dict(self):
        d = {'rule': self.rule, 'instance': self.key, 'loc': self.loc, 'ok': self.ok, 'what': self.what}
        if self.detail:
            d['detail'] = self.detail
        if self.trace:
            d['trace'] = self.trace
        if self.unit:
            d['unit'] = self.unit
        return d


class Context:
    def __init__(self, prop, tier='quick', seed=0, repo=None, quiet=False):
        self.prop = prop
        self.tier = tier
        self.seed = seed
        self.repo = repo or fe.REPO
        self.quiet = quiet
        self.wd = fe.Workdir()
        self.db = fe.compile_db(self.repo)
        self._raw = {}
        self._mods = {}
        self.obligations = []
        self.floors = {}
        self.notes = []
        self.units = set()
        self.fn_analysed = set()
        self.rules_doc = {}
        self.unit = ''  # label of the unit (flavour:file) currently evaluated
        self._share = None
        self.deferred = []

    def close(self):
        self.wd.cleanup()

    # ------------------------------------------------------------------ IR
    def _src(self, area, flavour, file):
        if area == 'src':
            d = self.db['src'].get(flavour, {})
            if file not in d:
                raise AnalysisBroken('translation unit %s not part of flavour %s (sources: %s)' %
                                     (file, flavour, sorted(d)))
            return os.path.join(self.repo, 'src'), d[file]
        if area == 'profiler':
            d = self.db['profiler']
            if file not in d:
                raise AnalysisBroken('profiler unit %s not in libdr sources' % file)
            flags = [f.replace(fe.REPO, self.repo) if self.repo != fe.REPO else f for f in d[file]]
            return os.path.join(self.repo, 'src', 'profiler'), flags
        raise ValueError(area)

    def raw(self, file, flavour='vanilla', area='src', cxx=False, srcdir=None, flags=None):
        key = (area, flavour, file)
        if key in self._raw:
            return self._raw[key]
        fe.ensure_engine()
        if srcdir is None:
            srcdir, flags = self._src(area, flavour, file)
        base = os.path.join(self.wd.path, '%s.%s.%s' % (area, flavour, re.sub(r'[^A-Za-z0-9_]', '_', file)))
        raw = base + '.raw.ll'
        cc = fe.CLANGXX if cxx else fe.CLANG
        cmd = [cc] + list(flags) + ['-w', '-O1', '-U__OPTIMIZE__', '-g', '-Xclang', '-disable-llvm-passes',
                                    '-Xclang', '-disable-lifetime-markers', '-S', '-emit-llvm', file, '-o', raw]
        if cxx:
            cmd.insert(1, '-std=gnu++17')
        rc, so, se = fe._run(cmd, cwd=srcdir)
        if rc != 0:
            raise AnalysisBroken('clang failed on %s [%s]:\n%s' % (file, flavour, se[-3000:]))
        self._raw[key] = raw
        self.units.add('%s:%s' % (flavour if area == 'src' else area, file))
        return raw

    def enumerators(self, file, flavour='vanilla', area='src', **kw):
        """name -> value of every C enumerator the unit's debug info carries (resolved by name, never frozen)"""
        key = ('enum', area, flavour, file)
        if key not in self._mods:
            raw = self.raw(file, flavour, area, **kw)
            out = {}
            with open(raw) as fp:
                for line in fp:
                    if '!DIEnumerator(' in line:
                        mm = re.search(r'name: "([^"]+)", value: (-?\d+)', line)
                        if mm:
                            out[mm.group(1)] = int(mm.group(2))
            self._mods[key] = out
        return self._mods[key]

    def need_enum(self, enums, name):
        if name not in enums:
            raise AnalysisBroken('enumerator %s not found (anchor vanished)' % name)
        return enums[name]

    def emit_unit(self, names, flavour='vanilla', base='myth_if_native.c'):
        """(file, kwargs) of a scratch translation unit that is `base` plus references to the static inline functions
        `names`, so that their bodies are emitted and can be analysed together whichever library unit happens to use them.
        Compiled with base's own flags; never linked.  Use as ctx.view(file, roots, stops, **kwargs)."""
        srcdir, flags = self._src('src', flavour, base)
        tag = hashlib.sha1(repr((sorted(names), flavour, base)).encode()).hexdigest()[:10]
        path = os.path.join(self.wd.path, 'emit_%s.c' % tag)
        if not os.path.exists(path):
            with open(path, 'w') as fh:
                fh.write('#include "%s"\n' % os.path.join(srcdir, base))
                fh.write('void * mythverif_force_emit_%s[] = { %s };\n' % (tag, ', '.join('(void *)%s' % n for n in sorted(names))))
        return path, {'flavour': flavour, 'area': 'emit', 'srcdir': srcdir, 'flags': list(flags)}

    def prefetch(self, items):
        """compile several (file, flavour, area) units in parallel"""
        with ThreadPoolExecutor(max_workers=16) as ex:
            futs = [ex.submit(self.raw, f, fl, ar) for (f, fl, ar) in items if (ar, fl, f) not in self._raw]
            for f in futs:
                f.result()

    def _extract(self, ll, scev=True):
        js = ll[:-3] + '.json'
        cmd = [fe.MYTHIR, ll, js] + (['--scev'] if scev else [])
        rc, so, se = fe._run(cmd)
        if rc != 0:
            raise AnalysisBroken('mythir failed on %s: %s' % (ll, se[-1000:]))
        return js

    def ssa(self, file, flavour='vanilla', area='src', **kw):
        key = ('ssa', area, flavour, file)
        if key not in self._mods:
            raw = self.raw(file, flavour, area, **kw)
            ll = raw[:-7] + '.ssa.ll'
            rc, so, se = fe._run([fe.OPT, '-passes=function(sroa,instsimplify,loop-simplify,lcssa)', raw, '-S', '-o', ll])
            if rc != 0:
                raise AnalysisBroken('opt failed on %s: %s' % (file, se[-1000:]))
            self._mods[key] = Module(self._extract(ll), tag='%s:%s' % (flavour, file))
        return self._mods[key]

    def rawmod(self, file, flavour='vanilla', area='src', **kw):
        key = ('raw', area, flavour, file)
        if key not in self._mods:
            raw = self.raw(file, flavour, area, **kw)
            self._mods[key] = Module(self._extract(raw, scev=False), tag='%s:%s' % (flavour, file))
        return self._mods[key]

    def view(self, file, roots, stops=(), flavour='vanilla', area='src', **kw):
        """inlined view: every internal function without a source-level noinline
        is inlined (LLVM always-inline), except `roots` (analysed) and `stops`
        (kept as opaque calls)."""
        roots = tuple(sorted(set(roots)))
        stops = tuple(sorted(set(stops)))
        key = ('view', area, flavour, file, roots, stops)
        if key not in self._mods:
            raw = self.raw(file, flavour, area, **kw)
            h = hashlib.sha1(repr(key).encode()).hexdigest()[:10]
            prep = raw[:-7] + '.v%s.prep.ll' % h
            ll = raw[:-7] + '.v%s.ll' % h
            rc, so, se = fe._run([fe.MYTHIR, '--prep', raw, prep, '--roots=' + ','.join(roots),
                                  '--stops=' + ','.join(stops)])
            if rc != 0:
                raise AnalysisBroken('mythir --prep failed: %s' % se[-1000:])
            rc, so, se = fe._run([fe.OPT, '-passes=always-inline,function(sroa,early-cse,instsimplify,jump-threading,instsimplify,loop-simplify,lcssa)',
                                  prep, '-S', '-o', ll])
            if rc != 0:
                raise AnalysisBroken('opt (view) failed on %s: %s' % (file, se[-1000:]))
            m = Module(self._extract(ll), tag='%s:%s' % (flavour, file))
            os.unlink(prep)
            self._mods[key] = m
            # a static inline root that lost its last caller is not emitted into this unit although the source still defines
            # it: analyse it through a scratch unit that references it (a genuinely removed function fails to compile there
            # and stays a vanished anchor)
            missing = [r for r in roots if m.fn(r) is None]
            if missing and area == 'src' and not kw:
                try:
                    path, ekw = self.emit_unit(missing, flavour, file)
                    m2 = self.view(path, roots, stops, **ekw)
                    if all(m2.fn(r) is not None for r in missing):
                        self.note('view of %s: %s defined but unreferenced; analysed through a force-emitting scratch unit'
                                  % (file, ', '.join(missing)))
                        self._mods[key] = m2
                except AnalysisBroken:
                    pass
        return self._mods[key]

    def o2(self, file, flavour='vanilla', area='src'):
        key = ('o2', area, flavour, file)
        if key not in self._mods:
            srcdir, flags = self._src(area, flavour, file)
            base = os.path.join(self.wd.path, '%s.%s.%s' % (area, flavour, re.sub(r'[^A-Za-z0-9_]', '_', file)))
            ll = base + '.o2.ll'
            rc, so, se = fe._run([fe.CLANG] + list(flags) + ['-w', '-O2', '-g', '-S', '-emit-llvm', file, '-o', ll],
                                 cwd=srcdir)
            if rc != 0:
                raise AnalysisBroken('clang -O2 failed on %s: %s' % (file, se[-2000:]))
            self._mods[key] = Module(self._extract(ll), tag='%s:%s:o2' % (flavour, file))
        return self._mods[key]

    # ------------------------------------------------------------ obligations
    def need_fn(self, mod, name):
        f = mod.fn(name)
        if f is None:
            raise AnalysisBroken('anchor function %s not found in %s (renamed/removed? rule tables need updating)'
                                 % (name, mod.tag))
        self.fn_analysed.add(name)
        return f

    def attempt(self, fn, *a, **k):
        """evaluate one rule; a vanished anchor inside it is deferred so that the other rules of the property are still evaluated
        (the edit that removed the anchor is usually reported by one of them).  run_property turns a deferred failure into exit 2
        unless a violation was established."""
        try:
            return fn(*a, **k)
        except AnalysisBroken as e:
            self.deferred.append(str(e))
            return None

    def shared(self, mapping, keep=None, doc=None, floor=None):
        """context manager: run rule functions of another property's module and record, under this property's rule ids, the
        obligations that are also necessary conditions of this property.  mapping: their rule id -> ours; keep(instance) selects
        instances; everything else the callee states is not recorded here (it is decided by its own property's check)."""
        ctx = self

        class _S:
            def __enter__(self_):
                self_.prev = ctx._share
                self_.n0 = len(ctx.obligations)
                ctx._share = (mapping, keep)

            def __exit__(self_, *a):
                ctx._share = self_.prev
                for mine in set(mapping.values()):
                    if doc:
                        ctx.rules_doc[mine] = doc
                    if floor:
                        ctx.floor(mine, floor)
                return False
        return _S()

    def ob(self, rule, key, ok, what, loc='', detail='', trace=None):
        if self._share is not None:
            mapping, keep = self._share
            if rule not in mapping or (keep is not None and not keep(key)):
                return Obligation(rule, key, loc, bool(ok), what, detail, trace, self.unit)
            rule = mapping[rule]
        o = Obligation(rule, key, loc, bool(ok), what, detail, trace, self.unit)
        self.obligations.append(o)
        return o

    def floor(self, rule, n):
        if self._share is not None and rule not in set(self._share[0].values()):
            return
        self.floors[rule] = max(self.floors.get(rule, 0), n)

    def doc(self, rule, text):
        if self._share is not None:
            return
        self.rules_doc[rule] = text

    def note(self, s):
        self.notes.append(s)


# ---------------------------------------------------------------------------
# known findings
# ---------------------------------------------------------------------------

def load_known():
    p = os.path.join(VERIF, 'known_findings.json')
    try:
        return json.load(open(p))
    except OSError:
        return {'findings': []}


def match_known(known, prop, ob):
    for f in known.get('findings', []):
        if f.get('status') != 'open':
            continue
        if f.get('property') != prop:
            continue
        if f.get('rule') == ob.rule and f.get('instance') == ob.key:
            return f
    return None


# ---------------------------------------------------------------------------
# run a property
# ---------------------------------------------------------------------------

def dedup(obs):
    """distinct obligations by (rule, instance); an instance is violated if any copy is"""
    seen = {}
    for o in obs:
        k = (o.rule, o.key)
        if k not in seen:
            seen[k] = o
        elif seen[k].ok and not o.ok:
            seen[k] = o
    return list(seen.values())


def run_property(prop, tier, seed, rules_mod, repo=None, quiet=False, selftest=True):
    """returns (exit_code, distinct obligations, ctx)"""
    ctx = Context(prop, tier, seed, repo=repo, quiet=quiet)
    try:
        ctx.incomplete = None
        try:
            rules_mod.run(ctx)
            if ctx.deferred:
                raise AnalysisBroken('; '.join(ctx.deferred[:3]))
        except AnalysisBroken as e:
            # an edit that breaks the property often also removes an anchor a later rule binds to (a callback folded into its
            # caller, ...).  A violation already established stays the verdict; without one a vanished anchor is exit 2.
            known = load_known()
            if not [o for o in ctx.obligations if not o.ok and match_known(known, prop, o) is None]:
                raise
            ctx.incomplete = str(e)
            ctx.note('analysis incomplete after the reported violation(s): ' + str(e))
        obs = dedup(ctx.obligations)
        counts = {}
        for o in obs:
            counts[o.rule] = counts.get(o.rule, 0) + 1
        failing = set(o.rule for o in obs if not o.ok)
        if os.environ.get('MYTHVERIF_COUNTS'):
            print('rule counts:', sorted(counts.items()), file=sys.stderr)
        known_ = load_known()
        established = bool([o for o in obs if not o.ok and match_known(known_, prop, o) is None])
        for rule, n in ([] if ctx.incomplete else ctx.floors.items()):
            # a rule that already reports a violation is not additionally "below floor":
            # the obligations that depended on the violated construct legitimately vanish
            if counts.get(rule, 0) < n and rule not in failing:
                if established:
                    # the same holds across sibling rules of one property (the thread a violated rule says is dropped is also
                    # the thread whose rebinding a sibling rule would have looked at): the violation stays the verdict
                    ctx.note('rule %s matched %d instance(s), below the floor of %d, after the reported violation(s)' % (rule, counts.get(rule, 0), n))
                    continue
                raise AnalysisBroken('rule %s matched %d instance(s), below the floor of %d confirmed by hand; '
                                     'the anchor it binds to has changed shape' % (rule, counts.get(rule, 0), n))
        return obs, ctx
    except Exception:
        ctx.close()
        raise


def violation_file(prop, ob):
    h = hashlib.sha1((ob.rule + '|' + ob.key).encode()).hexdigest()[:10]
    d = os.path.join(VERIF, 'evidence', 'violations', prop)
    os.makedirs(d, exist_ok=True)
    p = os.path.join(d, '%s-%s.json' % (ob.rule.replace('/', '_'), h))
    with open(p, 'w') as fh:
        json.dump({'property': prop, 'obligation': ob.as_dict(),
                   'replay': './check %s --replay %s' % (prop, p)}, fh, indent=1)
    return p


def write_evidence(prop, tier, seed, obs, ctx, wall, violations, known_hits, extra=None, meta=None):
    meta = meta or {}
    distinct = [o for o in obs if o.loc]
    per_rule = {}
    for o in obs:
        r = per_rule.setdefault(o.rule, {'obligations': 0, 'discharged': 0})
        r['obligations'] += 1
        r['discharged'] += 1 if o.ok else 0
    samples = []
    seen_rules = set()
    for o in obs:
        if o.rule not in seen_rules:
            seen_rules.add(o.rule)
            samples.append(o.as_dict())
    for o in obs:
        if not o.ok:
            samples.append(o.as_dict())
    cov = {
        'explanation': meta.get('explanation', ''),
        'obligations': len(obs),
        'discharged': sum(1 for o in obs if o.ok),
        'evaluations': len(ctx.obligations),
        'distinct_nontrivial': len(set((o.rule, o.key) for o in distinct)),
        'rule': 'an obligation = one (rule, code construct) pair enumerated from the compiled IR of the current '
                '/repo tree; distinct = de-duplicated by (rule, function+construct) across translation units '
                'and flavours; non-trivial = bound to at least one concrete file:line of /repo',
        'samples': samples[:40],
        'per_rule': per_rule,
        'rules': ctx.rules_doc,
        'checker_cmd': './check %s %s' % (prop, tier),
        'trusted_base': ['clang-14 front end and LLVM-14 (SROA, always-inline, dominators, LoopInfo, SCEV, KnownBits)',
                         'engine/mythir fact extractor', 'mythverif rule library',
                         'the configured build (amd64, inline context switch) as read from /repo/src/Makefile'],
        'analysed_units': sorted(ctx.units),
        'analysed_functions': len(ctx.fn_analysed),
        'functions': sorted(ctx.fn_analysed)[:200],
        'compile_flags_origin': ctx.db['origin'],
        'known_findings_reported': known_hits,
        'exhaustive': True,
        'not_decided': meta.get('not_decided', ''),
    }
    if extra:
        cov.update(extra)
    ev = {'property_id': prop, 'tier': tier, 'seed': seed, 'level': 'other', 'coverage': cov,
          'assumptions': meta.get('assumptions', []) + ctx.notes, 'wall_s': round(wall, 3),
          'violations': violations}
    os.makedirs(os.path.join(VERIF, 'evidence'), exist_ok=True)
    with open(os.path.join(VERIF, 'evidence', prop + '.json'), 'w') as fh:
        json.dump(ev, fh, indent=1)
        fh.write('\n')
