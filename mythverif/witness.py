"""Compile-only witnesses: _Static_assert tables in /verif/witnesses compiled
(syntax only) against the current /repo headers with the real build flags."""
import os
import re

from . import frontend as fe
from .frontend import AnalysisBroken

WDIR = os.path.join(fe.VERIF, 'witnesses')


def run_witness(ctx, group, file='abi_witness.c', flavour='ld', extra=(), area='src'):
    """-> [(name, ok, detail)] for every W(name, ...) in the group"""
    src = os.path.join(WDIR, file)
    text = open(src).read()
    m = re.search(r'#ifdef WG_%s\n(.*?)#endif' % re.escape(group), text, re.S)
    if not m:
        raise AnalysisBroken('witness group %s not found in %s' % (group, file))
    names = re.findall(r'^W\((\w+)\s*,', m.group(1), re.M)
    if area == 'src':
        flags = list(next(iter(ctx.db['src'][flavour].values())))
        cwd = os.path.join(ctx.repo, 'src')
    else:
        flags = list(next(iter(ctx.db['profiler'].values())))
        flags = [f.replace(fe.REPO, ctx.repo) if ctx.repo != fe.REPO else f for f in flags]
        cwd = os.path.join(ctx.repo, 'src', 'profiler')
    cc = fe.CLANGXX if file.endswith(('.cc', '.cpp')) else fe.CLANG
    cmd = [cc] + flags + list(extra) + ['-fsyntax-only', '-ferror-limit=0', '-w', '-DWG_' + group, src]
    rc, so, se = fe._run(cmd, cwd=cwd)
    failed = {}
    other = []
    for line in se.splitlines():
        mm = re.search(r'error: (?:static_assert|static assertion) failed.*WITNESS:(\w+)', line)
        if mm:
            failed[mm.group(1)] = line.strip()[-200:]
        elif 'error:' in line:
            other.append(line.strip())
    if other:
        raise AnalysisBroken('witness %s/%s does not compile: %s' % (file, group, other[:3]))
    ctx.units.add('witness:%s:%s' % (file, group))
    return [(n, n not in failed, failed.get(n, '')) for n in names]
