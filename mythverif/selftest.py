"""Checker self-test: seeded source mutations applied to a scratch copy of the
sources; each must make the named rule report a violation that the unmutated
tree does not have.  Only IR is built from the scratch copy; nothing is run."""
import os
import shutil
import tempfile
from concurrent.futures import ProcessPoolExecutor

from . import frontend as fe
from .frontend import AnalysisBroken


def _ignore(d, names):
    out = []
    for n in names:
        p = os.path.join(d, n)
        if os.path.isdir(p):
            if n in ('.libs', '.deps', 'autom4te.cache', 'chapel-if', 'tpswitch', 'drview', 'dag2any'):
                out.append(n)
            continue
        if not (n.endswith(('.c', '.h', '.cc', '.S', '.opts', '.inc')) or n in ('Makefile',)):
            out.append(n)
    return out


def scratch_copy(repo):
    d = tempfile.mkdtemp(prefix='mythverif-mut-')
    shutil.copytree(os.path.join(repo, 'src'), os.path.join(d, 'src'), ignore=_ignore)
    shutil.copytree(os.path.join(repo, 'include'), os.path.join(d, 'include'), ignore=_ignore)
    return d


def apply_edits(root, edits):
    """edits: list of (relfile, old, new).  Returns False if an anchor text is missing."""
    for rel, old, new in edits:
        p = os.path.join(root, rel)
        try:
            s = open(p).read()
        except OSError:
            return False
        if s.count(old) < 1:
            return False
        s = s.replace(old, new, 1)
        with open(p, 'w') as fh:
            fh.write(s)
    return True


def _one(args):
    prop, modname, mutant, repo = args
    import importlib
    from . import core
    mod = importlib.import_module(modname)
    d = scratch_copy(repo)
    try:
        if not apply_edits(d, mutant['edits']):
            return {'name': mutant['name'], 'status': 'skipped', 'why': 'anchor text not present'}
        try:
            obs, ctx = core.run_property(prop, 'quick', 0, mod, repo=d, quiet=True)
            ctx.close()
        except AnalysisBroken as e:
            return {'name': mutant['name'], 'status': 'broken', 'why': str(e)[:600]}
        bad = [(o.rule, o.key, o.loc) for o in obs if not o.ok]
        return {'name': mutant['name'], 'status': 'ran', 'violations': bad}
    finally:
        shutil.rmtree(d, ignore_errors=True)


def run_selftest(prop, modname, mutants, baseline_bad, repo):
    """returns summary dict; raises AnalysisBroken if a mutant that applies is not detected"""
    res = []
    with ProcessPoolExecutor(max_workers=min(12, max(1, len(mutants)))) as ex:
        for r in ex.map(_one, [(prop, modname, m, repo) for m in mutants]):
            res.append(r)
    summary = {'mutants': len(mutants), 'detected': 0, 'skipped': 0, 'results': []}
    missed = []
    for m, r in zip(mutants, res):
        exp = m['expect']
        if isinstance(exp, str):
            exp = [exp]
        if r['status'] == 'skipped':
            summary['skipped'] += 1
            summary['results'].append({'mutant': m['name'], 'status': 'skipped (anchor text absent)'})
            continue
        if r['status'] == 'broken':
            # a mutation that makes an anchor vanish is reported as analysis-broken: that is a detection
            if m.get('broken_ok'):
                summary['detected'] += 1
                summary['results'].append({'mutant': m['name'], 'status': 'detected (analysis-broken)', 'why': r['why'][:200]})
                continue
            missed.append((m['name'], 'analysis broken on mutant: ' + r['why']))
            continue
        new = [(rule, key, loc) for (rule, key, loc) in r['violations'] if (rule, key) not in baseline_bad]
        hit = [v for v in new if any(v[0] == e or v[0].startswith(e + '.') or v[0].startswith(e) for e in exp)]
        if hit:
            summary['detected'] += 1
            summary['results'].append({'mutant': m['name'], 'status': 'detected', 'by': sorted(set(v[0] for v in hit)),
                                       'at': hit[0][2], 'instance': hit[0][1]})
        else:
            missed.append((m['name'], 'expected %s, got new violations %s' % (exp, sorted(set(v[0] for v in new)))))
    if missed:
        raise AnalysisBroken('checker self-test failed: %s' % '; '.join('%s (%s)' % x for x in missed))
    return summary


def _one_benign(args):
    prop, modname, patch, repo = args
    import importlib, subprocess
    from . import core
    mod = importlib.import_module(modname)
    d = scratch_copy(repo)
    try:
        r = subprocess.run(['patch', '-p1', '-s', '-f', '-d', d, '-i', patch], stdout=subprocess.PIPE, stderr=subprocess.STDOUT, text=True)
        if r.returncode != 0:
            return {'patch': os.path.basename(patch), 'status': 'skipped'}
        try:
            obs, ctx = core.run_property(prop, 'quick', 0, mod, repo=d, quiet=True)
            ctx.close()
        except AnalysisBroken as e:
            return {'patch': os.path.basename(patch), 'status': 'broken', 'why': str(e)[:400]}
        return {'patch': os.path.basename(patch), 'status': 'ran', 'violations': [(o.rule, o.key, o.loc) for o in obs if not o.ok]}
    finally:
        shutil.rmtree(d, ignore_errors=True)


def run_benign(prop, modname, baseline_bad, repo):
    """false-alarm regression: every behaviour-preserving refactoring under tools/benign must leave the check silent.
    A patch that no longer applies to the current tree is skipped; a new report on one that applies is a broken checker."""
    import glob
    here = os.path.dirname(os.path.dirname(os.path.abspath(__file__)))
    patches = sorted(glob.glob(os.path.join(here, 'tools', 'benign', '*.diff')))
    summary = {'patches': len(patches), 'silent': 0, 'skipped': 0, 'results': []}
    if not patches:
        return summary
    alarms = []
    with ProcessPoolExecutor(max_workers=min(12, len(patches))) as ex:
        for r in ex.map(_one_benign, [(prop, modname, p, repo) for p in patches]):
            if r['status'] == 'skipped':
                summary['skipped'] += 1
            elif r['status'] == 'broken':
                alarms.append('%s: analysis broken: %s' % (r['patch'], r['why']))
            else:
                new = [v for v in r['violations'] if (v[0], v[1]) not in baseline_bad]
                if new:
                    alarms.append('%s: %s' % (r['patch'], '; '.join('%s %s at %s' % v for v in new[:3])))
                else:
                    summary['silent'] += 1
            summary['results'].append({'patch': r['patch'], 'status': r['status'] if r['status'] != 'ran' else 'silent'})
    if alarms:
        raise AnalysisBroken('false alarm on behaviour-preserving refactoring(s): ' + ' | '.join(alarms))
    return summary
