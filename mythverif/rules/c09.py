"""C09 - full/empty lock: status hand-off between producers and consumers."""
from .. import lib
from ..lib import (call_sites, same_value, describe, is_load_of, ret_cases)
from ..ir import const_int

META = {
    'explanation': 'Composition-shape obligations of the full/empty lock on top of mutex (C04) and condition variable (C05): '
                   'wait_and_lock locks fe->mutex first, waits on cond[status_to_wait] with that same mutex inside a loop that '
                   're-reads status, returns only on the edge status == status_to_wait and never unlocks; mark_and_signal stores '
                   'the new status, then signals cond[status_to_signal], then unlocks fe->mutex, in that order; the condition '
                   'variable is indexed by the very parameter compared/stored; plain lock/unlock forward to the same mutex.'
                   ' The initialiser writes every field the operations read (C09.4).',
    'not_decided': 'exactly-once consumption and absence of sleeping-forever in producer/consumer exchanges (liveness; rests '
                   'on the C04/C05 obligations, which this check does not re-explore)',
    'assumptions': ['status values are 0 or 1 (two condition variables)'],
}
NATIVE = 'myth_if_native.c'
FE = 'myth_felock.'
LOCK = ('myth_mutex_lock_body', 'myth_mutex_lock')
UNLOCK = ('myth_mutex_unlock_body', 'myth_mutex_unlock')
CWAIT = ('myth_cond_wait', 'myth_cond_wait_body')
CSIG = ('myth_cond_signal', 'myth_cond_signal_body')


def flavours(ctx):
    return ['vanilla', 'ld', 'dl'] if ctx.tier == 'thorough' else ['vanilla']


def is_fe_mutex(f, ref, fe):
    ap = f.ap(ref)
    return ap.fields[:1] == [FE + 'mutex'] and same_value(f, ap.root, fe)


def cond_index(f, ref, fe):
    """ref = &fe->cond[i] -> i (value ref) or None"""
    ap = f.ap(ref)
    if ap.fields[:1] != [FE + 'cond'] or not same_value(f, ap.root, fe):
        return None
    idx = [s for s in ap.steps if s[0] == 'i']
    return idx[0][1] if idx else None


def rule_init_complete(ctx, fl):
    ctx.doc('C09.4', 'initialiser completeness: every field of the full/empty lock that myth_felock_wait_and_lock_body / myth_felock_mark_and_signal_body / myth_felock_lock_body read(s), directly or through an inlined helper, '
            'is written by myth_felock_init_body (an object placed in recycled memory must not depend on its previous contents)')
    vi = ctx.view(NATIVE, roots=['myth_felock_init_body', 'myth_felock_wait_and_lock_body', 'myth_felock_mark_and_signal_body', 'myth_felock_lock_body', 'myth_felock_unlock_body', 'myth_felock_status_body'], stops=('myth_queue_push', 'myth_queue_pop', 'myth_yield_ex_body', 'hr_gettime', 'fprintf', 'exit') + lib.SPIN_STOPS, flavour=fl)
    n = lib.init_covers(ctx, 'C09.4', vi, 'myth_felock_init_body', ['myth_felock_wait_and_lock_body', 'myth_felock_mark_and_signal_body', 'myth_felock_lock_body', 'myth_felock_unlock_body', 'myth_felock_status_body'], 'full/empty lock')
    ctx.ob('C09.4', 'fields read by the operations enumerated', n >= 4, 'read set of the operations', loc='src/myth_sync_func.h', detail=str(n))
    ctx.floor('C09.4', 6)


def run(ctx):
    ctx.doc('C09.1', 'myth_felock_wait_and_lock_body: lock(fe->mutex) dominates everything; loop { load status; if != s: '
            'cond_wait(&fe->cond[s], fe->mutex) }; returns only on the == edge; no unlock')
    ctx.doc('C09.2', 'myth_felock_mark_and_signal_body: status := t; cond_signal(&fe->cond[t]); unlock(fe->mutex) in this order '
            'on the single path; returns the unlock result')
    ctx.doc('C09.3', 'lock/unlock/status forward to fe->mutex / fe->status; init makes both condition variables and the mutex')
    for fl in flavours(ctx):
        ctx.unit = fl
        ctx.doc('C09.5', 'native API forwarding: each public entry point of this property reaches the implementation of the same name with its parameters in order and returns its result (sibling slips such as trylock -> lock, signal -> broadcast, swapped arguments)')
        ctx.attempt(lib.native_forwarding, ctx, 'C09.5', fl, lambda n: n.startswith(('myth_felock_', 'myth_felockattr_')), floor=6)
        ctx.attempt(rule_init_complete, ctx, fl)
        v = ctx.view(NATIVE, roots=['myth_felock_wait_and_lock_body', 'myth_felock_mark_and_signal_body', 'myth_felock_lock_body',
                                    'myth_felock_unlock_body', 'myth_felock_init_body', 'myth_felock_status_body'],
                     stops=LOCK + UNLOCK + CWAIT + CSIG + ('myth_mutex_init_body', 'myth_cond_init_body', 'myth_felockattr_init'), flavour=fl)
        f = ctx.need_fn(v, 'myth_felock_wait_and_lock_body')
        fe, s = 'a0', 'a1'
        locks = [c for c in call_sites(f, LOCK) if is_fe_mutex(f, c.args[0], fe)]
        ctx.ob('C09.1', 'locks fe->mutex once', len(locks) == 1 and not f.in_loop(locks[0]), 'one lock of fe->mutex before the loop', loc=f.loc)
        ctx.ob('C09.1', 'never unlocks', not call_sites(f, UNLOCK), 'wait_and_lock returns with the lock held', loc=f.loc)
        lds = [l for l in f.loads_of(FE + 'status')]
        for l in lds:
            ctx.ob('C09.1', 'status read with the lock held', any(f.dominates_f(k, l) for k in locks), 'status is read after locking', loc=l.loc)
        tests = [ic for ic in f.order if ic.op == 'icmp' and ic.pred in ('eq', 'ne') and
                 any(f.sources(ic.ops[0]) == {l.id} for l in lds) and same_value(f, ic.ops[1], s)]
        ctx.ob('C09.1', 'compares status with the awaited value', len(tests) >= 1, 'status == status_to_wait is tested', loc=f.loc)
        for r in f.exits():
            ctx.ob('C09.1', 'returns only when status matches', any(f.on_edge(ic.id, ic.pred == 'eq', r) for ic in tests),
                   'return is dominated by the status == status_to_wait edge', loc=r.loc)
        ws = call_sites(f, CWAIT)
        ctx.ob('C09.1', 'one wait site', len(ws) == 1, 'single cond_wait site', loc=f.loc)
        for w in ws:
            idx = cond_index(f, w.args[0], fe)
            ok = idx is not None and isinstance(idx, str) and f.sources(idx) == f.sources(s)
            ctx.ob('C09.1', 'waits on cond[status_to_wait]', ok, 'the condition variable awaited is the one indexed by the awaited status',
                   loc=w.loc, detail=describe(f, w.args[0]))
            ctx.ob('C09.1', 'waits with fe->mutex', is_fe_mutex(f, w.args[1], fe), 'cond_wait releases/re-acquires fe->mutex', loc=w.loc)
            ctx.ob('C09.1', 'waits only when status differs', any(f.on_edge(ic.id, ic.pred != 'eq', w) for ic in tests),
                   'cond_wait only on the mismatch edge', loc=w.loc)
            fresh = [l for l in lds if l in f.reachable_from(w)]
            ctx.ob('C09.1', 'status re-read after waking', f.in_loop(w) and bool(fresh) and
                   not [r for r in f.exits() if r in f.reachable_from(w, blocked=lds)],
                   'after cond_wait returns the status is loaded again before returning', loc=w.loc)
        g = ctx.need_fn(v, 'myth_felock_mark_and_signal_body')
        t = 'a1'
        sts = g.stores_to(FE + 'status')
        sg = call_sites(g, CSIG)
        un = [c for c in call_sites(g, UNLOCK) if is_fe_mutex(g, c.args[0], 'a0')]
        ctx.ob('C09.2', 'store / signal / unlock present', len(sts) == 1 and len(sg) == 1 and len(un) == 1, 'one of each', loc=g.loc)
        if len(sts) == 1 and len(sg) == 1 and len(un) == 1:
            ctx.ob('C09.2', 'status := parameter', same_value(g, sts[0].ops[0], t) and same_value(g, g.ap(sts[0].ops[1]).root, 'a0'),
                   'the status published is the parameter', loc=sts[0].loc)
            idx = cond_index(g, sg[0].args[0], 'a0')
            ctx.ob('C09.2', 'signals cond[status_to_signal]', idx is not None and isinstance(idx, str) and g.sources(idx) == g.sources(t),
                   'the waiters of the published status are signalled', loc=sg[0].loc, detail=describe(g, sg[0].args[0]))
            ctx.ob('C09.2', 'status stored before signalling', g.dominates_f(sts[0], sg[0]), 'a woken waiter must find the new status', loc=sg[0].loc)
            ctx.ob('C09.2', 'signal before unlock', g.dominates_f(sg[0], un[0]), 'signal is issued with the lock held, then the lock is released',
                   loc=un[0].loc)
            ctx.ob('C09.2', 'status stored with the lock still held', g.dominates_f(sts[0], un[0]), 'status changes only under the lock', loc=sts[0].loc)
            for r in g.exits():
                ctx.ob('C09.2', 'unlock on every path', g.dominates_f(un[0], r), 'the lock is released before returning', loc=r.loc)
        lk = ctx.need_fn(v, 'myth_felock_lock_body')
        ul = ctx.need_fn(v, 'myth_felock_unlock_body')
        c1 = [c for c in call_sites(lk, LOCK) if is_fe_mutex(lk, c.args[0], 'a0')]
        c2 = [c for c in call_sites(ul, UNLOCK) if is_fe_mutex(ul, c.args[0], 'a0')]
        ctx.ob('C09.3', 'felock_lock locks fe->mutex', len(c1) == 1 and len(lk.calls()) == 1, 'plain lock is the mutex lock', loc=lk.loc)
        ctx.ob('C09.3', 'felock_unlock unlocks fe->mutex', len(c2) == 1 and len(ul.calls()) == 1, 'plain unlock is the mutex unlock', loc=ul.loc)
        st = ctx.need_fn(v, 'myth_felock_status_body')
        ctx.ob('C09.3', 'status returns fe->status', any(isinstance(val, str) and is_load_of(st, val, FE + 'status') for val, a in ret_cases(st)),
               'status accessor reads the same field', loc=st.loc)
        ctx.ob('C09.3', 'status does not take the lock or wait', not st.calls(),
               'the accessor is a plain read: it is meant to be used by a participant that holds the full/empty lock (a getter that '
               'locks the non-recursive mutex blocks that participant on itself)', loc=st.loc,
               detail='calls ' + ', '.join(c.callee or '?' for c in st.calls()))
        ini = ctx.need_fn(v, 'myth_felock_init_body')
        ci = call_sites(ini, 'myth_cond_init_body')
        idxs = sorted(str(cond_index(ini, c.args[0], 'a0')) for c in ci)
        ctx.ob('C09.3', 'init initialises cond[0] and cond[1]', idxs == ['0', '1'], 'both condition variables are initialised', loc=ini.loc,
               detail=str(idxs))
        mi = [c for c in call_sites(ini, 'myth_mutex_init_body') if is_fe_mutex(ini, c.args[0], 'a0')]
        s0 = [x for x in ini.stores_to(FE + 'status') if const_int(x.ops[0]) == 0]
        ctx.ob('C09.3', 'init initialises mutex and status', len(mi) == 1 and len(s0) == 1, 'mutex initialised, status 0 (empty)', loc=ini.loc)
    ctx.floor('C09.1', 9)
    ctx.floor('C09.2', 7)
    ctx.floor('C09.3', 5)


SYNC = 'src/myth_sync_func.h'
MUTANTS = [
    {'name': 'status getter takes the felock mutex (seed3 C09/m2)', 'expect': 'C09.3',
     'edits': [(SYNC, "static inline int myth_felock_status_body(myth_felock_t * fe) {\n  return fe->status;", "static inline int myth_felock_status_body(myth_felock_t * fe) {\n  myth_mutex_lock_body(fe->mutex);\n  int s_ = fe->status;\n  myth_mutex_unlock_body(fe->mutex);\n  return s_;")]},
    {'name': 'native myth_felock_unlock forwards to lock', 'expect': 'C09.5',
     'edits': [('src/myth_if_native.c', "  return myth_felock_unlock_body(fe);", "  return myth_felock_lock_body(fe);")]},
    {'name': 'felock_init forgets the status', 'expect': 'C09.4',
     'edits': [(SYNC, '  myth_cond_init_body(&fe->cond[1], 0);\n  fe->status = 0;\n', '  myth_cond_init_body(&fe->cond[1], 0);\n')]},
    {'name': 'signal after unlock', 'expect': 'C09.2',
     'edits': [(SYNC, "  fe->status = status_to_signal;\n  myth_cond_signal(&fe->cond[status_to_signal]);\n  return myth_mutex_unlock_body(fe->mutex);",
                "  fe->status = status_to_signal;\n  int r = myth_mutex_unlock_body(fe->mutex);\n  myth_cond_signal(&fe->cond[status_to_signal]);\n  return r;")]},
    {'name': 'signals the other condition variable', 'expect': 'C09.2',
     'edits': [(SYNC, "  myth_cond_signal(&fe->cond[status_to_signal]);", "  myth_cond_signal(&fe->cond[!status_to_signal]);")]},
    {'name': 'status published after the signal', 'expect': 'C09.2',
     'edits': [(SYNC, "  fe->status = status_to_signal;\n  myth_cond_signal(&fe->cond[status_to_signal]);", "  myth_cond_signal(&fe->cond[status_to_signal]);\n  fe->status = status_to_signal;")]},
    {'name': 'wait_and_lock unlocks before returning', 'expect': 'C09.1',
     'edits': [(SYNC, "    myth_cond_wait(&fe->cond[status_to_wait], fe->mutex);\n  }\n  return 0;", "    myth_cond_wait(&fe->cond[status_to_wait], fe->mutex);\n  }\n  myth_mutex_unlock_body(fe->mutex);\n  return 0;")]},
    {'name': 'wait_and_lock checks the status only once', 'expect': 'C09.1',
     'edits': [(SYNC, "  while (fe->status != status_to_wait) {\n    myth_cond_wait(&fe->cond[status_to_wait], fe->mutex);\n  }", "  if (fe->status != status_to_wait) {\n    myth_cond_wait(&fe->cond[status_to_wait], fe->mutex);\n  }")]},
    {'name': 'wait_and_lock waits on a fixed condition variable', 'expect': 'C09.1',
     'edits': [(SYNC, "    myth_cond_wait(&fe->cond[status_to_wait], fe->mutex);", "    myth_cond_wait(&fe->cond[0], fe->mutex);")]},
]
