"""C14 - myth_once runs the initialiser exactly once and everyone waits for it."""
from .. import lib
from ..lib import (call_sites, same_value, describe, is_load_of, on_cas_success, cas_on, ret_cases, switch_sites)
from ..ir import const_int

META = {
    'explanation': 'myth_once obligations: the single indirect call of init_routine is on the success edge of '
                   'cmpxchg(state: init(0) -> in_progress(1)) and outside any loop; state := completed(2) is stored after it; '
                   'every return is dominated by that store or by the exit of the wait loop, which exits only when a fresh '
                   'volatile load of state equals completed and yields on every iteration; pthread_once forwards to it with '
                   'unchanged arguments; compile-time witnesses for PTHREAD_ONCE_INIT == myth_once_state_init and the size of '
                   'the control block.',
    'not_decided': 'exactly-once under every interleaving of callers (follows from the single CAS election, not re-explored)',
    'assumptions': ['the control block is used only through myth_once / pthread_once'],
}
NATIVE = 'myth_if_native.c'
ST = 'myth_once_t.state'
INIT, INPROG, DONE = 0, 1, 2


def flavours(ctx):
    return ['vanilla', 'ld', 'dl'] if ctx.tier == 'thorough' else ['vanilla']


def rule_body(ctx, fl):
    ctx.doc('C14.1', 'election: cmpxchg(state: 0 -> 1); the only indirect call (init_routine parameter) is on its success edge, '
            'not in a loop')
    ctx.doc('C14.2', 'state := 2 (completed) is stored after the call on the winner\'s path, volatile')
    ctx.doc('C14.3', 'every return is dominated by the completed store or by the exit edge of the wait loop; the wait loop '
            'exits only when a fresh volatile load equals completed and contains a yield')
    v = ctx.view(NATIVE, roots=['myth_once_body'], stops=('myth_yield', 'myth_yield_body', 'myth_yield_ex_body'), flavour=fl)
    f = ctx.need_fn(v, 'myth_once_body')
    rt = f.param_named('init_routine') or 'a1'
    oc = 'a0'
    ic = [c for c in f.order if c.op == 'call' and 'callee_ref' in c.d]
    cas = cas_on(f, ST)
    ctx.ob('C14.1', 'one election CAS', len(cas) == 1 and const_int(cas[0].ops[1]) == INIT and const_int(cas[0].ops[2]) == INPROG and
           same_value(f, f.ap(cas[0].ops[0]).root, oc), 'cmpxchg(once_control->state: init -> in_progress)', loc=f.loc)
    ctx.ob('C14.1', 'one invocation site', len(ic) == 1 and not f.in_loop(ic[0]), 'init_routine is called at one site, outside loops',
           loc=(ic[0].loc if ic else f.loc))
    for c in ic:
        ctx.ob('C14.1', 'calls the init_routine parameter', same_value(f, c.d['callee_ref'], rt), 'the routine called is the argument', loc=c.loc)
        ctx.ob('C14.1', 'invocation only by the elected caller', any(on_cas_success(f, x, c) for x in cas),
               'the call is reached only through the success edge of the election CAS', loc=c.loc)
    # a caller that reads "init" stands for election: the CAS is not skipped on that reading (otherwise the very first caller waits
    # for a completion nobody will ever produce)
    for x in cas:
        skipped = False
        for icmp in f.order:
            if icmp.op == 'icmp' and icmp.pred in ('eq', 'ne') and const_int(icmp.ops[1]) == INIT and \
                    all(k in f.insts and f.insts[k].op == 'load' and f.field(f.insts[k]) == ST for k in f.sources(icmp.ops[0])) and f.sources(icmp.ops[0]):
                for br in f.users(icmp.id):
                    if br.op == 'br' and 'cond' in br.d:
                        eq_t = br.d['t'] if icmp.pred == 'eq' else br.d['f']
                        first = lib.first_inst(f, eq_t)
                        if x is not first and x not in f.reachable_from(first, include_start=True):
                            skipped = True
        ctx.ob('C14.1', 'a caller that reads init attempts the election', not skipped,
               'reading the control as init leads to the election CAS; only other readings go straight to waiting', loc=x.loc)
    sts = [s for s in f.stores_to(ST)]
    done = [s for s in sts if const_int(s.ops[0]) == DONE]
    ctx.ob('C14.2', 'completed store', len(done) == 1 and done[0].volatile and same_value(f, f.ap(done[0].ops[1]).root, oc),
           'one volatile store state := completed', loc=f.loc)
    ctx.ob('C14.2', 'no other plain store to state', len(sts) == len(done), 'state is otherwise only changed by the CAS', loc=f.loc)
    for d in done:
        ctx.ob('C14.2', 'completed only after the routine returned', any(f.dominates_f(c, d) for c in ic),
               'completion is published after init_routine returned', loc=d.loc)
    # wait loop exit tests
    exits_ok = []
    for l in f.loads_of(ST):
        for icmp in f.users(l.id):
            pass
    waits = []
    for icmp in f.order:
        if icmp.op == 'icmp' and icmp.pred in ('eq', 'ne') and const_int(icmp.ops[1]) == DONE:
            srcs = f.sources(icmp.ops[0])
            if srcs and all(k in f.insts and f.insts[k].op == 'load' and f.field(f.insts[k]) == ST and f.insts[k].volatile for k in srcs):
                waits.append(icmp)
    ctx.ob('C14.3', 'wait loop tests state == completed', len(waits) >= 1, 'waiters compare a volatile load with completed', loc=f.loc)
    for r in f.exits():
        ok = any(f.dominates_f(d, r) for d in done) or any(f.on_edge(w.id, w.pred == 'eq', r) for w in waits)
        # both kinds of path may merge before the return: check path-wise
        if not ok:
            reach = f.reachable_from(f.entry_inst(), blocked=done, include_start=True)
            # remove edges where a wait test is true
            ok = not reaches_without_completion(f, r, done, waits)
        ctx.ob('C14.3', 'no return before completion', ok,
               'every path to return passes the completed store or the state == completed edge of the wait loop', loc=r.loc)
    ys = call_sites(f, ('myth_yield', 'myth_yield_body', 'myth_yield_ex_body'))
    # the polling tests are the ones inside a loop (a first look at the state before deciding what to do is not a wait)
    polls = [w for w in waits if lib.loop_containing(f, w) is not None]
    ctx.ob('C14.3', 'waiters poll the state in a loop', len(polls) >= 1, 'while (state != completed) yield', loc=f.loc)
    for w in polls:
        lp = lib.loop_containing(f, w)
        ctx.ob('C14.3', 'wait test is in a loop with a yield', lp is not None and any(y.block.id in lp['blocks'] for y in ys),
               'waiters yield the worker between polls (the init routine may need it to finish)', loc=w.loc)
        if lp is not None:
            h = f.blocks[lp['header']].insts[0]
            spin = h in f.reachable_from(h, blocked=ys)
            ctx.ob('C14.3', 'every iteration of the wait loop yields', not spin,
                   'no cycle of the wait loop avoids the yield: a waiter that spins without yielding can starve the '
                   'runner of the init routine when waiters occupy all workers', loc=w.loc)
            for y in ys:
                if y.block.id in lp['blocks'] and y.callee == 'myth_yield_ex_body':
                    opt = const_int(y.args[0])
                    from .c20 import STEAL_ONLY
                    ctx.ob('C14.3', 'the waiter\'s yield serves the local run queue', opt is not None and opt != STEAL_ONLY,
                           'the runner of the init routine may be suspended in the waiter\'s own run queue: a steal-only yield never '
                           'resumes it (one worker: everybody waits forever)', loc=y.loc, detail='option %s' % opt)
            fresh = [l for l in f.loads_of(ST) if l.block.id in lp['blocks']]
            ctx.ob('C14.3', 'state re-read every iteration', len(fresh) >= 1 and all(l.volatile for l in fresh),
                   'the loop re-loads state (volatile) on every iteration', loc=w.loc)
    ctx.floor('C14.1', 4)
    ctx.floor('C14.2', 3)
    ctx.floor('C14.3', 4)


def reaches_without_completion(f, ret, done, waits):
    """is `ret` reachable from entry on a path that neither passes a completed store nor takes a
    (state == completed) edge?"""
    from collections import deque
    blocked = set(d.id for d in done)
    cut = set()
    for w in waits:
        for cond, pol in lib.cond_chain(f, w.id, w.pred == 'eq'):
            for br, t, fb in f.cond_edges(cond):
                cut.add((br.block.id, t if pol else fb))
    seen = set()
    dq = deque([f.entry_inst()])
    while dq:
        i = dq.popleft()
        if i.id in seen or i.id in blocked:
            continue
        seen.add(i.id)
        if i is ret:
            return True
        if f.is_noreturn(i):
            continue
        b = i.block
        if i.idx + 1 < len(b.insts):
            dq.append(b.insts[i.idx + 1])
        else:
            for s in f.succs(b):
                if (b.id, s) in cut:
                    continue
                dq.append(f.blocks[s].insts[0])
    return False


def rule_wrap(ctx):
    ctx.doc('C14.4', 'pthread_once (both redirection flavours) forwards (once_control, init_routine) unchanged to myth_once_body; '
            'compile-time witnesses: PTHREAD_ONCE_INIT == myth_once_state_init, sizeof(myth_once_t) <= sizeof(pthread_once_t)')
    for wfl, name in (('ld', '__wrap_pthread_once'), ('dl', 'pthread_once')):
        w = ctx.view('myth_wrap_pthread.c', roots=[name], stops=('myth_once_body',), flavour=wfl)
        f = ctx.need_fn(w, name)
        cs = call_sites(f, 'myth_once_body')
        ok = len(cs) == 1 and same_value(f, cs[0].args[0], 'a0') and same_value(f, cs[0].args[1], 'a1')
        ctx.ob('C14.4', '%s forwards to myth_once_body' % name, ok, 'arguments are forwarded position by position', loc=f.loc)
        others = [c for c in f.calls() if (c.callee or '').startswith('real_')]
        rch = f.reachable_from(f.entry_inst(), blocked=cs + others, include_start=True)
        ctx.ob('C14.4', '%s: every call reaches the once protocol' % name, bool(cs) and not [r for r in f.exits() if r in rch],
               'the wrapper does not decide "already initialised" by itself: a control that reads in-progress is not complete, and only '
               'the body waits for completion', loc=f.loc)
        for val, anchor in ret_cases(f):
            if cs and isinstance(val, str) and cs[0].id in f.sources(val):
                ctx.ob('C14.4', '%s returns the body\'s result' % name, True, 'result forwarded', loc=anchor.loc)
    from ..witness import run_witness
    for name, ok, detail in run_witness(ctx, 'once'):
        ctx.ob('C14.4', 'witness: ' + name, ok, 'compile-time assertion against the repository and system headers', loc='witnesses/abi_witness.c',
               detail=detail)
    # the link-time flavour redirects pthread_once only if the linker response file lists it (shared with C16.4)
    from . import c16
    with ctx.shared({'C16.4': 'C14.4'}, keep=lambda k: 'pthread_once' in k):
        c16.rule4_wraplist(ctx)
    ctx.floor('C14.4', 7)


def run(ctx):
    for fl in flavours(ctx):
        ctx.unit = fl
        ctx.doc('C14.5', 'native API forwarding: each public entry point of this property reaches the implementation of the same name with its parameters in order and returns its result (sibling slips such as trylock -> lock, signal -> broadcast, swapped arguments)')
        ctx.attempt(lib.native_forwarding, ctx, 'C14.5', fl, lambda n: n == 'myth_once', floor=2)
        ctx.attempt(rule_body, ctx, fl)
    ctx.unit = 'wrap'
    ctx.attempt(rule_wrap, ctx)


SYNC = 'src/myth_sync_func.h'
MUTANTS = [
    {'name': 'once waiters yield steal-only (seed5 C14/m2)', 'expect': 'C14.3',
     'edits': [(SYNC, "    myth_yield();\n    s = once_control->state;", "    myth_yield_ex_body(myth_yield_option_steal_only);\n    s = once_control->state;")]},
    {'name': 'native myth_once passes its arguments to the wrong body', 'expect': 'C14.5',
     'edits': [('src/myth_if_native.c', "  return myth_once_body(once_control, init_routine);", "  init_routine();\n  return 0;")]},
    {'name': 'a caller that reads init goes straight to waiting (sweep M0431)', 'expect': 'C14.1',
     'edits': [(SYNC, "  if (s == myth_once_state_init) {\n   if (myth_once_try_set(", "  if (!(s == myth_once_state_init)) {\n   if (myth_once_try_set(")]},
    {'name': 'init routine called before the election', 'expect': 'C14.1',
     'edits': [(SYNC, "   if (myth_once_try_set(once_control, myth_once_state_init,\n\t\t\t myth_once_state_in_progress)) {\n     init_routine();", "   init_routine();\n   if (myth_once_try_set(once_control, myth_once_state_init,\n\t\t\t myth_once_state_in_progress)) {")]},
    {'name': 'completed published before running the routine', 'expect': 'C14.2',
     'edits': [(SYNC, "     init_routine();\n     once_control->state = myth_once_state_completed;", "     once_control->state = myth_once_state_completed;\n     init_routine();")]},
    {'name': 'losers return without waiting', 'expect': 'C14.3',
     'edits': [(SYNC, "  myth_once_wait_until(once_control, myth_once_state_completed);\n  return 0;\n}", "  if (s == myth_once_state_init) myth_once_wait_until(once_control, myth_once_state_completed);\n  return 0;\n}")]},
    {'name': 'waiters spin without yielding', 'expect': 'C14.3',
     'edits': [(SYNC, "  while (s != state) {\n    myth_yield();\n    s = once_control->state;\n  }", "  while (s != state) {\n    s = once_control->state;\n  }")]},
    {'name': 'waiters yield once and then spin (seed C14/m3)', 'expect': 'C14.3',
     'edits': [(SYNC, "  int s = once_control->state;\n  while (s != state) {\n    myth_yield();\n    s = once_control->state;\n  }", "  int s = once_control->state;\n  int n_spins = 0;\n  while (s != state) {\n    if (++n_spins == 100) myth_yield();\n    s = once_control->state;\n  }")]},
    {'name': 'waiters accept in_progress as done', 'expect': 'C14.3',
     'edits': [(SYNC, "  myth_once_wait_until(once_control, myth_once_state_completed);\n  return 0;\n}", "  myth_once_wait_until(once_control, myth_once_state_in_progress);\n  return 0;\n}")]},
    {'name': 'election by plain test-and-set', 'expect': 'C14.1',
     'edits': [(SYNC, "  return __sync_bool_compare_and_swap(&once_control->state, old, new);", "  if (once_control->state != old) return 0;\n  once_control->state = new;\n  return 1;")]},
]
