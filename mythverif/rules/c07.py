"""C07 - join counter: waiters released exactly when the N-th decrement happens."""
from .. import lib
from ..lib import (call_sites, same_value, describe, ret_cases, on_cas_success, is_load_of, cas_on, affine, expr_str)
from ..ir import const_int

META = {
    'explanation': 'Join-counter obligations: wait returns only on the edge (state & state_mask) == n_threads of a fresh '
                   'volatile load; it blocks only after winning cmpxchg(state: s -> s + (1 << n_threads_bits)) and re-checks '
                   'after wake-up; dec is cmpxchg(s -> s+1) and on the edge n_decs == n_threads-1 wakes (s >> n_threads_bits) '
                   'waiters, s being the expected operand of that very cmpxchg; wait and dec use the same shift and mask '
                   'fields and init stores mask = (1 << b) - 1 with the b it stores as the shift.'
                   ' The initialiser writes every field the operations read (C07.4).',
    'not_decided': 'overflow of the packed word for extreme N / waiter counts; liveness of waiters under all schedules',
    'assumptions': ['at most n_threads decrements are issued (the library exits otherwise)'],
}
NATIVE = 'myth_if_native.c'
JC = 'myth_join_counter.'
STATE, MASK, BITS, N = JC + 'state', JC + 'state_mask', JC + 'n_threads_bits', JC + 'n_threads'


def flavours(ctx):
    return ['vanilla', 'ld', 'dl'] if ctx.tier == 'thorough' else ['vanilla']


def masked_count(f, ref):
    """ref == (load state) & (load state_mask) -> the state load, else None"""
    ins = f.get(f.strip(ref)) if isinstance(ref, str) else None
    if ins is None or ins.op != 'and':
        return None
    a, b = ins.ops
    for x, y in ((a, b), (b, a)):
        if is_load_of(f, y, MASK) and is_load_of(f, x, STATE):
            return [f.insts[k] for k in f.sources(x)][0]
    return None


def is_shifted_one(f, ref):
    """ref == 1 << sext(load n_threads_bits)"""
    ins = f.get(f.strip(ref)) if isinstance(ref, str) else None
    # the unit must be computed in the 64-bit width of the state word (1L << bits): a 32-bit shift
    # overflows for n_threads >= 2^30 and turns the waiter unit into a negative number
    return ins is not None and ins.op == 'shl' and ins.ty == 'i64' and const_int(ins.ops[0]) == 1 and \
        is_load_of(f, ins.ops[1], BITS)


def rule1_wait(ctx, v):
    ctx.doc('C07.1', 'myth_join_counter_wait_body: returns only on the edge (s & mask) == n_threads; blocks only on the success '
            'edge of cmpxchg(s -> s + (1 << bits)); the block is inside the re-check loop')
    f = ctx.need_fn(v, 'myth_join_counter_wait_body')
    done = []
    for ic in f.order:
        if ic.op == 'icmp' and ic.pred in ('eq', 'ne'):
            l = masked_count(f, ic.ops[0])
            if l is not None and is_load_of(f, ic.ops[1], N):
                done.append((ic, l))
    ctx.ob('C07.1', 'completion test', len(done) >= 1 and all(l.volatile for ic, l in done),
           'wait tests (state & mask) == n_threads on a volatile load', loc=f.loc)
    for r in f.exits():
        ctx.ob('C07.1', 'returns only when complete', any(f.on_edge(ic.id, ic.pred == 'eq', r) for ic, l in done),
               'wait returns only on the completed edge', loc=r.loc)
    cas = cas_on(f, STATE)
    ctx.ob('C07.1', 'announce CAS', len(cas) == 1, 'one CAS announcing the waiter', loc=f.loc)
    for c in cas:
        a = affine(f, c.ops[2])
        exp = f.sources(c.ops[1])
        terms = [k for k in a if k != '']
        shl = [k for k in terms if is_shifted_one(f, k)]
        ok = len(terms) == 2 and len(shl) == 1 and a.get(shl[0]) == 1 and a.get('', 0) == 0 and \
            any(k in exp and a[k] == 1 for k in terms)
        ctx.ob('C07.1', 'announce adds one waiter unit', ok, 'new = s + (1 << n_threads_bits)', loc=c.loc, detail=expr_str(f, c.ops[2]))
        ctx.ob('C07.1', 'announce expected is the tested s', any(f.sources(c.ops[1]) == {l.id} for ic, l in done),
               'the CAS expects exactly the value whose count was just found incomplete', loc=c.loc)
        ctx.ob('C07.1', 'announce only if incomplete', any(f.on_edge(ic.id, ic.pred != 'eq', c) for ic, l in done),
               'a waiter is announced only on the not-complete edge', loc=c.loc)
    for b in call_sites(f, 'myth_block_on_queue'):
        ctx.ob('C07.1', 'block only after announcing', any(on_cas_success(f, c, b) for c in cas),
               'the waiter sleeps only after its announcement CAS succeeded (so the last decrementer counts it)', loc=b.loc)
        ctx.ob('C07.1', 'block inside the re-check loop', f.in_loop(b) and
               not [r for r in f.exits() if r in f.reachable_from(b, blocked=[l for ic, l in done])],
               'after wake-up the state is re-read before returning', loc=b.loc)
        gaps = [c_ for c_ in f.calls() if (c_.callee or '').startswith(('myth_yield', 'myth_swap', 'myth_block')) and c_ is not b and
                any(c_ in f.reachable_from(c) for c in cas) and f.can_reach(c_, b)] + \
               [x for x in f.order if x.op == 'call' and x.asm is not None and x is not b and any(x in f.reachable_from(c) for c in cas) and
                f.can_reach(x, b)]
        ctx.ob('C07.1', 'nothing yields the worker between the announcement and the block', not gaps,
               'an announced waiter that sits in a run queue instead of the sleep queue makes the last decrementer wait for it in '
               'myth_wake_many_from_queue: on one worker that is forever', loc=(gaps[0].loc if gaps else b.loc))
        ctx.ob('C07.1', 'blocks on own queue', lib.arg_is_field_of(f, b.args[0], JC + 'sleep_q') and
               same_value(f, f.ap(b.args[0]).root, 'a0'), 'sleeps on jc->sleep_q', loc=b.loc)
    ctx.ob('C07.1', 'has block site', len(call_sites(f, 'myth_block_on_queue')) == 1, 'one block site', loc=f.loc)
    ctx.floor('C07.1', 9)


def rule2_dec(ctx, v):
    ctx.doc('C07.2', 'myth_join_counter_dec_body: cmpxchg(s -> s+1); on the edge n_decs == n_threads-1 (n_decs = s & mask) wakes '
            '(s >> n_threads_bits) waiters from jc->sleep_q with s the expected operand of that cmpxchg')
    f = ctx.need_fn(v, 'myth_join_counter_dec_body')
    cas = cas_on(f, STATE)
    ctx.ob('C07.2', 'decrement CAS', len(cas) == 1 and lib.delta_of(f, cas[0].ops[2], cas[0].ops[1]) == 1 and
           is_load_of(f, cas[0].ops[1], STATE, volatile=True), 'dec is cmpxchg(state: s -> s+1) on a fresh volatile load', loc=f.loc)
    if len(cas) != 1:
        return
    s = cas[0].ops[1]
    wakes = call_sites(f, 'myth_wake_many_from_queue')
    ctx.ob('C07.2', 'one wake site', len(wakes) == 1, 'single wake site', loc=f.loc)
    last = []
    for ic in f.order:
        if ic.op == 'icmp' and ic.pred in ('eq', 'ne'):
            # any arrangement of  (s & mask) == n_threads - 1
            d = lib.affine_diff(f, ic.ops[0], ic.ops[1])
            ms = [k for k in d if masked_count(f, k) is not None and f.sources(s) == {masked_count(f, k).id}]
            ns = lib.load_terms(f, d, N)
            if len(ms) == 1 and len(ns) == 1 and len([k for k in d if k != '']) == 2 and d[ms[0]] == -d[ns[0]] and d.get('', 0) == d[ms[0]]:
                last.append(ic)
    ctx.ob('C07.2', 'last-decrement test', len(last) == 1, '(s & mask) == n_threads - 1 on the CAS\'s expected value', loc=f.loc)
    for w in wakes:
        ctx.ob('C07.2', 'wake after winning the CAS', on_cas_success(f, cas[0], w), 'wake on the CAS success edge', loc=w.loc)
        ctx.ob('C07.2', 'wake only on the last decrement', any(f.on_edge(ic.id, ic.pred == 'eq', w) for ic in last),
               'wake on the edge n_decs == n_threads-1', loc=w.loc)
        n = f.get(f.strip(w.args[3]))
        ok = n is not None and n.op in ('ashr', 'lshr') and n.ty == 'i64' and f.sources(n.ops[0]) == f.sources(s) and is_load_of(f, n.ops[1], BITS)
        ctx.ob('C07.2', 'wakes the waiters recorded in the replaced word', ok,
               'the number woken is (s >> n_threads_bits) with s the value this decrement replaced: waiters announced '
               'later see the completed count themselves', loc=w.loc, detail=expr_str(f, w.args[3]))
        ctx.ob('C07.2', 'wakes from own queue', lib.arg_is_field_of(f, w.args[0], JC + 'sleep_q') and
               same_value(f, f.ap(w.args[0]).root, 'a0'), 'waiters come from jc->sleep_q', loc=w.loc)
    for r in f.exits():
        ctx.ob('C07.2', 'returns only after a successful decrement', on_cas_success(f, cas[0], r),
               'dec returns only after its CAS succeeded', loc=r.loc)
    ctx.floor('C07.2', 8)


def rule3_fields(ctx, v):
    ctx.doc('C07.3', 'field agreement: wait and dec shift by n_threads_bits and mask with state_mask; init stores '
            'state_mask = (1 << b) - 1 and n_threads_bits = b for the same b = calc_bits(n_threads), n_threads = parameter, state = 0')
    i = ctx.need_fn(v, 'myth_join_counter_init_body')
    # the packed word holds the decrement count (calc_bits(N) bits, N a long) and the waiter count above it: it is as wide as
    # n_threads / state_mask, and every atomic update of it is done at that width (no truncating store of the 64-bit sum)
    flds = dict((x['name'], x) for x in v.structs.get('myth_join_counter', {}).get('fields', []))
    okw = all(k in flds for k in ('state', 'n_threads', 'state_mask')) and flds['state']['size'] == flds['n_threads']['size'] == flds['state_mask']['size'] == 8
    ats = [x for n_ in ('myth_join_counter_wait_body', 'myth_join_counter_dec_body') for x in ctx.need_fn(v, n_).order
           if x.op in ('cmpxchg', 'atomicrmw') and ctx.need_fn(v, n_).field(x) == 'myth_join_counter.state']
    okw = okw and len(ats) >= 2 and all((x.ty or '').replace('{', '').strip().startswith('i64') or 'i64' in (x.ty or '') for x in ats)
    ctx.ob('C07.3', 'the state word is 64 bits wide, like n_threads and state_mask', okw,
           'waiters << bits plus the decrement count must fit: with a 32-bit word a counter for N >= 2^20 threads loses its waiters '
           'after about a thousand of them, silently', loc=i.loc, detail='state: %s bytes' % (flds.get('state') or {}).get('size'))
    sb = i.stores_to(BITS)
    sm = i.stores_to(MASK)
    sn = i.stores_to(N)
    ss = i.stores_to(STATE)
    ctx.ob('C07.3', 'init stores all four fields', len(sb) == 1 and len(sm) == 1 and len(sn) == 1 and len(ss) == 1,
           'bits, mask, n_threads and state are initialised', loc=i.loc)
    if len(sb) == 1 and len(sm) == 1:
        b = sb[0].ops[0]
        m = i.get(i.strip(sm[0].ops[0]))
        ok = False
        if m is not None and m.op in ('sub', 'add'):
            sh = i.get(i.strip(m.ops[0]))
            c = const_int(m.ops[1])
            if sh is not None and sh.op == 'shl' and sh.ty == 'i64' and const_int(sh.ops[0]) == 1 and i.sources(sh.ops[1]) == i.sources(b) and \
                    ((m.op == 'sub' and c == 1) or (m.op == 'add' and c == -1)):
                ok = True
        ctx.ob('C07.3', 'mask = (1 << b) - 1 with the stored b', ok, 'mask and shift describe the same field split', loc=sm[0].loc,
               detail=expr_str(i, sm[0].ops[0]))
        bc = i.get(i.strip(b))
        ctx.ob('C07.3', 'b = calc_bits(n_threads)', bc is not None and bc.op == 'call' and bc.callee == 'calc_bits' and
               same_value(i, bc.args[0], i.param_named('n_threads') or 'a2'), 'the width is computed from n_threads', loc=sb[0].loc)
    if sn:
        ctx.ob('C07.3', 'n_threads = parameter', same_value(i, sn[0].ops[0], i.param_named('n_threads') or 'a2'),
               'target count is the parameter', loc=sn[0].loc)
    if ss:
        ctx.ob('C07.3', 'state starts at 0', const_int(ss[0].ops[0]) == 0, 'no decrements, no waiters', loc=ss[0].loc)
    # calc_bits: smallest b with x < (1 << b)
    cb = ctx.need_fn(v, 'calc_bits')
    for val, anchor in ret_cases(cb):
        ok = False
        for ic in cb.order:
            if ic.op == 'icmp' and ic.pred in ('sge', 'slt') and same_value(cb, ic.ops[0], 'a0'):
                sh = cb.get(cb.strip(ic.ops[1])) if isinstance(ic.ops[1], str) else None
                if sh is not None and sh.op == 'shl' and const_int(sh.ops[0]) == 1 and \
                        cb.sources(sh.ops[1]) == cb.sources(val) and cb.on_edge(ic.id, ic.pred == 'slt', anchor):
                    ok = True
        ctx.ob('C07.3', 'calc_bits returns b with x < (1 << b)', ok, 'the loop exits only when x < (1L << b)', loc=anchor.loc)
    ctx.floor('C07.3', 6)


def rule5_chain(ctx, fl):
    ctx.doc('C07.5', 'myth_wake_many_from_queue (used only by the join counter): the n dequeued waiters are chained privately - the '
            'new element becomes the tail on every iteration, is linked behind the old tail, ends the chain - and all n are then '
            'pushed starting from the head')
    v = ctx.view(NATIVE, roots=['myth_wake_many_from_queue'], stops=('myth_sleep_queue_deq_th', 'myth_sleep_queue_deq', 'myth_queue_push',
                                                                   'myth_get_current_env'), flavour=fl)
    f = ctx.need_fn(v, 'myth_wake_many_from_queue')
    lib.chain_discipline(ctx, 'C07.5', f, ('myth_sleep_queue_deq_th', 'myth_sleep_queue_deq'), 'wake_many_from_queue')
    ctx.floor('C07.5', 7)


def rule_init_complete(ctx, fl):
    ctx.doc('C07.4', 'initialiser completeness: every field of the join counter that myth_join_counter_wait_body / myth_join_counter_dec_body read(s), directly or through an inlined helper, '
            'is written by myth_join_counter_init_body (an object placed in recycled memory must not depend on its previous contents)')
    vi = ctx.view(NATIVE, roots=['myth_join_counter_init_body', 'myth_join_counter_wait_body', 'myth_join_counter_dec_body'], stops=('myth_queue_push', 'myth_queue_pop', 'myth_yield_ex_body', 'hr_gettime', 'fprintf', 'exit') + lib.SPIN_STOPS, flavour=fl)
    n = lib.init_covers(ctx, 'C07.4', vi, 'myth_join_counter_init_body', ['myth_join_counter_wait_body', 'myth_join_counter_dec_body'], 'join counter')
    lib.sleep_container_init_complete(ctx, 'C07.4', fl, 'queue')
    ctx.ob('C07.4', 'fields read by the operations enumerated', n >= 5, 'read set of the operations', loc='src/myth_sync_func.h', detail=str(n))
    ctx.floor('C07.4', 7)


def run(ctx):
    for fl in flavours(ctx):
        ctx.unit = fl
        ctx.doc('C07.6', 'native API forwarding: each public entry point of this property reaches the implementation of the same name with its parameters in order and returns its result (sibling slips such as trylock -> lock, signal -> broadcast, swapped arguments)')
        ctx.attempt(lib.native_forwarding, ctx, 'C07.6', fl, lambda n: n.startswith(('myth_join_counter_', 'myth_join_counterattr_')), floor=4)
        ctx.attempt(rule_init_complete, ctx, fl)
        v = ctx.view(NATIVE, roots=['myth_join_counter_wait_body', 'myth_join_counter_dec_body',
                                    'myth_join_counter_init_body', 'calc_bits'],
                     stops=('myth_block_on_queue', 'myth_wake_many_from_queue', 'myth_sleep_queue_init', 'calc_bits'), flavour=fl)
        ctx.attempt(rule1_wait, ctx, v)
        ctx.attempt(rule5_chain, ctx, fl)
        ctx.attempt(rule2_dec, ctx, v)
        ctx.attempt(rule3_fields, ctx, v)


SYNC = 'src/myth_sync_func.h'
MUTANTS = [
    {'name': 'waiter yields after announcing itself and before going to sleep (seed4 C07/m2)', 'expect': 'C07.1',
     'edits': [(SYNC, "    myth_block_on_queue(jc->sleep_q, 0);\n    assert((jc->state & jc->state_mask) == jc->n_threads);", "    myth_yield_ex_body(myth_yield_option_local_first);\n    myth_block_on_queue(jc->sleep_q, 0);\n    assert((jc->state & jc->state_mask) == jc->n_threads);")]},
    {'name': 'join counter state word narrowed to int (seed3 C07/m3)', 'expect': 'C07.3',
     'edits': [('include/myth/myth.h', "    long state_mask;\t\t/* (1 << n_threads_bits) - 1 */\n    volatile long state;", "    long state_mask;\t\t/* (1 << n_threads_bits) - 1 */\n    volatile int state;")]},
    {'name': 'native myth_join_counter_dec forwards to wait', 'expect': 'C07.6',
     'edits': [('src/myth_if_native.c', "  return myth_join_counter_dec_body(jc);", "  return myth_join_counter_wait_body(jc);")]},
    {'name': 'wake chain links behind a NULL tail (sweep M0634)', 'expect': 'C07.5',
     'edits': [(SYNC, "    to_wake->env = env;\n    to_wake->next = 0;\n    if (to_wake_tail) {\n      to_wake_tail->next = to_wake;", "    to_wake->env = env;\n    to_wake->next = 0;\n    if (!(to_wake_tail)) {\n      to_wake_tail->next = to_wake;")]},
    {'name': 'wake-many releases one element more than it collected (sweep M0633)', 'expect': 'C07.5',
     'edits': [(SYNC, "  myth_thread_t to_wake = to_wake_head;\n  for (i = 0; i < n; i++) {\n    assert(to_wake);\n    myth_thread_t next = to_wake->next;\n    myth_queue_push(&env->runnable_q, to_wake);",
                "  myth_thread_t to_wake = to_wake_head;\n  for (i = 0; i <= n; i++) {\n    assert(to_wake);\n    myth_thread_t next = to_wake->next;\n    myth_queue_push(&env->runnable_q, to_wake);")]},
    {'name': 'wake chain tail advances only for the first waiter (seed2 C07/m2)', 'expect': 'C07.5',
     'edits': [(SYNC, "      to_wake_head = to_wake;\n    }\n    to_wake_tail = to_wake;\n  }\n  /* do any action after dequeueing from the sleep queue\n     but before really putting it in the run queue.\n     (for mutex,",
                "      to_wake_head = to_wake;\n      to_wake_tail = to_wake;\n    }\n  }\n  /* do any action after dequeueing from the sleep queue\n     but before really putting it in the run queue.\n     (for mutex,")]},
    {'name': 'join_counter_init forgets the state word', 'expect': 'C07.4',
     'edits': [(SYNC, '  /* number of waiters|number of decrements so far */\n  jc->state = 0;\n', '')]},
    {'name': 'wakes n_threads instead of the recorded waiters', 'expect': 'C07.2',
     'edits': [(SYNC, "      long n_threads_to_wake = (s >> jc->n_threads_bits);", "      long n_threads_to_wake = jc->n_threads;")]},
    {'name': 'waiter count read from a fresh load instead of the replaced word', 'expect': 'C07.2',
     'edits': [(SYNC, "      long n_threads_to_wake = (s >> jc->n_threads_bits);", "      long n_threads_to_wake = (jc->state >> jc->n_threads_bits);")]},
    {'name': 'shift by state_mask', 'expect': 'C07.2',
     'edits': [(SYNC, "      long n_threads_to_wake = (s >> jc->n_threads_bits);", "      long n_threads_to_wake = (s >> jc->state_mask);")]},
    {'name': 'wait blocks without announcing', 'expect': 'C07.1',
     'edits': [(SYNC, "    if (! __sync_bool_compare_and_swap(&jc->state, s, new_s)) {\n      /* another thread may have just decrement it, so I may\n\t have to keep going */\n      continue;\n    }\n    myth_block_on_queue(jc->sleep_q, 0);",
                "    (void)new_s;\n    myth_block_on_queue(jc->sleep_q, 0);")]},
    {'name': 'wait returns after the first wake-up without re-checking', 'expect': 'C07.1',
     'edits': [(SYNC, "    myth_block_on_queue(jc->sleep_q, 0);\n    assert((jc->state & jc->state_mask) == jc->n_threads);\n  }", "    myth_block_on_queue(jc->sleep_q, 0);\n    return 0;\n  }")]},
    {'name': 'wait announces with the wrong unit', 'expect': 'C07.1',
     'edits': [(SYNC, "    long new_s = s + (1L << jc->n_threads_bits);", "    long new_s = s + (1L << jc->n_threads);")]},
    {'name': 'waiter unit computed in 32 bits (seed C07/m3)', 'expect': 'C07.1',
     'edits': [(SYNC, "    long new_s = s + (1L << jc->n_threads_bits);", "    long new_s = s + (1 << jc->n_threads_bits);")]},
    {'name': 'init mask one bit too narrow', 'expect': 'C07.3',
     'edits': [(SYNC, "  long mask = (1L << b) - 1;\n  myth_sleep_queue_init(jc->sleep_q);", "  long mask = (1L << (b - 1)) - 1;\n  myth_sleep_queue_init(jc->sleep_q);")]},
    {'name': 'last decrement detected one early', 'expect': 'C07.2',
     'edits': [(SYNC, "    if (n_decs == jc->n_threads - 1) {\n      /* I am the last one. wake up all guys.\n\t TODO: spin block */\n      long n_threads_to_wake", "    if (n_decs == jc->n_threads - 2) {\n      /* I am the last one. wake up all guys.\n\t TODO: spin block */\n      long n_threads_to_wake")]},
]
