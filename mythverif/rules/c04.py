"""C04 - mutex: mutual exclusion, no lost wake-up, non-blocking trylock."""
from .. import lib
from ..lib import (call_sites, cmpxchg_sites, on_cas_success, delta_of, guarded_by_bit, is_load_of, ret_cases,
                   switch_sites, same_value, describe, LockAnalysis, null_tests)
from ..ir import const_int

META = {
    'explanation': 'Mutex state machine obligations on the IR of myth_mutex_{lock,trylock,timedlock,unlock}_body: every '
                   'success return is on the success edge of a cmpxchg(state: s -> s+1) whose expected value was '
                   'tested lock-bit-clear; blocking only on the success edge of cmpxchg(s -> s+2) taken with the bit '
                   'set; unlock-with-waiters is cmpxchg(s -> s-2) then dequeue(non-null) then clear-lock-bit '
                   '(atomic sub 1) then push of the dequeued thread, in that order on every path; trylock closure '
                   'has no context switch; timedlock never enqueues; sleep-queue ilock paired on all paths.'
                   ' A locker that sees the lock bit set goes on to reserve a seat (a bounded, counter-guarded spin is tolerated); the initialiser writes every field the operations read (C04.6).',
    'not_decided': 'eventual return of every lock call and fairness (liveness under all schedules); mutual exclusion '
                   'as a property of all interleavings is reduced to the single-CAS acquisition shape',
    'assumptions': ['x86-64: cmpxchg / lock-prefixed RMW are sequentially consistent full barriers',
                    'callers unlock only mutexes they hold (the library aborts otherwise)'],
}

NATIVE = 'myth_if_native.c'
STATE = 'myth_mutex.state'
EBUSY, ETIMEDOUT = 16, 110
DEQ = 'myth_sleep_queue_deq'
ENQ = ('myth_sleep_queue_enq', 'myth_sleep_stack_push')


def flavours(ctx):
    return ['vanilla', 'ld', 'dl'] if ctx.tier == 'thorough' else ['vanilla']


def acquire_cas(f, cas):
    """cmpxchg on mutex.state with new == expected+1"""
    return f.field(cas) == STATE and delta_of(f, cas.ops[2], cas.ops[1], at=cas) == 1


def rule1_acquire(ctx, v):
    ctx.doc('C04.1', 'every success (0) return of lock/trylock/timedlock is dominated by the success edge of '
            'cmpxchg(mutex.state: s -> s+1), s a fresh volatile load whose lock bit was tested clear')
    for name in ('myth_mutex_lock_body', 'myth_mutex_trylock_body'):
        f = ctx.need_fn(v, name)
        mutex = 'a0'
        cases = ret_cases(f)
        acq = [c for c in cmpxchg_sites(f, STATE) if acquire_cas(f, c)]
        ctx.ob('C04.1', name + ': acquiring CAS present', len(acq) >= 1,
               'an acquiring compare-and-swap state: s -> s+1 exists', loc=f.loc)
        for c in acq:
            okp = same_value(f, f.ap(c.ops[0]).root, mutex)
            oks = is_load_of(f, c.ops[1], STATE, volatile=True)
            okb = guarded_by_bit(f, c.ops[1], 1, False, c)
            ctx.ob('C04.1', name + ': CAS on own mutex', okp, 'the CAS targets the mutex parameter', loc=c.loc)
            ctx.ob('C04.1', name + ': expected is fresh volatile state', oks,
                   'the expected operand is a volatile load of mutex->state', loc=c.loc)
            ctx.ob('C04.1', name + ': lock bit tested clear', okb,
                   'the acquiring CAS executes only where (s & 1) was tested zero', loc=c.loc)
        # other CASes on state must not set the lock bit
        for c in cmpxchg_sites(f, STATE):
            if c in acq:
                continue
            d = delta_of(f, c.ops[2], c.ops[1], at=c)
            ctx.ob('C04.1', name + ': non-acquiring CAS keeps lock bit', d is not None and d % 2 == 0,
                   'any other CAS on the state changes it by an even amount (waiter count only)', loc=c.loc,
                   detail='delta=%s' % d)
        for st in f.stores_to(STATE):
            ctx.ob('C04.1', name + ': no plain store to state', False,
                   'the lock word is only modified by atomic read-modify-write', loc=st.loc)
        n0 = 0
        for val, anchor in cases:
            c = const_int(val)
            if c == 0:
                n0 += 1
                ok = any(on_cas_success(f, a, anchor) for a in acq)
                ctx.ob('C04.1', name + ': return 0 only after winning CAS', ok,
                       'the success return is reached only through the success edge of the acquiring CAS',
                       loc=anchor.loc)
            elif c == EBUSY and name.endswith('trylock_body'):
                # fails only if the lock bit was observed set
                s_loads = [l for l in f.loads_of(STATE) if l.volatile]
                ok = any(guarded_by_bit(f, l.id, 1, True, anchor) for l in s_loads)
                ctx.ob('C04.1', name + ': EBUSY only if held', ok,
                       'EBUSY is returned only on the edge where the lock bit was observed set', loc=anchor.loc)
            else:
                ctx.ob('C04.1', name + ': return values', False, 'unexpected return value %s' % describe(f, val),
                       loc=anchor.loc)
        ctx.ob('C04.1', name + ': has success return', n0 >= 1, 'function has a success return', loc=f.loc)
    # timedlock: 0 only after trylock == 0; ETIMEDOUT elsewhere (deadline part in C20)
    f = ctx.need_fn(v, 'myth_mutex_timedlock_body')
    trys = call_sites(f, 'myth_mutex_trylock_body')
    ctx.ob('C04.1', 'myth_mutex_timedlock_body: uses trylock', len(trys) >= 1 and
           all(same_value(f, t.args[0], 'a0') for t in trys), 'timedlock acquires through trylock(mutex)', loc=f.loc)
    for val, anchor in ret_cases(f):
        c = const_int(val)
        if c == 0:
            ok = False
            for t in trys:
                for ic in f.users(t.id):
                    if ic.op == 'icmp' and ic.pred in ('eq', 'ne') and const_int(ic.ops[1]) == 0:
                        if f.on_edge(ic.id, ic.pred == 'eq', anchor):
                            ok = True
            ctx.ob('C04.1', 'myth_mutex_timedlock_body: 0 only after trylock==0', ok,
                   'timedlock returns success only on the edge trylock(mutex) == 0', loc=anchor.loc)
        else:
            ctx.ob('C04.1', 'myth_mutex_timedlock_body: failure code', c == ETIMEDOUT,
                   'the only failure code is ETIMEDOUT', loc=anchor.loc, detail='returns %s' % describe(f, val))
            for t in trys:
                tests = [br for ic in f.users(t.id) if ic.op == 'icmp' for cond, pol in lib.cond_chain(f, ic.id)
                         for br, _t, _f in f.cond_edges(cond)]
                ctx.ob('C04.1', 'myth_mutex_timedlock_body: no failure return after an unexamined try',
                       not lib.reaches_point(f, t, anchor, blocked=tests),
                       'a trylock that may have set the lock bit is examined before ETIMEDOUT can be returned (otherwise the '
                       'mutex stays locked with no owner)', loc=t.loc)
    ctx.floor('C04.1', 12)


def rule2_block(ctx, v):
    ctx.doc('C04.2', 'myth_mutex_lock_body reaches myth_block_on_queue(mutex->sleep_q, 0) only on the success edge '
            'of cmpxchg(state: s -> s+2) executed where the lock bit was tested set; myth_block_on_queue hands '
            '(q, current thread, m) to myth_block_on_queue_cb and reads the current thread before replacing it')
    f = ctx.need_fn(v, 'myth_mutex_lock_body')
    blocks = call_sites(f, 'myth_block_on_queue')
    ctx.ob('C04.2', 'myth_mutex_lock_body: blocks on queue', len(blocks) >= 1, 'lock blocks via myth_block_on_queue',
           loc=f.loc)
    seat = [c for c in cmpxchg_sites(f, STATE) if delta_of(f, c.ops[2], c.ops[1]) == 2]
    for b in blocks:
        ok = any(on_cas_success(f, c, b) for c in seat)
        ctx.ob('C04.2', 'myth_mutex_lock_body: block only after announcing', ok,
               'the blocking call is reached only through the success edge of cmpxchg(s -> s+2)', loc=b.loc)
        okq = lib.arg_is_field_of(f, b.args[0], 'myth_mutex.sleep_q') and same_value(f, f.ap(b.args[0]).root, 'a0')
        ctx.ob('C04.2', 'myth_mutex_lock_body: blocks on own queue', okq, 'the queue is mutex->sleep_q', loc=b.loc)
        okm = isinstance(b.args[1], dict) and b.args[1].get('null')
        ctx.ob('C04.2', 'myth_mutex_lock_body: no mutex handed to callback', okm,
               'no mutex is released by the callback when blocking on a mutex', loc=b.loc)
        # after wake-up the locker competes again (block is inside the retry loop)
        ctx.ob('C04.2', 'myth_mutex_lock_body: retry after wake-up', f.in_loop(b) and
               not any(r for r in f.exits() if r in f.reachable_from(b, blocked=cmpxchg_sites(f, STATE))),
               'after being woken the locker re-enters the CAS loop; it cannot return without winning a CAS',
               loc=b.loc)
    for c in seat:
        okb = guarded_by_bit(f, c.ops[1], 1, True, c)
        ctx.ob('C04.2', 'myth_mutex_lock_body: seat reserved only if held', okb,
               'the waiter count is incremented only where the lock bit was tested set', loc=c.loc)
        ctx.ob('C04.2', 'myth_mutex_lock_body: seat CAS expected fresh', is_load_of(f, c.ops[1], STATE, True),
               'expected operand is the volatile load of state', loc=c.loc)
    # "threads blocked on a mutex do not occupy a worker": an iteration that saw the lock bit set goes on to reserve a seat
    # (and blocks when the reservation succeeds).  A path that goes round the loop without attempting the reservation is
    # tolerated only as a bounded spin: a loop-carried counter grows on every way round the loop and the bypass is taken
    # only while that counter is below a constant.
    sl = [l for l in f.loads_of(STATE) if l.volatile and f.in_loop(l)]
    held_edges = [(br, sb) for l in sl for br, sb, cb in lib.mask_tests(f, l.id, 1)]
    ctx.ob('C04.2', 'myth_mutex_lock_body: lock bit tested in the retry loop', bool(held_edges) and bool(seat), 'if (s & 1)', loc=f.loc)
    if held_edges and seat:
        ok, detail = True, 'every held-iteration attempts cmpxchg(s -> s+2)'
        for br, sb in held_edges:
            start = f.blocks[sb].insts[0]
            # every loop the held branch lies in: going round it without the reservation needs a bounded, advancing counter
            for lp in [l for l in f.loops if sb in l['blocks']]:
                hdr = f.blocks[lp['header']].insts[0]
                inside = lambda i, lp=lp: i.block.id not in lp['blocks']
                if not (start is hdr or hdr in f.reachable_from(start, blocked=seat, include_start=True, stop_pred=inside)):
                    continue
                good = None
                for ph in [i for i in f.blocks[lp['header']].insts if i.op == 'phi' and i.ty in ('i32', 'i64')]:
                    ds = [lib.min_delta(f, val, ph.id) for val, b in ph.d['incoming'] if b in lp['blocks']]
                    if not ds or not all(d is not None and d >= 1 for d in ds):
                        continue
                    for ic in f.order:
                        if ic.op == 'icmp' and ic.pred in ('slt', 'ult', 'sle', 'ule') and const_int(ic.ops[1]) is not None and \
                                f.strip(ic.ops[0]) == ph.id and ic.block.id in lp['blocks']:
                            for b2 in f.users(ic.id):
                                if b2.op == 'br' and 'cond' in b2.d:
                                    t0 = f.blocks[b2.d['t']].insts[0]
                                    if not (hdr in f.reachable_from(start, blocked=list(seat) + [t0], include_start=True, stop_pred=inside)):
                                        good = 'bounded spin: counter %s < %d' % (f.var(ph.id) or ph.id, const_int(ic.ops[1]))
                if good is None:
                    ok = False
                    detail = 'the loop headed at block %d can be repeated from "lock bit set" without the seat reservation and without a ' \
                             'counter that grows on every repetition and bounds the repetition' % lp['header']
                elif ok:
                    detail = good
        ctx.ob('C04.2', 'myth_mutex_lock_body: a locker that sees the mutex held reserves a seat and blocks', ok,
               'threads waiting for a mutex do not occupy a worker: polling a held mutex for ever starves the holder when every worker polls',
               loc=held_edges[0][0].loc, detail=detail)
    # myth_block_on_queue itself
    g = ctx.need_fn(v, 'myth_block_on_queue')
    sw = [s for s in switch_sites(g) if s.is_swap]
    ctx.ob('C04.2', 'myth_block_on_queue: one switch', len(sw) == 1, 'exactly one swap-type switch', loc=g.loc)
    for s in sw:
        a1, a2, a3 = s.cb_args
        ctx.ob('C04.2', 'myth_block_on_queue: callback', s.callback == 'myth_block_on_queue_cb',
               'the switch runs myth_block_on_queue_cb', loc=s.ins.loc, detail=str(s.callback))
        ctx.ob('C04.2', 'myth_block_on_queue: arg1=q', a1 is not None and same_value(g, a1, 'a0'),
               'callback arg1 is the queue parameter', loc=s.ins.loc)
        ctx.ob('C04.2', 'myth_block_on_queue: arg3=m', a3 is not None and same_value(g, a3, 'a1'),
               'callback arg3 is the mutex parameter', loc=s.ins.loc)
        cur_ok = a2 is not None and is_load_of(g, a2, 'myth_running_env.this_thread')
        ctx.ob('C04.2', 'myth_block_on_queue: arg2=current thread', cur_ok,
               'callback arg2 is env->this_thread', loc=s.ins.loc)
        if cur_ok:
            ld = [g.insts[k] for k in g.sources(a2)]
            sts = g.stores_to('myth_running_env.this_thread')
            stale = [st for st in sts for l in ld if g.can_reach(st, l)]
            ctx.ob('C04.2', 'myth_block_on_queue: current thread read before replaced', not stale,
                   'env->this_thread is read before it is overwritten with the next thread', loc=s.ins.loc)
            frm = s.from_ctx()
            okc = frm is not None and g.sources(g.ap(frm).root) == g.sources(a2)
            ctx.ob('C04.2', 'myth_block_on_queue: saves into cur->context', okc,
                   'the context saved is that of the thread handed to the callback', loc=s.ins.loc)
        # target context: popped thread's context or the scheduler's
        pops = call_sites(g, 'myth_queue_pop')
        ctx.ob('C04.2', 'myth_block_on_queue: pops next', len(pops) == 1 and
               lib.arg_is_field_of(g, pops[0].args[0], 'myth_running_env.runnable_q'),
               'the next context comes from the worker\'s own run queue', loc=s.ins.loc)
    ctx.floor('C04.2', 14)


def rule3_unlock(ctx, v):
    ctx.doc('C04.3', 'unlock with waiters: cmpxchg(s -> s-2) [lock bit kept] -> dequeue loop exits only non-null -> '
            'myth_mutex_clear_lock_bit (atomicrmw sub 1 on state) -> push(dequeued), on every path in this order; '
            'without waiters cmpxchg(1 -> 0)')
    f = ctx.need_fn(v, 'myth_mutex_unlock_body')
    cass = cmpxchg_sites(f, STATE)
    dec = [c for c in cass if delta_of(f, c.ops[2], c.ops[1]) == -2]
    # releasing without waiters: 1 -> 0, or s -> s-1 / s & ~1 where the lock bit of s was tested set (waiter count unchanged)
    rel = [c for c in cass if (const_int(c.ops[1]) == 1 and const_int(c.ops[2]) == 0) or
           (c not in dec and delta_of(f, c.ops[2], c.ops[1], at=c) == -1 and guarded_by_bit(f, c.ops[1], 1, True, c))]
    ctx.ob('C04.3', 'myth_mutex_unlock_body: CAS s->s-2', len(dec) == 1, 'one waiter-decrementing CAS', loc=f.loc)
    ctx.ob('C04.3', 'myth_mutex_unlock_body: CAS 1->0', len(rel) == 1, 'one releasing CAS 1 -> 0', loc=f.loc)
    ctx.ob('C04.3', 'myth_mutex_unlock_body: no other CAS', len(cass) == len(dec) + len(rel),
           'no other CAS on the state', loc=f.loc)
    deqs = call_sites(f, DEQ)
    clears = call_sites(f, 'myth_mutex_clear_lock_bit')
    pushes = call_sites(f, 'myth_queue_push')
    for c in dec:
        s = c.ops[1]
        ctx.ob('C04.3', 'myth_mutex_unlock_body: waiters branch guarded by s>1', any(
            i.op == 'icmp' and i.pred == 'sgt' and const_int(i.ops[1]) == 1 and same_value(f, i.ops[0], s) and
            f.on_edge(i.id, True, c) for i in f.order), 'the decrementing CAS runs only where s > 1', loc=c.loc)
        ctx.ob('C04.3', 'myth_mutex_unlock_body: lock bit set when decrementing', guarded_by_bit(f, s, 1, True, c),
               'the decrementing CAS runs only where the lock bit was tested set', loc=c.loc)
    for p in pushes:
        src = [d for d in deqs if same_value(f, p.args[1], d.id)]
        ctx.ob('C04.3', 'myth_mutex_unlock_body: push(dequeued)', bool(src), 'the thread pushed is the dequeued one',
               loc=p.loc)
        ctx.ob('C04.3', 'myth_mutex_unlock_body: push after CAS success', any(on_cas_success(f, c, p) for c in dec),
               'waking happens only after the decrementing CAS succeeded', loc=p.loc)
        ctx.ob('C04.3', 'myth_mutex_unlock_body: dequeue non-null before push',
               bool(src) and lib.guarded_by_nonnull(f, src[0].id, p), 'push only on the non-null dequeue edge', loc=p.loc)
        ok = any(f.dominates_f(cl, p) for cl in clears)
        ctx.ob('C04.3', 'myth_mutex_unlock_body: clear lock bit before push', ok,
               'the lock bit is cleared before the woken thread becomes runnable (otherwise it can run, see the bit '
               'set and sleep again with nobody left to wake it)', loc=p.loc)
    for cl in clears:
        ok = any(lib.guarded_by_nonnull(f, d.id, cl) for d in deqs)
        ctx.ob('C04.3', 'myth_mutex_unlock_body: clear lock bit after dequeue', ok,
               'the lock bit is cleared only after a waiter has been dequeued (otherwise another thread can lock, '
               'unlock and dequeue the waiter this unlocker is committed to wake)', loc=cl.loc)
        ctx.ob('C04.3', 'myth_mutex_unlock_body: clears own mutex', same_value(f, cl.args[0], 'a0'),
               'the lock bit cleared is that of the mutex being unlocked', loc=cl.loc)
    for c in dec:
        # from CAS success every path to return passes deq, clear, push
        for what, evs in (('dequeue', deqs), ('clear-lock-bit', clears), ('push', pushes)):
            succ_reach = None
            for sref in lib.cas_success(f, c):
                for cond, pol in lib.cond_chain(f, sref):
                    for br, t, fb in f.cond_edges(cond):
                        start = lib.first_inst(f, t if pol else fb)
                        r = f.reachable_from(start, blocked=evs, include_start=True)
                        bad = [i for i in r if i.op == 'ret']
                        succ_reach = bad if succ_reach is None else succ_reach + bad
            ctx.ob('C04.3', 'myth_mutex_unlock_body: success => %s' % what, succ_reach is not None and not succ_reach,
                   'after the decrementing CAS succeeded no path returns without a %s' % what, loc=c.loc)
    for d in deqs:
        ctx.ob('C04.3', 'myth_mutex_unlock_body: dequeue from own queue',
               lib.arg_is_field_of(f, d.args[0], 'myth_mutex.sleep_q') and same_value(f, f.ap(d.args[0]).root, 'a0'),
               'the waiter comes from mutex->sleep_q', loc=d.loc)
        # the spin: null result loops back to another dequeue
        for br, nn, nl in null_tests(f, d.id):
            r = f.reachable_from(lib.first_inst(f, nl), blocked=deqs, include_start=True)
            ctx.ob('C04.3', 'myth_mutex_unlock_body: spin until a waiter appears',
                   not [i for i in r if i.op == 'ret' or i in pushes or i in clears],
                   'an empty dequeue leads only back to another dequeue (the announced waiter will arrive)', loc=br.loc)
    # clear_lock_bit body
    g = ctx.need_fn(v, 'myth_mutex_clear_lock_bit')
    rm = [i for i in g.order if i.op == 'atomicrmw' and g.field(i) == STATE]
    ok = len(rm) == 1 and rm[0].d.get('rmw') == 'sub' and const_int(rm[0].ops[1]) == 1
    ctx.ob('C04.3', 'myth_mutex_clear_lock_bit: atomic sub 1', ok,
           'the lock bit is cleared by an atomic decrement that preserves the waiter count', loc=g.loc)
    ctx.ob('C04.3', 'myth_mutex_clear_lock_bit: no plain store', not g.stores_to(STATE), 'no plain store to state',
           loc=g.loc)
    ctx.floor('C04.3', 18)


def rule4_nonblocking(ctx, fl):
    ctx.doc('C04.4', 'the full call closure of myth_mutex_trylock_body contains no context switch and no call that '
            'can suspend; that of myth_mutex_timedlock_body contains no sleep-queue enqueue and its only switch '
            'callback is the yield callback (which re-queues the caller)')
    v = ctx.view(NATIVE, roots=['myth_mutex_trylock_body'], stops=(), flavour=fl)
    f = ctx.need_fn(v, 'myth_mutex_trylock_body')
    sw = switch_sites(f)
    calls = [c for c in f.calls() if c.callee and not c.d.get('intrinsic')]
    ctx.ob('C04.4', 'myth_mutex_trylock_body: no switch', not sw, 'trylock contains no context switch', loc=f.loc)
    ctx.ob('C04.4', 'myth_mutex_trylock_body: no calls', not calls, 'trylock calls nothing (pure CAS loop)',
           loc=(calls[0].loc if calls else f.loc), detail=str([c.callee for c in calls]))
    for l in f.loops:
        # every loop iteration re-reads the state and retries only after a failed CAS
        blocks = l['blocks']
        cas_in = [c for c in cmpxchg_sites(f, STATE) if c.block.id in blocks]
        ctx.ob('C04.4', 'myth_mutex_trylock_body: loop is a CAS retry', bool(cas_in),
               'the only loop is the compare-and-swap retry loop', loc=f.blocks[l['header']].insts[0].loc)
    v2 = ctx.view(NATIVE, roots=['myth_mutex_timedlock_body'],
                  stops=ENQ + ('hr_gettime', 'myth_queue_put', 'myth_queue_pop', 'myth_queue_push'), flavour=fl)
    f2 = ctx.need_fn(v2, 'myth_mutex_timedlock_body')
    enq = call_sites(f2, ENQ)
    ctx.ob('C04.4', 'myth_mutex_timedlock_body: never enqueues', not enq,
           'timedlock never puts the caller on a sleep queue', loc=(enq[0].loc if enq else f2.loc))
    for s in switch_sites(f2):
        ctx.ob('C04.4', 'myth_mutex_timedlock_body: only yields', s.callback == 'myth_yield_ex_1',
               'the only context switch reachable is the yield (callback re-queues the caller)', loc=s.ins.loc,
               detail=str(s.callback))
    ctx.floor('C04.4', 4)


def rule5_ilock(ctx, fl):
    ctx.doc('C04.5', 'sleep-queue enq/deq: ilock acquired and released exactly once on every path; every access to '
            'head/tail happens with ilock held')
    v = ctx.view(NATIVE, roots=['myth_sleep_queue_enq', 'myth_sleep_queue_deq'], stops=lib.SPIN_STOPS, flavour=fl)
    for name in ('myth_sleep_queue_enq', 'myth_sleep_queue_deq'):
        f = ctx.need_fn(v, name)
        la = LockAnalysis(f)
        keys = la.keys_matching('myth_sleep_queue_t.ilock')
        ctx.ob('C04.5', name + ': takes ilock', len(keys) == 1, 'the function locks q->ilock', loc=f.loc)
        for r in f.exits():
            ctx.ob('C04.5', name + ': released at return', not la.held_may(r),
                   'no lock is held at return', loc=r.loc,
                   detail='held: %s' % [la.name(k) for k in la.held_may(r)])
        ctx.ob('C04.5', name + ': no double unlock', not la.double_unlock and not la.relock and not la.unheld_unlock,
               'unlock only what is held; never re-lock a held lock', loc=f.loc)
        for a in f.mem_accesses(('myth_sleep_queue_t.head', 'myth_sleep_queue_t.tail')):
            ok = bool(keys) and la.held_must(a, keys[0])
            ctx.ob('C04.5', '%s: %s of %s under ilock' % (name, a.op, f.field(a).split('.')[-1]), ok,
                   'queue head/tail are accessed only under q->ilock', loc=a.loc)
    # FIFO linkage: "no lost wake-up" needs every enqueued waiter to stay reachable from head until it is dequeued
    HEAD, TAIL, NEXT = 'myth_sleep_queue_t.head', 'myth_sleep_queue_t.tail', 'myth_sleep_queue_item.next'
    e = ctx.need_fn(v, 'myth_sleep_queue_enq')
    q, t = e.params[0]['id'], e.params[1]['id']
    tl = [l for l in e.loads_of(TAIL)]
    ctx.ob('C04.5', 'enq: reads the tail once', len(tl) == 1, 'tail = q->tail', loc=e.loc)
    if len(tl) == 1:
        nts = null_tests(e, tl[0].id)
        term = [st for st in e.stores_to(NEXT) if same_value(e, e.ap(st.ops[1]).root, t) and isinstance(st.ops[0], dict) and st.ops[0].get('null')]
        link = [st for st in e.stores_to(NEXT) if same_value(e, e.ap(st.ops[1]).root, tl[0].id) and same_value(e, st.ops[0], t)]
        hd = [st for st in e.stores_to(HEAD) if same_value(e, st.ops[0], t)]
        newt = [st for st in e.stores_to(TAIL) if same_value(e, st.ops[0], t)]
        ctx.ob('C04.5', 'enq: the new element ends the list', len(term) == 1 and all(e.dominates_f(term[0], x) for x in link + hd + newt),
               't->next = 0 before t becomes reachable', loc=e.loc)
        ctx.ob('C04.5', 'enq: linked behind the old tail of a non-empty queue', len(link) == 1 and
               any(e.edge_dominates(br.block.id, nn, link[0]) for br, nn, nl in nts), 'if (tail) tail->next = t', loc=(link[0].loc if link else e.loc))
        ctx.ob('C04.5', 'enq: becomes the head of an empty queue', len(hd) == 1 and
               any(e.edge_dominates(br.block.id, nl, hd[0]) for br, nn, nl in nts), 'else q->head = t', loc=(hd[0].loc if hd else e.loc))
        ctx.ob('C04.5', 'enq: becomes the tail on every path', len(newt) == 1 and e.always_passes(e.entry_inst(), newt),
               'q->tail = t unconditionally (a stale tail makes the next enqueue overwrite the link to this waiter)', loc=(newt[0].loc if newt else e.loc))
    d = ctx.need_fn(v, 'myth_sleep_queue_deq')
    hl = [l for l in d.loads_of(HEAD)]
    ctx.ob('C04.5', 'deq: reads the head once', len(hl) == 1, 'head = q->head', loc=d.loc)
    if len(hl) == 1:
        nts = null_tests(d, hl[0].id)
        nxl = [l for l in d.loads_of(NEXT) if same_value(d, d.ap(l.ops[0]).root, hl[0].id)]
        adv = [st for st in d.stores_to(HEAD) if nxl and same_value(d, st.ops[0], nxl[0].id)]
        ctx.ob('C04.5', 'deq: head advances to the successor of the element taken', len(nxl) == 1 and len(adv) == 1 and
               any(d.edge_dominates(br.block.id, nn, adv[0]) for br, nn, nl in nts) and
               all(not [r for r in d.reachable_from(lib.first_inst(d, nn), blocked=adv, include_start=True) if r.op == 'ret'] for br, nn, nl in nts),
               'if (head) q->head = head->next, on every path that takes an element', loc=(adv[0].loc if adv else d.loc))
        clr = [st for st in d.stores_to(TAIL) if isinstance(st.ops[0], dict) and st.ops[0].get('null')]
        nnt = null_tests(d, nxl[0].id) if nxl else []
        ctx.ob('C04.5', 'deq: tail cleared exactly when the last element is taken', len(clr) == 1 and
               any(d.edge_dominates(br.block.id, nl, clr[0]) for br, nn, nl in nnt) and
               all(not [r for r in d.reachable_from(lib.first_inst(d, nl), blocked=clr, include_start=True) if r.op == 'ret'] for br, nn, nl in nnt),
               'if (!next) q->tail = 0: a dangling tail links the next waiter behind a thread that has already left', loc=(clr[0].loc if clr else d.loc))
        rets = [r for r in d.exits() if r.ops]
        ctx.ob('C04.5', 'deq: returns the old head', bool(rets) and all(same_value(d, r.ops[0], hl[0].id) for r in rets), 'the element taken', loc=d.loc)
    ctx.floor('C04.5', 19)


def rule_init_complete(ctx, fl):
    ctx.doc('C04.6', 'initialiser completeness: every field of the mutex that myth_mutex_lock_body / myth_mutex_trylock_body / myth_mutex_unlock_body read(s), directly or through an inlined helper, '
            'is written by myth_mutex_init_body (an object placed in recycled memory must not depend on its previous contents)')
    vi = ctx.view(NATIVE, roots=['myth_mutex_init_body', 'myth_mutex_lock_body', 'myth_mutex_trylock_body', 'myth_mutex_unlock_body'], stops=('myth_queue_push', 'myth_queue_pop', 'myth_yield_ex_body', 'hr_gettime', 'fprintf', 'exit') + lib.SPIN_STOPS, flavour=fl)
    n = lib.init_covers(ctx, 'C04.6', vi, 'myth_mutex_init_body', ['myth_mutex_lock_body', 'myth_mutex_trylock_body', 'myth_mutex_unlock_body'], 'mutex')
    lib.sleep_container_init_complete(ctx, 'C04.6', fl, 'queue')
    ctx.ob('C04.6', 'fields read by the operations enumerated', n >= 2, 'read set of the operations', loc='src/myth_sync_func.h', detail=str(n))
    ctx.floor('C04.6', 4)


def run(ctx):
    for fl in flavours(ctx):
        ctx.unit = fl
        ctx.doc('C04.8', 'native API forwarding: each public entry point of this property reaches the implementation of the same name with its parameters in order and returns its result (sibling slips such as trylock -> lock, signal -> broadcast, swapped arguments)')
        ctx.attempt(lib.native_forwarding, ctx, 'C04.8', fl, lambda n: n.startswith(('myth_mutex_', 'myth_mutexattr_')), floor=8)
        ctx.attempt(rule_init_complete, ctx, fl)
        v = ctx.view(NATIVE, roots=['myth_mutex_lock_body', 'myth_mutex_trylock_body', 'myth_mutex_timedlock_body',
                                    'myth_mutex_unlock_body', 'myth_block_on_queue', 'myth_mutex_clear_lock_bit'],
                     stops=(DEQ, 'myth_queue_push', 'myth_queue_pop', 'myth_yield_ex_body', 'hr_gettime',
                            'myth_timespec_gt') + ENQ, flavour=fl)
        ctx.attempt(rule1_acquire, ctx, v)
        ctx.attempt(rule2_block, ctx, v)
        ctx.attempt(rule3_unlock, ctx, v)
        ctx.attempt(rule4_nonblocking, ctx, fl)
        ctx.attempt(rule5_ilock, ctx, fl)
    from . import c20
    for fl in flavours(ctx):
        ctx.unit = fl
        with ctx.shared({'C20.3': 'C04.9'}, keep=lambda k: k.startswith('mutex:'), floor=8,
                        doc='timed lock (shared with C20.3): the first attempt precedes the deadline test, the timeout code is returned only '
                            'past the deadline and never after a try that was not examined, 0 only after a successful try, and every '
                            'waiting iteration yields with an option that serves the local run queue (a steal-only yield keeps the '
                            'worker from the very thread that holds the mutex)'):
            v20 = ctx.view(NATIVE, roots=['myth_nanosleep_body', 'myth_timespec_gt', 'myth_timespec_add', 'myth_mutex_timedlock_body',
                                          'myth_timedjoin_body', 'myth_usleep_body', 'myth_sleep_body'],
                           stops=('hr_gettime', 'myth_yield_body', 'myth_yield_ex_body', 'myth_mutex_trylock_body', 'myth_tryjoin_body'), flavour=fl)
            ctx.attempt(c20.rule3_noearly, ctx, v20)
    from . import c16
    for wfl in ('ld', 'dl'):
        ctx.unit = wfl
        with ctx.shared({'C16.2': 'C04.7'}, floor=6,
                        doc='statically initialised mutexes (shared with C16.2): every redirected mutex operation converts '
                            'PTHREAD_MUTEX_INITIALIZER first, exactly one thread is elected to convert, and a loser of the election '
                            'returns only once the mutex is converted (otherwise its lock operates on a half-built mutex and mutual '
                            'exclusion is lost on first concurrent use)'):
            v16, _ws = c16.build_view(ctx, wfl)
            ctx.attempt(c16.rule2_static_init, ctx, wfl, v16)


SYNC = 'src/myth_sync_func.h'
MUTANTS = [
    {'name': 'sleep queue initialiser leaves the tail unset (seed3 C04/m3)', 'expect': 'C04.6',
     'edits': [('src/myth_sleep_queue_func.h', "  q->head = q->tail = 0;", "  q->head = 0;")]},
    {'name': 'native myth_mutex_trylock forwards to the blocking lock', 'expect': 'C04.8',
     'edits': [('src/myth_if_native.c', "  return myth_mutex_trylock_body(mutex);", "  return myth_mutex_lock_body(mutex);")]},
    {'name': 'sleep queue enq keeps the old tail (sweep M0499)', 'expect': 'C04.5',
     'edits': [('src/myth_sleep_queue_func.h', "    q->head = t;\n  }\n  q->tail = t;\n  myth_spin_unlock_body(q->ilock);", "    q->head = t;\n  }\n  myth_spin_unlock_body(q->ilock);")]},
    {'name': 'sleep queue enq links on the wrong branch (sweep M0500)', 'expect': 'C04.5',
     'edits': [('src/myth_sleep_queue_func.h', "  myth_sleep_queue_item_t tail = q->tail;\n  if (tail) {\n    tail->next = t;", "  myth_sleep_queue_item_t tail = q->tail;\n  if (!(tail)) {\n    tail->next = t;")]},
    {'name': 'sleep queue deq leaves a dangling tail (sweep M0496)', 'expect': 'C04.5',
     'edits': [('src/myth_sleep_queue_func.h', "    if (!next) {\n      q->tail = 0;\n    }\n  }\n  myth_spin_unlock_body(q->ilock);\n  return head;", "  }\n  myth_spin_unlock_body(q->ilock);\n  return head;")]},
    {'name': 'sleep queue deq does not advance the head (sweep M0495)', 'expect': 'C04.5',
     'edits': [('src/myth_sleep_queue_func.h', "    myth_sleep_queue_item_t next = head->next;\n    q->head = next;\n    if (!next) {\n      q->tail = 0;", "    myth_sleep_queue_item_t next = head->next;\n    if (!next) {\n      q->tail = 0;")]},
    {'name': 'mutex_init forgets the state word', 'expect': 'C04.6',
     'edits': [(SYNC, '  myth_sleep_queue_init(mutex->sleep_q);\n  mutex->state = 0;\n  if (attr) {', '  myth_sleep_queue_init(mutex->sleep_q);\n  if (attr) {')]},
    {'name': 'lock polls a held mutex with a bound that is never reached (seed2 C04/m1)', 'expect': 'C04.2',
     'edits': [(SYNC, "      /* lock bit set. indicate I am going to block on it.\n", "      if (failed < 64) { continue; }\n      /* lock bit set. indicate I am going to block on it.\n")]},
    {'name': 'trylock: plain store instead of CAS', 'expect': 'C04.1',
     'edits': [(SYNC, "    } else if (__sync_bool_compare_and_swap(&mutex->state, s, s + 1)) {\n      /* I set the lock bit */\n      return 0;",
                "    } else if ((mutex->state = s + 1)) {\n      /* I set the lock bit */\n      return 0;")]},
    {'name': 'lock: test bit 2 instead of bit 1', 'expect': 'C04.1',
     'edits': [(SYNC, "    if ((s & 1) == 0) {\n      /* lock bit clear -> try to become the one who set it */",
                "    if ((s & 2) == 0) {\n      /* lock bit clear -> try to become the one who set it */")]},
    {'name': 'unlock: clear lock bit before dequeuing', 'expect': 'C04.3',
     'edits': [(SYNC, "  myth_thread_t to_wake = 0;\n  int failed = 0;\n  while (1) {\n    to_wake = myth_sleep_queue_deq_th(q);",
                "  myth_thread_t to_wake = 0;\n  int failed = 0;\n  if (callback) { callback(arg); callback = 0; }\n  while (1) {\n    to_wake = myth_sleep_queue_deq_th(q);")]},
    {'name': 'unlock: clear lock bit after push', 'expect': 'C04.3',
     'edits': [(SYNC, "  if (callback) {\n    callback(arg);\n  }\n  /* put the thread to wake up in run queue */\n  myth_queue_push(&env->runnable_q, to_wake);\n  return failed;",
                "  /* put the thread to wake up in run queue */\n  myth_queue_push(&env->runnable_q, to_wake);\n  if (callback) {\n    callback(arg);\n  }\n  return failed;")]},
    {'name': 'unlock: s-1 instead of s-2', 'expect': 'C04.3',
     'edits': [(SYNC, "      if (__sync_bool_compare_and_swap(&mutex->state, s, s - 2)) {", "      if (__sync_bool_compare_and_swap(&mutex->state, s, s - 1)) {")]},
    {'name': 'lock: block without announcing (+2 CAS dropped)', 'expect': 'C04.2',
     'edits': [(SYNC, "      if (__sync_bool_compare_and_swap(&mutex->state, s, s + 2)) {\n\t/* OK, I reserved a seat", "      if (s > 0) {\n\t/* OK, I reserved a seat")]},
    {'name': 'timedlock blocks on the mutex queue', 'expect': 'C04.4',
     'edits': [(SYNC, "      if (myth_mutex_trylock_body(mutex) == 0) {\n\treturn 0;\n      } else {\n\tmyth_yield_ex_body(myth_yield_option_local_first);",
                "      if (myth_mutex_trylock_body(mutex) == 0) {\n\treturn 0;\n      } else {\n\tmyth_block_on_queue(mutex->sleep_q, 0);")]},
    {'name': 'timedlock leaks an acquisition on timeout (seed C04/m3)', 'expect': 'C04.1',
     'edits': [(SYNC, "      int err = hr_gettime(tp);\n      assert(err == 0);\n      if (myth_timespec_gt(tp, abstime)) return ETIMEDOUT;\n      if (myth_mutex_trylock_body(mutex) == 0) {\n\treturn 0;\n      } else {",
                "      int got = myth_mutex_trylock_body(mutex);\n      int err = hr_gettime(tp);\n      assert(err == 0);\n      if (myth_timespec_gt(tp, abstime)) return ETIMEDOUT;\n      if (got == 0) {\n\treturn 0;\n      } else {")]},
    {'name': 'trylock yields while waiting', 'expect': 'C04.4',
     'edits': [(SYNC, "      return 0;\n    } else {\n      continue;\n    }\n  }\n}\n\n/* lock mutex.", "      return 0;\n    } else {\n      myth_yield_ex_body(myth_yield_option_local_first);\n      continue;\n    }\n  }\n}\n\n/* lock mutex.")]},
    {'name': 'sleep queue deq returns without unlocking when empty', 'expect': 'C04.5',
     'edits': [('src/myth_sleep_queue_func.h', "  myth_sleep_queue_item_t head = q->head;\n  if (head) {\n    myth_sleep_queue_item_t next = head->next;",
                "  myth_sleep_queue_item_t head = q->head;\n  if (!head) return 0;\n  if (head) {\n    myth_sleep_queue_item_t next = head->next;")]},
    {'name': 'block_on_queue reads cur after replacing this_thread', 'expect': 'C04.2',
     'edits': [(SYNC, "  myth_running_env_t env = myth_get_current_env();\n  myth_thread_t cur = env->this_thread;\n  /* pop next thread to run */\n  myth_thread_t next = myth_queue_pop(&env->runnable_q);\n  /* next context to run. either another thread\n     or the scheduler */\n  myth_context_t next_ctx;\n  env->this_thread = next;\n  if (next) {\n    /* a runnable thread */\n    next->env = env;\n    next_ctx = &next->context;\n  } else {\n    /* no runnable thread -> scheduler */\n    next_ctx = &env->sched.context;\n  }\n  /* now save the current context, myth_sleep_queue_enq_th(q, cur)\n     to put cur in the q, and jump to next_ctx */\n  myth_swap_context_withcall(&cur->context, next_ctx,\n\t\t\t     myth_block_on_queue_cb, q, cur, m);",
                "  myth_running_env_t env = myth_get_current_env();\n  myth_thread_t cur0 = env->this_thread;\n  /* pop next thread to run */\n  myth_thread_t next = myth_queue_pop(&env->runnable_q);\n  myth_context_t next_ctx;\n  env->this_thread = next;\n  if (next) {\n    next->env = env;\n    next_ctx = &next->context;\n  } else {\n    next_ctx = &env->sched.context;\n  }\n  myth_thread_t cur = env->this_thread ? cur0 : env->this_thread;\n  myth_swap_context_withcall(&cur0->context, next_ctx,\n\t\t\t     myth_block_on_queue_cb, q, cur, m);")]},
]
