"""C10 - thread-specific data is private to (thread, key) and follows the thread."""
import re

from .. import lib
from ..lib import (call_sites, same_value, describe, is_load_of, ret_cases, guard_interval, expr_str, LockAnalysis,
                   cas_on, affine)
from ..ir import const_int

META = {
    'explanation': 'TLS obligations: (1) every tree / key-table access of get, set and key delete is dominated by guards that '
                   'confine the index to [0, K-1], K being the declared length of keys[] and 1 << (4 + 2*3), identically in all '
                   'three; (2) the per-level child index is (idx >> s) & 3 with s the add-recurrence {8,+,-2} over a 3-trip '
                   'loop and the leaf index idx & 15, so the (shift,mask) pairs partition the 10 key bits, each index stays '
                   'inside its array (4 children, 16 leaf entries actually allocated and zeroed), and get uses the same '
                   'expressions as set; (3) the tree is reset before a new thread is published, lives in the descriptor and '
                   'get/setspecific address the current thread\'s tree; (4) a key is marked in use when handed out and delete '
                   'accepts only marked keys; (5) every pop of a shared free list either runs in a lock region or has a single '
                   'popper (no ABA).'
                   ' C10.6 (open finding D18): get does not validate a slot against the incarnation of the key, so an index reused after delete exposes the old value.',
    'not_decided': 'value privacy under all interleavings of create/delete/set/get histories (only the structural index '
                   'discipline and the allocator\'s locking are decided)',
    'assumptions': ['keys are small integers handed out by myth_key_create'],
}
NATIVE = 'myth_if_native.c'
K = 1024
NODE = 'myth_tls_tree_node.'


def flavours(ctx):
    return ['vanilla', 'ld', 'dl'] if ctx.tier == 'thorough' else ['vanilla']


def rule1_range(ctx, v):
    ctx.doc('C10.1', 'myth_tls_tree_get / myth_tls_tree_set / myth_tls_key_allocator_dealloc: the first access to the tree root '
            '(resp. keys[key]) is dominated by guards establishing 0 <= idx <= 1023; 1024 == declared length of keys[]')
    nkeys = None
    st = v.structs.get('myth_tls_key_allocator')
    if st:
        for fld in st['fields']:
            if fld['name'] == 'keys':
                nkeys = fld['nelem']
    ctx.ob('C10.1', 'key table length', nkeys == K, 'keys[] is declared with 1 << (4 + 2*3) = 1024 entries', loc='src/myth_tls.h',
           detail='declared %s' % nkeys)
    ivs = {}
    for name, idxp, anchor_field in (('myth_tls_tree_get', 'idx', 'myth_tls_tree_t.root'), ('myth_tls_tree_set', 'idx', 'myth_tls_tree_t.root'),
                                     ('myth_tls_key_allocator_dealloc', 'key', 'myth_tls_key_entry.next')):
        f = ctx.need_fn(v, name)
        p = f.param_named(idxp)
        acc = f.mem_accesses(anchor_field)
        ctx.ob('C10.1', name + ': accesses present', len(acc) >= 1 and p is not None, 'the function reaches the guarded structure', loc=f.loc)
        for a in acc[:1] + [x for x in f.order if x.op in ('load', 'store') and x not in acc[:1] and f.ap(x.ptr).fields][:0]:
            lo, hi = guard_interval(f, p, a)
            ivs[name] = (lo, hi)
            ctx.ob('C10.1', name + ': index confined to the table', lo is not None and hi is not None and lo >= 0 and hi <= K - 1,
                   'the index is proven inside [0, %d] before the first access' % (K - 1), loc=a.loc, detail='guards give [%s, %s]' % (lo, hi))
        # every memory access that is not to the parameters themselves lies behind the same guards
        for a in [x for x in f.order if x.op in ('load', 'store') and f.ap(x.ptr).fields]:
            lo, hi = guard_interval(f, p, a)
            ok = lo is not None and hi is not None and lo >= 0 and hi <= K - 1
            if not ok:
                ctx.ob('C10.1', '%s: access at %s guarded' % (name, f.field(a)), False, 'structure access outside the range guard',
                       loc=a.loc, detail='[%s, %s]' % (lo, hi))
    ctx.ob('C10.1', 'get, set and delete accept the same key range', len(set(ivs.values())) == 1 and len(ivs) == 3,
           'the three operations agree on which keys are valid (a key storable by set must be readable by get)', loc='src/myth_tls_func.h',
           detail=str(ivs))
    # rejected keys: EINVAL / NULL / -1
    ctx.floor('C10.1', 8)


def level_exprs(f):
    """child-index expressions used to index children[] and the leaf index used to index entries[]"""
    child, leaf = [], []
    for g in f.order:
        if g.op != 'getelementptr':
            continue
        sty = g.d.get('srcty', '')
        path = g.d['path']
        if re.match(r'\[4 x %struct\.myth_tls_tree_node\*\]', sty) and len(path) == 2 and isinstance(path[1].get('i'), str):
            child.append((g, path[1]['i']))
        if re.match(r'\[1 x %struct\.myth_tls_entry\]', sty) and len(path) == 2 and isinstance(path[1].get('i'), str):
            leaf.append((g, path[1]['i']))
    return child, leaf


def shift_scev(f, idx_ref):
    """for cidx = (idx >> shift) & mask return (scev string of shift, mask, loop max trip)"""
    a = f.get(f.strip(idx_ref))
    if a is None or a.op != 'and':
        return None
    mask = const_int(a.ops[1])
    sh = f.get(f.strip(a.ops[0]))
    if sh is None or sh.op not in ('ashr', 'lshr'):
        return None
    s = f.get(f.strip(sh.ops[1])) if isinstance(sh.ops[1], str) else None
    scev = s.d.get('scev') if s is not None else (str(const_int(sh.ops[1])) if const_int(sh.ops[1]) is not None else None)
    lp = lib.loop_containing(f, a)
    return scev, mask, (lp or {}).get('max_trip'), sh.ops[0]


def rule2_decomp(ctx, v):
    ctx.doc('C10.2', 'index decomposition: in get and set children[] is indexed by (idx >> s) & 3, s = {8,+,-2} over a loop of at '
            'most 3 iterations (shifts 8,6,4) and entries[] by idx & 15: the masks partition key bits 9..0; children index < 4, '
            'leaf index < 16 = number of entries allocated and zeroed for a leaf; get and set use identical expressions')
    shapes = {}
    for name in ('myth_tls_tree_get', 'myth_tls_tree_set'):
        f = ctx.need_fn(v, name)
        idxp = f.param_named('idx')
        child, leaf = level_exprs(f)
        lookups = [c for c in child if shift_scev(f, c[1]) is not None]
        ctx.ob('C10.2', name + ': child index sites', len(lookups) >= 1, 'children[] is indexed by a shifted/masked key', loc=f.loc)
        shp = []
        for g, ir in lookups:
            scev, mask, trip, src = shift_scev(f, ir)
            m = re.match(r'\{(\d+),\+,(-?\d+)\}', scev or '')
            ok = m is not None and int(m.group(1)) == 8 and int(m.group(2)) == -2 and mask == 3 and same_value(f, src, idxp)
            # trip count: backedge-taken <= 2 iterations beyond the first => shifts 8,6,4 ; max_trip counts header executions
            lp = lib.loop_containing(f, g)
            bound = [ic for ic in f.order if ic.op == 'icmp' and ic.pred == 'slt' and const_int(ic.ops[1]) == 3 and
                     lp is not None and ic.block.id == lp['header']]
            ctx.ob('C10.2', name + ': level shift is {8,+,-2}, mask 3, of the key', ok and len(bound) == 1,
                   'per level the key is shifted by 8, 6, 4 (three levels) and masked with 3', loc=g.loc,
                   detail='scev=%s mask=%s trip=%s' % (scev, mask, trip))
            shp.append((re.sub(r'<[^>]*>', '', scev or ''), mask))
        lf = []
        for g, ir in leaf:
            a = f.get(f.strip(ir))
            ok = a is not None and a.op == 'and' and const_int(a.ops[1]) == 15 and same_value(f, a.ops[0], idxp)
            ctx.ob('C10.2', name + ': leaf index is key & 15', ok, 'the leaf slot is selected by the low four key bits', loc=g.loc,
                   detail=expr_str(f, ir))
            lf.append(expr_str(f, ir))
        ctx.ob('C10.2', name + ': leaf index site', len(leaf) == 1, 'one leaf access', loc=f.loc)
        shapes[name] = (sorted(set(shp)), sorted(set(lf)))
    ctx.ob('C10.2', 'get and set decompose the key identically', shapes.get('myth_tls_tree_get') == shapes.get('myth_tls_tree_set'),
           'the slot read by get is the slot written by set', loc='src/myth_tls_func.h', detail=str(shapes))
    # partition of the 10 key bits: shifts {8,6,4} x mask 3 (2 bits each) + mask 15 at shift 0 -> bits 9..0 exactly once
    bits = set()
    overlap = False
    for s_, m_ in ((8, 3), (6, 3), (4, 3), (0, 15)):
        bs = set(s_ + i for i in range(m_.bit_length()))
        if bits & bs:
            overlap = True
        bits |= bs
    ctx.ob('C10.2', 'masks partition the key bits', not overlap and bits == set(range(10)) and (1 << 10) == K,
           'distinct keys map to distinct slots: every key bit selects exactly one level', loc='src/myth_tls.h')
    # leaf allocation covers 16 entries and zeroes all of them
    lf = ctx.need_fn(v, 'myth_tls_tree_node_alloc_leaf')
    al = call_sites(lf, 'myth_tls_tree_node_alloc')
    sz = const_int(al[0].args[1]) if al else None
    entry_off = 8
    ctx.ob('C10.2', 'leaf allocation holds 16 entries', sz is not None and sz >= entry_off + 16 * 8,
           'a leaf is allocated with room for 16 entries although entries[] is declared [1]', loc=lf.loc, detail='size %s' % sz)
    zs = [s for s in lf.order if s.op == 'store' and isinstance(s.ops[0], dict) and (s.ops[0].get('null') or s.ops[0].get('c') == 0) and
          lf.field(s) == 'myth_tls_entry.value']
    okz = False
    for s in zs:
        lp = lib.loop_containing(lf, s)
        hdr = [ic for ic in lf.order if ic.op == 'icmp' and ic.pred == 'slt' and const_int(ic.ops[1]) == 16 and lp is not None and
               ic.block.id == lp['header']]
        if lp is not None and hdr:
            okz = True
    mz = [c for c in lf.calls() if c.callee and c.callee.startswith('llvm.memset') and const_int(c.args[2]) is not None and
          const_int(c.args[2]) >= 16 * 8]
    ctx.ob('C10.2', 'all 16 leaf entries are cleared', okz or bool(mz),
           'a fresh leaf (possibly recycled memory of a finished thread) reads NULL for every key it covers', loc=lf.loc)
    nd = ctx.need_fn(v, 'myth_tls_tree_node_alloc_node')
    zc = [s for s in nd.order if s.op == 'store' and isinstance(s.ops[0], dict) and s.ops[0].get('null')]
    okc = any(lib.loop_containing(nd, s) is not None and
              [ic for ic in nd.order if ic.op == 'icmp' and ic.pred == 'slt' and const_int(ic.ops[1]) == 4 and
               ic.block.id == lib.loop_containing(nd, s)['header']] for s in zc) or \
        any(c.callee and c.callee.startswith('llvm.memset') and (const_int(c.args[2]) or 0) >= 32 for c in nd.calls())
    ctx.ob('C10.2', 'all 4 children of a fresh node are cleared', okc, 'a fresh internal node has no children', loc=nd.loc)
    ctx.floor('C10.2', 11)


def rule3_follows(ctx, fl):
    ctx.doc('C10.3', 'the tree is embedded in the thread record (field tls), reset by myth_tls_tree_init before the new thread is '
            'published (C01.3 instance) and myth_getspecific/setspecific address env->this_thread->tls')
    from . import c01
    v3 = ctx.view(NATIVE, roots=['myth_create_ex_body'],
                  stops=('myth_queue_push', 'myth_queue_pop', 'get_new_myth_thread_struct_desc',
                         'get_new_myth_thread_struct_stack', 'myth_init_ex_body') + lib.SPIN_STOPS, flavour=fl)
    c01.rule3_publish(ctx, v3, rule='C10.3', only=['myth_thread.tls/root', 'myth_thread.tls/pre_alloc_p'])
    v = ctx.view(NATIVE, roots=['myth_getspecific_body', 'myth_setspecific_body'],
                 stops=('myth_tls_tree_get', 'myth_tls_tree_set', 'myth_init_ex_body'), flavour=fl)
    for name, callee in (('myth_getspecific_body', 'myth_tls_tree_get'), ('myth_setspecific_body', 'myth_tls_tree_set')):
        f = ctx.need_fn(v, name)
        cs = call_sites(f, callee)
        ok = len(cs) == 1 and f.ap(cs[0].args[0]).fields[:1] == ['myth_thread.tls'] and \
            is_load_of(f, f.ap(cs[0].args[0]).root, 'myth_running_env.this_thread') and same_value(f, cs[0].args[1], 'a0')
        ctx.ob('C10.3', name + ': uses the current thread\'s tree with the given key', ok,
               'the tree addressed is env->this_thread->tls and the key is forwarded unchanged', loc=f.loc)
        if name.startswith('myth_set') and cs:
            ctx.ob('C10.3', name + ': stores the given value', same_value(f, cs[0].args[2], 'a1'), 'the value is forwarded', loc=cs[0].loc)
        for val, anchor in ret_cases(f):
            ctx.ob('C10.3', name + ': returns the tree\'s answer', isinstance(val, str) and cs and cs[0].id in f.sources(val),
                   'result forwarded', loc=anchor.loc)
    st = v.structs.get('myth_thread', {})
    emb = [x for x in st.get('fields', []) if x['name'] == 'tls']
    ctx.ob('C10.3', 'tree embedded in the record', len(emb) == 1 and emb[0]['size'] >= 8 and emb[0]['nelem'] == 1,
           'struct myth_thread contains the tree by value, so it migrates with the thread', loc='src/myth_thread.h')
    ctx.floor('C10.3', 9)


def rule45_alloc(ctx, fl, v):
    ctx.doc('C10.4', 'key liveness mark: alloc stores next = -1 into the entry it returns; dealloc pushes an entry only after '
            'testing next == -1 and otherwise fails; the returned key is the entry\'s index in keys[]')
    ctx.doc('C10.5', 'no ABA on shared free lists: every pop (store/CAS of head := head->next) of the key free list executes in a '
            'lock region that also covers the pushes and the liveness test, or the structure has a single popper (C06.3)')
    a = ctx.need_fn(v, 'myth_tls_key_allocator_alloc')
    d = ctx.need_fn(v, 'myth_tls_key_allocator_dealloc')
    FREE = 'myth_tls_key_allocator.free'
    NEXT = 'myth_tls_key_entry.next'
    marks = [s for s in a.stores_to(NEXT) if const_int(a.strip(s.ops[0])) == -1 or
             (isinstance(a.strip(s.ops[0]), dict) and a.strip(s.ops[0]).get('ce') == 'inttoptr' and const_int(a.strip(s.ops[0])['ops'][0]) == -1)]
    ctx.ob('C10.4', 'alloc marks the key in use', len(marks) == 1, 'next := -1 on the entry handed out', loc=a.loc)
    heads = [l for l in a.loads_of(FREE)]
    for m in marks:
        ctx.ob('C10.4', 'alloc marks the entry it popped', bool(heads) and a.sources(a.ap(m.ops[1]).root) <= set(h.id for h in heads),
               'the entry marked is the list head that was removed', loc=m.loc)
    for val, anchor in ret_cases(a):
        k = const_int(val)
        if k == -1:
            ctx.ob('C10.4', 'alloc fails only when the list is empty', any(lib.guarded_by_null(a, h.id, anchor) for h in heads),
                   '-1 is returned only on the empty-list edge', loc=anchor.loc)
        elif isinstance(val, str):
            # (ke - keys) / 16
            ex = expr_str(a, val)
            ok = 'myth_tls_key_allocator.keys' in ex and ('sdiv' in ex or 'ashr' in ex)
            ctx.ob('C10.4', 'alloc returns the entry index', ok, 'the key is the popped entry\'s position in keys[]', loc=anchor.loc, detail=ex[:160])
            ctx.ob('C10.4', 'alloc returns a key only after marking it', bool(marks) and
                   not lib.reaches_point(a, a.entry_inst(), anchor, blocked=marks, include_start=True),
                   'no path reaches the key-returning exit without the in-use mark', loc=anchor.loc)
    tests = [ic for ic in d.order if ic.op == 'icmp' and ic.pred in ('eq', 'ne') and is_load_of(d, ic.ops[0], NEXT) and
             (const_int(d.strip(ic.ops[1])) == -1 or (isinstance(d.strip(ic.ops[1]), dict) and d.strip(ic.ops[1]).get('ce') == 'inttoptr'))]
    ctx.ob('C10.4', 'dealloc tests the in-use mark', len(tests) >= 1, 'next == -1 is tested', loc=d.loc)
    pushes = [s for s in d.stores_to(FREE)] + cas_on(d, FREE)
    for p in pushes:
        ctx.ob('C10.4', 'dealloc pushes only marked keys', any(d.on_edge(ic.id, ic.pred == 'eq', p) for ic in tests),
               'an entry enters the free list only on the edge next == -1 (no double delete, no delete of a free key)', loc=p.loc)
    ctx.ob('C10.4', 'dealloc pushes', len(pushes) >= 1, 'a deleted key returns to the free list', loc=d.loc)
    # ---- C10.5
    for f in (a, d):
        la = LockAnalysis(f)
        keys = la.keys_matching('myth_tls_key_allocator.lock') if 'myth_tls_key_allocator' in f.mod.structs and \
            any(x['name'] == 'lock' for x in f.mod.structs['myth_tls_key_allocator']['fields']) else []
        upd = [s for s in f.stores_to(FREE)] + cas_on(f, FREE)
        for u in upd:
            locked = bool(keys) and la.held_must(u, keys[0])
            is_pop = u.op == 'cmpxchg' and is_load_of(f, u.ops[2], NEXT) or (u.op == 'store' and is_load_of(f, u.ops[0], NEXT))
            ctx.ob('C10.5', '%s: free-list %s in a lock region' % (f.name, 'pop' if is_pop else 'push'), locked,
                   'a pop that installs head->next read earlier is ABA-prone when pops and pushes interleave; the free list '
                   'is modified only with the allocator lock held', loc=u.loc,
                   detail='' if locked else 'lock-free update of the shared free-list head')
        for l in f.loads_of(FREE) + (f.loads_of(NEXT) if f is d else []):
            ctx.ob('C10.5', '%s: list head / mark read under the lock' % f.name, bool(keys) and la.held_must(l, keys[0]),
                   'head and in-use mark are read inside the same lock region as the update', loc=l.loc)
        for r in f.exits():
            ctx.ob('C10.5', '%s: lock released at return' % f.name, not la.held_may(r), 'no lock held at return', loc=r.loc)
        ctx.ob('C10.5', '%s: balanced locking' % f.name, not la.double_unlock and not la.relock and not la.unheld_unlock, 'lock/unlock paired: every release is of a lock held on all paths reaching it', loc=f.loc)
    ctx.floor('C10.4', 7)
    ctx.floor('C10.5', 8)


def rule4_init_chain(ctx, fl):
    """myth_tls_key_allocator_init builds the free list inside keys[]: every link it stores points at a cell of the array, every cell
    gets a link or the terminator, the head is a cell.  Decided for the forward-loop form (keys[i].next = &keys[i + d] for i in a
    constant range, plus constant-index stores); another construction is recorded as not decided, never as a violation."""
    v = ctx.view(NATIVE, roots=['myth_tls_key_allocator_init'], stops=lib.SPIN_STOPS, flavour=fl)
    f = ctx.need_fn(v, 'myth_tls_key_allocator_init')
    NEXT = 'myth_tls_key_entry.next'
    KEYS = 'myth_tls_key_allocator.keys'
    ent = [x for x in v.structs.get('myth_tls_key_allocator', {}).get('fields', []) if x['name'] == 'keys']
    N = ent[0].get('nelem') if ent else None
    ctx.ob('C10.4', 'init: size of keys[] known', bool(N) and N > 1, 'array length from debug info', loc=f.loc)
    if not N or N <= 1:
        return

    def cell_index(ptr):
        """(kind, value): ('null',), ('const', k), ('iv', phi, offset) for &keys[k] / &keys[iv + offset] of the allocator a0, else None"""
        if isinstance(ptr, dict) and (ptr.get('null') or ptr.get('c') == 0):
            return ('null',)
        ap = f.ap(ptr)
        if f.strip(ap.root) != 'a0' or not ap.steps or ap.steps[0] != ('f', KEYS):
            return None
        idx = [s_ for s_ in ap.steps[1:] if s_[0] in ('i', 'p')]
        rest = [s_ for s_ in ap.steps[1:] if s_[0] == 'f']
        if len(idx) != 1 or (rest and rest != [('f', NEXT)]):
            return None
        k = idx[0][1]
        if isinstance(k, int):
            return ('const', k)
        a = {t: c for t, c in lib.affine(f, k).items() if c != 0}
        ts = [t for t in a if t != '']
        if not ts:
            return ('const', a.get('', 0))
        if len(ts) == 1 and a[ts[0]] == 1 and ts[0] in f.insts and f.insts[ts[0]].op == 'phi':
            return ('iv', ts[0], a.get('', 0))
        return None

    def iv_range(phi_id):
        """exact [lo, hi] of a loop counter: constant start, step +1, one exit test iv < B / iv <= B in the header"""
        ph = f.insts[phi_id]
        li = f.loop_of_block(ph.block.id)
        if li is None or f.loops[li]['header'] != ph.block.id or len(ph.d['incoming']) != 2:
            return None
        L = f.loops[li]
        init = [v_ for v_, b in ph.d['incoming'] if b not in L['blocks']]
        back = [v_ for v_, b in ph.d['incoming'] if b in L['blocks']]
        lo = const_int(init[0]) if init else None
        if lo is None or not back or {t: c for t, c in lib.affine_diff(f, back[0], phi_id).items() if c != 0} != {'': 1}:
            return None
        if len(L['exits']) != 1:
            return None
        for ic in f.blocks[L['header']].insts:
            if ic.op == 'icmp' and f.strip(ic.ops[0]) == phi_id and const_int(ic.ops[1]) is not None:
                B = const_int(ic.ops[1])
                if ic.pred in ('slt', 'ult'):
                    return (lo, B - 1, L)
                if ic.pred in ('sle', 'ule'):
                    return (lo, B, L)
        return None
    sts = [st for st in f.stores_to(NEXT)]
    covered, undecided, bad = set(), [], []
    for st in sts:
        a, val = cell_index(st.ops[1]), cell_index(st.ops[0])
        if a is None or val is None:
            undecided.append(st)
            continue
        if a[0] == 'const':
            cells = [a[1]]
            vals = [val[1]] if val[0] == 'const' else ([None] if val[0] == 'null' else None)
            if vals is None:
                undecided.append(st)
                continue
        else:
            r = iv_range(a[1])
            if r is None or not (val[0] == 'null' or (val[0] == 'iv' and val[1] == a[1]) or val[0] == 'const') or \
                    st.block.id not in r[2]['blocks'] or not f.dominates_f(st, f.blocks[r[2]['latches'][0]].insts[-1]):
                undecided.append(st)
                continue
            cells = list(range(r[0] + a[2], r[1] + a[2] + 1))
            vals = [None] if val[0] == 'null' else ([val[1]] if val[0] == 'const' else [r[0] + val[2], r[1] + val[2]])
        covered |= set(cells)
        for c_ in cells[:1] + cells[-1:]:
            if c_ < 0 or c_ >= N:
                bad.append((st, 'cell %d written' % c_))
        for v_ in vals:
            if v_ is not None and (v_ < 0 or v_ >= N):
                bad.append((st, 'link to keys[%d]' % v_))
    ctx.ob('C10.4', 'init: every link stored points at a cell of keys[0..%d]' % (N - 1), not bad,
           'a link one past the array makes the %d-th myth_key_create succeed with an index no thread-specific tree can hold and the '
           'allocator write past its own table' % (N + 1), loc=(bad[0][0].loc if bad else f.loc), detail='; '.join(b_[1] for b_ in bad[:3]))
    if undecided or not sts:
        ctx.note('C10.4 init chain: %d store(s) to next in a form the rule does not decide (no claim about cell coverage)' % len(undecided))
    else:
        missing = [k for k in range(N) if k not in covered]
        ctx.ob('C10.4', 'init: every cell of keys[] gets a link or the terminator', not missing,
               'a cell whose next is never written ends the free list with whatever the memory held', loc=f.loc,
               detail='never written: keys[%s]' % ', '.join(str(k) for k in missing[:4]))
    fr = f.stores_to('myth_tls_key_allocator.free')
    for st in fr:
        c_ = cell_index(st.ops[0])
        if c_ is not None and c_[0] == 'const':
            ctx.ob('C10.4', 'init: the free list starts at a cell of keys[]', 0 <= c_[1] < N, 's->free = &s->keys[0]', loc=st.loc)


def rule2_levels(ctx, v):
    """the node allocated for the last level is a leaf (16 cleared entries), the ones above are internal nodes"""
    f = ctx.need_fn(v, 'myth_tls_tree_set')
    leafs = [c for c in call_sites(f, 'myth_tls_tree_node_alloc_leaf') if f.in_loop(c)]
    nodes = [c for c in call_sites(f, 'myth_tls_tree_node_alloc_node') if f.in_loop(c)]
    ctx.ob('C10.2', 'myth_tls_tree_set: missing children are allocated inside the level walk', len(leafs) == 1 and len(nodes) == 1,
           'one leaf and one internal allocation site in the loop', loc=f.loc)
    if len(leafs) != 1 or len(nodes) != 1:
        return
    lp = lib.loop_containing(f, leafs[0])
    bound = None
    ctr = None
    for ic in f.order:
        if ic.op == 'icmp' and ic.pred == 'slt' and ic.block.id == lp['header'] and const_int(ic.ops[1]) is not None:
            bound, ctr = const_int(ic.ops[1]), f.strip(ic.ops[0])
    ok = False
    why = 'no test of the level counter against depth - 1'
    for ic in f.order:
        if ic.op == 'icmp' and isinstance(ic.ops[0], str) and f.strip(ic.ops[0]) == ctr and ic.block.id in lp['blocks'] and ic.block.id != lp['header']:
            c = const_int(ic.ops[1])
            last_on_false = (ic.pred == 'slt' and c == bound - 1) or (ic.pred == 'sle' and c == bound - 2) or (ic.pred == 'ne' and c == bound - 1)
            last_on_true = (ic.pred in ('sge',) and c == bound - 1) or (ic.pred == 'sgt' and c == bound - 2) or (ic.pred == 'eq' and c == bound - 1)
            for br in f.users(ic.id):
                if br.op == 'br' and 'cond' in br.d and (last_on_false or last_on_true):
                    last, upper = (br.d['f'], br.d['t']) if last_on_false else (br.d['t'], br.d['f'])
                    if f.edge_dominates(br.block.id, last, leafs[0]) and f.edge_dominates(br.block.id, upper, nodes[0]):
                        ok, why = True, ''
                    else:
                        why = 'leaf / internal allocation sit on the wrong sides of the level test'
    ctx.ob('C10.2', 'myth_tls_tree_set: last level gets a leaf, upper levels internal nodes', ok and bound is not None,
           'an internal node used as a leaf has only 4 of its 16 slots cleared: the other 12 read back whatever the memory held', loc=leafs[0].loc,
           detail=why)


def rule6_reuse(ctx, v):
    ctx.doc('C10.6', 'a key index handed out again after a delete must not expose, in a thread that lived across the delete, the value '
            'that thread stored under the deleted key ("a thread that never stored reads NULL"): myth_tls_tree_get validates the slot '
            'against the current incarnation of the key (a field of the key table compared with a field of the slot) before returning it')
    g = ctx.need_fn(v, 'myth_tls_tree_get')
    vals = g.loads_of('myth_tls_entry.value')
    ctx.ob('C10.6', 'get returns the slot value', len(vals) >= 1, 'n->entries[idx].value', loc=g.loc)
    ok = False
    for ic in g.order:
        if ic.op != 'icmp':
            continue
        srcs = set()
        for o in ic.ops:
            for k in g.sources(o, through_arith=True):
                i = g.insts.get(k)
                if i is not None and i.op == 'load':
                    fld = g.field(i)
                    if fld.startswith('myth_tls_key_entry.'):
                        srcs.add('key')
                    elif fld.startswith('myth_tls_entry.') and fld != 'myth_tls_entry.value':
                        srcs.add('slot')
        if srcs == {'key', 'slot'}:
            ok = True
    ctx.ob('C10.6', 'myth_tls_tree_get: value of a recycled index is validated against the key incarnation', ok,
           'nothing ties a stored value to the incarnation of the key it was stored under; key deletion does not visit the threads',
           loc=vals[0].loc if vals else g.loc,
           detail='the slot has the single member myth_tls_entry.value and the key table is not consulted by get/set')
    ctx.floor('C10.6', 2)


def run(ctx):
    for fl in flavours(ctx):
        ctx.unit = fl
        ctx.doc('C10.7', 'native API forwarding: each public entry point of this property reaches the implementation of the same name with its parameters in order and returns its result (sibling slips such as trylock -> lock, signal -> broadcast, swapped arguments)')
        ctx.attempt(lib.native_forwarding, ctx, 'C10.7', fl, lambda n: n in ('myth_key_create', 'myth_key_delete', 'myth_setspecific', 'myth_getspecific'), floor=6)
        v = ctx.view(NATIVE, roots=['myth_tls_tree_get', 'myth_tls_tree_set', 'myth_tls_key_allocator_alloc',
                                    'myth_tls_key_allocator_dealloc', 'myth_tls_tree_node_alloc_leaf', 'myth_tls_tree_node_alloc_node'],
                     stops=('myth_tls_tree_node_alloc', 'myth_malloc') + lib.SPIN_STOPS, flavour=fl)
        ctx.attempt(rule1_range, ctx, v)
        ctx.attempt(rule2_decomp, ctx, v)
        ctx.attempt(rule3_follows, ctx, fl)
        ctx.attempt(rule45_alloc, ctx, fl, v)
        ctx.attempt(rule4_init_chain, ctx, fl)
        ctx.attempt(rule6_reuse, ctx, v)
        from . import c11
        ctx.doc('C10.8', 'values stay with the thread until it is gone: the exit walk resets a slot only where the key has a destructor, so '
                'the value of a destructor-less key is still what the thread stored while the destructors of its other keys run')
        v11 = ctx.view(NATIVE, roots=['myth_tls_call_destructors_rec'], stops=('myth_tls_tree_node_free', 'myth_free') + lib.SPIN_STOPS, flavour=fl)
        ctx.attempt(c11.rule_clear_guard, ctx, v11, 'C10.8')
        ctx.floor('C10.8', 2)
        ctx.attempt(rule2_levels, ctx, v)


TLS = 'src/myth_tls_func.h'
MUTANTS = [
    {'name': 'exit walk resets every slot it visits, destructor or not (seed4 C10/m2)', 'expect': 'C10.8',
     'edits': [(TLS, "      if (destructor) {\n\tn->entries[i].value = 0;\n\tdestructor(val);", "      n->entries[i].value = 0;\n      if (destructor) {\n\tdestructor(val);")]},
    {'name': 'key allocator init chains one cell too far and drops the terminator (seed3 C10/m2)', 'expect': 'C10.4',
     'edits': [(TLS, "  for (i = 0; i < myth_tls_n_keys - 1; i++) {\n    s->keys[i].next = &s->keys[i + 1];\n  }\n  s->keys[myth_tls_n_keys - 1].next = 0;", "  for (i = 0; i < myth_tls_n_keys; i++) {\n    s->keys[i].next = &s->keys[i + 1];\n  }")]},
    {'name': 'key allocator dealloc releases the lock on the rejected-index path too (seed3 C10/m3)', 'expect': 'C10.5',
     'edits': [(TLS, "  if (key < 0 || key >= myth_tls_n_keys) {\n    return (myth_tls_destructor_fun_t)-1;\n  }\n  myth_tls_key_entry_t * ke = &s->keys[key];", "  if (key < 0 || key >= myth_tls_n_keys) {\n    myth_spin_unlock_body(&s->lock);\n    return (myth_tls_destructor_fun_t)-1;\n  }\n  myth_tls_key_entry_t * ke = &s->keys[key];")]},
    {'name': 'native myth_setspecific forwards a NULL value', 'expect': 'C10.7',
     'edits': [('src/myth_if_native.c', "  return myth_setspecific_body(key, pointer);", "  return myth_setspecific_body(key, 0);")]},
    {'name': 'tree_set allocates an internal node for the leaf level (sweep M0599)', 'expect': 'C10.2',
     'edits': [(TLS, "      if (i < myth_tls_tree_depth - 1) {\n\tc = myth_tls_tree_node_alloc_node(t);", "      if (!(i < myth_tls_tree_depth - 1)) {\n\tc = myth_tls_tree_node_alloc_node(t);")]},
    {'name': 'set accepts idx == n_keys', 'expect': 'C10.1',
     'edits': [(TLS, "  if (idx < 0 || idx >= myth_tls_n_keys) {\n    return EINVAL;\n  }", "  if (idx < 0 || idx > myth_tls_n_keys) {\n    return EINVAL;\n  }")]},
    {'name': 'get accepts a smaller range than set (seed C10/m3)', 'expect': 'C10.1',
     'edits': [(TLS, "  if (idx < 0 || idx >= myth_tls_n_keys) {\n    return 0;\n  }", "  if (idx < 0 || idx >= 256) {\n    return 0;\n  }")]},
    {'name': 'dealloc drops the lower bound', 'expect': 'C10.1',
     'edits': [(TLS, "  if (key < 0 || key >= myth_tls_n_keys) {\n    return (myth_tls_destructor_fun_t)-1;", "  if (key >= myth_tls_n_keys) {\n    return (myth_tls_destructor_fun_t)-1;")]},
    {'name': 'get masks with n_children instead of n_children-1', 'expect': 'C10.2',
     'edits': [(TLS, "    int cidx = (idx >> shift) & (myth_tls_tree_node_n_children - 1);\n    assert(n->type == myth_tls_tree_node_type_internal);\n    n = n->children[cidx];", "    int cidx = (idx >> shift) & (myth_tls_tree_node_n_children);\n    assert(n->type == myth_tls_tree_node_type_internal);\n    n = n->children[cidx];")]},
    {'name': 'set uses a different per-level shift than get', 'expect': 'C10.2',
     'edits': [(TLS, "      * myth_tls_tree_node_log_n_children\n      + myth_tls_tree_node_log_n_entries_in_leaf;\n    int cidx = (idx >> shift) & (myth_tls_tree_node_n_children - 1);\n    assert(n->type == myth_tls_tree_node_type_internal);\n    myth_tls_tree_node_t * c = n->children[cidx];",
                "      * myth_tls_tree_node_log_n_children\n      + myth_tls_tree_node_log_n_children;\n    int cidx = (idx >> shift) & (myth_tls_tree_node_n_children - 1);\n    assert(n->type == myth_tls_tree_node_type_internal);\n    myth_tls_tree_node_t * c = n->children[cidx];")]},
    {'name': 'fresh leaf clears only the declared entry (seed C10/m2)', 'expect': 'C10.2',
     'edits': [(TLS, "  for (i = 0; i < myth_tls_tree_node_n_entries_in_leaf; i++) {\n    n->entries[i].value = 0;\n  }\n  return n;", "  memset(n->entries, 0, sizeof(n->entries));\n  (void)i;\n  return n;")]},
    {'name': 'tree not reset at creation', 'expect': 'C10.3',
     'edits': [('src/myth_sched_func.h', "  myth_tls_tree_init(new_thread->tls);\n\n#if MYTH_SPLIT_STACK_DESC /* default */", "\n#if MYTH_SPLIT_STACK_DESC /* default */")]},
    {'name': 'getspecific looks at the key allocator\'s tree of another thread', 'expect': 'C10.3',
     'edits': [(TLS, "  myth_thread_t th = myth_self_body();\n  return myth_tls_tree_get(th->tls, key);", "  myth_thread_t th = myth_self_body();\n  return myth_tls_tree_get(th->join_thread ? th->join_thread->tls : th->tls, key);")]},
    {'name': 'dealloc skips the in-use test', 'expect': 'C10.4',
     'edits': [(TLS, "  if (ke->next != (myth_tls_key_entry_t *)-1) {\n    myth_spin_unlock_body(&s->lock);\n    return (myth_tls_destructor_fun_t)-1;\n  }", "")]},
    {'name': 'alloc forgets the in-use mark', 'expect': 'C10.4',
     'edits': [(TLS, "    ke->next = (myth_tls_key_entry_t *)-1;\n    ke->destructor = destructor;", "    ke->destructor = destructor;")]},
    {'name': 'free-list pop back to lock-free CAS (original defect D5)', 'expect': 'C10.5',
     'edits': [(TLS, "  myth_spin_lock_body(&s->lock);\n  myth_tls_key_entry_t * ke = s->free;\n  if (ke) {\n    s->free = ke->next;",
                "  myth_tls_key_entry_t * ke = s->free;\n  while (ke && !__sync_bool_compare_and_swap(&s->free, ke, ke->next)) ke = s->free;\n  myth_spin_lock_body(&s->lock);\n  if (ke) {")]},
    {'name': 'dealloc pushes outside the lock', 'expect': 'C10.5',
     'edits': [(TLS, "  ke->next = s->free;\n  s->free = ke;\n  myth_spin_unlock_body(&s->lock);\n  return f;", "  myth_spin_unlock_body(&s->lock);\n  ke->next = s->free;\n  s->free = ke;\n  return f;")]},
]
