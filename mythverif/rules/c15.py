"""C15 - initialisation, worker count, finalisation and configuration parsing."""
import re

from .. import lib
from ..lib import (null_tests, call_sites, same_value, describe, is_load_of, ret_cases, on_cas_success, guard_interval, expr_str, affine)
from ..ir import const_int, iter_refs

META = {
    'explanation': 'Init/config obligations: (1) myth_init_ex_body_really is called only on the success edge of the CAS '
                   'uninit -> initializing, "initialized" is stored after it, every other path returns only after waiting for '
                   '"initialized"; myth_fini_body stores "uninit" last, after joining workers 1..n-1 and after migrating home; '
                   '(2) taint analysis from getenv over the inlined CPU-list parser and the environment defaults: no '
                   'abort/exit/assert is control-dependent on environment data; (3) every store into the CPU tables is guarded '
                   'by an index bound not larger than the declared table length; (4) "not positive -> default" decisions '
                   'compare the sign-extended atoi result with a signed predicate; (5) the env array is sized by the same '
                   'worker count that bounds the creation loop, each worker records the rank it was created with, and the '
                   'finalisation path re-obtains the env after migrating.'
                   " C15.6: every loop of the inlined CPU-list parser and of the fill code has a loop-carried cursor or counter that the exit test reads and that grows by at least one on every way round the loop (necessary for 'no hang on malformed input').",
    'not_decided': 'behaviour over arbitrary init/fini histories, actual worker counts at run time, hangs caused by the '
                   'environment (only aborts are decided)',
    'assumptions': ['getenv is the only channel for the configuration variables'],
    'technique': 'static analysis: taint propagation + CFG dominance + guard-interval rules over LLVM IR',
}
META['explanation'] += ' Every division by a run-time CPU count in myth_bind_worker.c is taken where the count was tested non-zero (C15.3).'
INITF = 'myth_init.c'
BINDF = 'myth_bind_worker.c'
NATIVE_C = 'myth_if_native.c'
UNINIT, INITIALIZING, INITIALIZED = 0, 1, 2
STATE = 'g_myth_init_state'


def flavours(ctx):
    return ['vanilla', 'ld', 'dl'] if ctx.tier == 'thorough' else ['vanilla']


def gstate_accesses(f, op):
    return [i for i in f.order if i.op == op and isinstance(i.ptr, dict) and i.ptr.get('g') == STATE]


def rule1_init(ctx, fl):
    ctx.doc('C15.1', 'myth_init_ex_body: CAS(g_myth_init_state: uninit -> initializing) elects the initialiser; '
            'myth_init_ex_body_really only on its success edge; state := initialized after it; all other returns are dominated '
            'by state == initialized (fast path or the wait loop, which polls a volatile load against initialized and yields); '
            'myth_fini_body: state := uninit is the last state write, after the joins')
    v = ctx.view(INITF, roots=['myth_init_ex_body', 'myth_fini_body'],
                 stops=('myth_init_ex_body_really', 'myth_fini_body_really', 'myth_startpoint_exit_ex_body', 'real_sched_yield',
                        'real_pthread_join', 'myth_log_add_context_switch'), flavour=fl)
    f = ctx.need_fn(v, 'myth_init_ex_body')
    cas = [c for c in f.order if c.op == 'cmpxchg' and isinstance(c.ops[0], dict) and c.ops[0].get('g') == STATE]
    ctx.ob('C15.1', 'election CAS', len(cas) == 1 and const_int(cas[0].ops[1]) == UNINIT and const_int(cas[0].ops[2]) == INITIALIZING,
           'cmpxchg(g_myth_init_state: uninit -> initializing)', loc=f.loc)
    really = call_sites(f, 'myth_init_ex_body_really')
    ctx.ob('C15.1', 'one real initialisation site', len(really) == 1 and not f.in_loop(really[0]), 'single call, not in a loop', loc=f.loc)
    for r in really:
        ctx.ob('C15.1', 'initialisation only by the elected thread', any(on_cas_success(f, c, r) for c in cas),
               'myth_init_ex_body_really runs only on the CAS success edge', loc=r.loc)
    done = [s for s in gstate_accesses(f, 'store') if const_int(s.ops[0]) == INITIALIZED]
    ctx.ob('C15.1', 'publishes initialized', len(done) == 1 and done[0].volatile and all(f.dominates_f(r, done[0]) for r in really),
           'state := initialized after the real initialisation', loc=f.loc)
    ctx.ob('C15.1', 'no other state store', len(gstate_accesses(f, 'store')) == len(done), 'only the completion store writes the state', loc=f.loc)
    tests = [ic for ic in f.order if ic.op == 'icmp' and ic.pred in ('eq', 'ne') and const_int(ic.ops[1]) == INITIALIZED and
             all(k in f.insts and f.insts[k] in gstate_accesses(f, 'load') and f.insts[k].volatile for k in f.sources(ic.ops[0])) and
             f.sources(ic.ops[0])]
    ctx.ob('C15.1', 'waits compare with initialized', len(tests) >= 2, 'fast path and wait loop test state == initialized', loc=f.loc)
    from .c14 import reaches_without_completion
    for r in f.exits():
        ok = not reaches_without_completion(f, r, done, tests)
        ctx.ob('C15.1', 'no return before initialisation completed', ok,
               'every path to return passes the initialized store or a state == initialized edge', loc=r.loc)
    for t in tests:
        lp = lib.loop_containing(f, t)
        if lp is not None:
            ys = [y for y in call_sites(f, 'real_sched_yield') if y.block.id in lp['blocks']]
            h = f.blocks[lp['header']].insts[0]
            ctx.ob('C15.1', 'wait loop yields the OS thread and re-reads the state', bool(ys) and h not in f.reachable_from(h, blocked=ys),
                   'losers of the election poll with sched_yield', loc=t.loc)
    # the inline guard every API entry point goes through: it skips myth_init_ex_body only where the state was read as
    # `initialized` (hand mutant r6: `!= uninit` lets a second caller through while the first is still initialising)
    ev = ctx.view(NATIVE_C, roots=['myth_ensure_init_ex'], stops=('myth_init_ex_body',), flavour=fl)
    e = ctx.need_fn(ev, 'myth_ensure_init_ex')
    ecalls = call_sites(e, 'myth_init_ex_body')
    etests = [ic for ic in e.order if ic.op == 'icmp' and ic.pred in ('eq', 'ne') and const_int(ic.ops[1]) == INITIALIZED and
              e.sources(ic.ops[0]) and all(k in e.insts and e.insts[k] in gstate_accesses(e, 'load') for k in e.sources(ic.ops[0]))]
    ctx.ob('C15.1', 'ensure_init: falls back to myth_init_ex_body', len(ecalls) == 1, 'the guard calls the initialiser', loc=e.loc)
    from .c14 import reaches_without_completion as _rwc
    for r in e.exits():
        ctx.ob('C15.1', 'ensure_init: skips initialisation only when the state is initialized', not _rwc(e, r, ecalls, etests),
               'every path to return passes myth_init_ex_body (which waits) or a state == initialized edge: "not uninit" is also true '
               'while another thread is half-way through initialisation', loc=r.loc)
    g = ctx.need_fn(v, 'myth_fini_body')
    st = [s for s in gstate_accesses(g, 'store')]
    ctx.ob('C15.1', 'fini: resets to uninit', len(st) == 1 and const_int(st[0].ops[0]) == UNINIT, 'state := uninit', loc=g.loc)
    joins = call_sites(g, 'real_pthread_join')
    fr = call_sites(g, 'myth_fini_body_really')
    ex = call_sites(g, 'myth_startpoint_exit_ex_body')
    for s in st:
        ctx.ob('C15.1', 'fini: uninit stored last', all(g.dominates_f(x, s) for x in fr + ex) and bool(fr) and bool(ex) and
               not [x for x in g.reachable_from(s) if x.op == 'call' and x.callee and not x.d.get('intrinsic')],
               'the state is reset only after everything has been torn down', loc=s.loc)
    # the exit path tells every worker to stop before the OS threads are joined
    have_notify = ctx.ssa(INITF, fl).fn('myth_notify_workers_exit') is not None     # static: vanishes when nobody calls it
    xv = ctx.view(INITF, roots=['myth_startpoint_exit_ex_body'] + (['myth_notify_workers_exit'] if have_notify else []),
                  stops=('myth_notify_workers_exit', 'myth_cleanup_worker', 'myth_queue_trypass', 'myth_wakeup_all_force'), flavour=fl)
    xb = ctx.need_fn(xv, 'myth_startpoint_exit_ex_body')
    nt = call_sites(xb, 'myth_notify_workers_exit')
    ctx.ob('C15.1', 'exit path raises the workers\' exit flags on every path', len(nt) == 1 and xb.always_passes(xb.entry_inst(), nt),
           'myth_notify_workers_exit(): workers that are never told to stop keep scheduling and the joins of myth_fini never return', loc=xb.loc)
    nf = xv.fn('myth_notify_workers_exit') if have_notify else None
    fl_st = [st for st in nf.stores_to('myth_running_env.exit_flag') if const_int(st.ops[0]) == 1] if nf is not None else []
    okn = False
    for st in fl_st:
        lp = lib.loop_containing(nf, st)
        ix = [x for x in nf.ap(st.ops[1]).steps if x[0] in ('p', 'i')]
        if lp is None or not ix or not isinstance(ix[0][1], str):
            continue
        for ic in nf.order:
            if ic.op == 'icmp' and ic.pred == 'slt' and ic.block.id == lp['header'] and 'n_workers' in expr_str(nf, ic.ops[1]):
                ph = nf.get(nf.strip(ic.ops[0]))
                if ph is not None and ph.op == 'phi' and any(const_int(v_) == 0 for v_, b_ in ph.d['incoming']) and \
                        ph.id in nf.sources(ix[0][1], through_arith=True) | {nf.strip(ix[0][1])}:
                    okn = True
    ctx.ob('C15.1', 'notify: exit flag raised for every worker 0..n_workers-1', okn, 'for (i = 0; i < n_workers; i++) g_envs[i].exit_flag = 1',
           loc=nf.loc if nf is not None else xb.loc)
    ctx.ob('C15.1', 'fini: migrates home before joining', len(ex) == 1 and const_int(ex[0].args[0]) == 0 and
           all(g.dominates_f(ex[0], j) for j in joins), 'the main thread returns to worker 0 first', loc=g.loc)
    for j in joins:
        lp = lib.loop_containing(g, j)
        lo = hi = None
        ok = False
        if lp is not None:
            # loop i = 1 .. n_workers-1
            for ic in g.order:
                if ic.op == 'icmp' and ic.pred == 'slt' and ic.block.id == lp['header']:
                    ph = g.get(g.strip(ic.ops[0]))
                    nw = ic.ops[1]
                    if ph is not None and ph.op == 'phi' and any(const_int(val) == 1 for val, b in ph.d['incoming']) and \
                            'n_workers' in expr_str(g, nw):
                        ok = True
        ctx.ob('C15.1', 'fini: joins workers 1..n_workers-1', ok, 'every worker OS thread other than the caller\'s is joined', loc=j.loc)
    ctx.ob('C15.1', 'fini: has join', len(joins) == 1, 'join site present', loc=g.loc)
    ctx.floor('C15.1', 12)


# ---------------------------------------------------------------- taint
def taint(f, sources):
    """set of tainted SSA ids: derived from `sources` through arithmetic, casts, phi, select, loads via
    tainted pointers, and loads of struct fields / allocas into which a tainted value was stored"""
    t = set(sources)
    fields = set()
    changed = True
    while changed:
        changed = False
        for ins in f.order:
            if ins.id in t:
                continue
            hit = False
            if ins.op == 'load':
                p = ins.ops[0]
                if isinstance(p, str) and p in t:
                    hit = True
                else:
                    ap = f.ap(p)
                    if (refk(ap), tuple(ap.fields)) in fields:
                        hit = True
            elif ins.op == 'store':
                v_, p = ins.ops
                if isinstance(v_, str) and v_ in t:
                    ap = f.ap(p)
                    k = (refk(ap), tuple(ap.fields))
                    if k not in fields:
                        fields.add(k)
                        changed = True
                continue
            elif ins.op == 'call':
                if ins.callee in ('atoi', 'atol', 'strtol', 'strtoul', 'strlen', 'isdigit', 'toupper', 'tolower') or \
                        (ins.callee or '').startswith('__ctype'):
                    hit = any(isinstance(a, str) and a in t for a in ins.args)
            elif ins.op in ('br', 'switch', 'ret'):
                continue
            else:
                hit = any(r in t for r in iter_refs(ins.d))
            if hit:
                t.add(ins.id)
                changed = True
    return t


def refk(ap):
    from ..ir import refkey
    return refkey(ap.fn.strip(ap.root))


def rule2_noabort(ctx, fl):
    ctx.doc('C15.2', 'taint from getenv (inlined parser closure): no call of abort/exit/__assert_fail is control-dependent on a '
            'branch whose condition is derived from the environment string; checked for the CPU-list parser and the '
            'environment defaults of stack size, guard size, worker count, binding, child-first')
    targets = [(BINDF, ['myth_get_available_cpus']), (INITF, ['myth_globalattr_init_body'])]
    nsrc = 0
    for file, roots in targets:
        v = ctx.view(file, roots=roots, stops=('getenv', 'atoi', 'fprintf', 'fputc', 'sched_getaffinity', 'sysconf', 'getpid'), flavour=fl)
        for name in roots:
            f = ctx.need_fn(v, name)
            src = [c.id for c in call_sites(f, 'getenv')]
            nsrc += len(src)
            ctx.ob('C15.2', name + ': reads the environment', len(src) >= 1, 'getenv call sites found', loc=f.loc)
            t = taint(f, src)
            # __ctype_b_loc table lookups indexed by tainted characters are tainted
            noret = [c for c in f.order if f.is_noreturn(c) and c.op == 'call']
            for n_ in noret:
                dep = None
                for br in f.order:
                    if br.op == 'br' and 'cond' in br.d and isinstance(br.d['cond'], str) and br.d['cond'] in t and br.d['t'] != br.d['f']:
                        for pol, succ in ((True, br.d['t']), (False, br.d['f'])):
                            if f.edge_dominates(br.block.id, succ, n_):
                                dep = br
                ctx.ob('C15.2', '%s: %s at %s not decided by environment data' % (name, n_.callee, n_.inl[0] if n_.inl else name),
                       dep is None, 'a malformed environment value must be ignored (with a diagnostic), never abort the process',
                       loc=n_.loc, detail='' if dep is None else 'control-dependent on the tainted branch at %s' % dep.loc)
            ctx.ob('C15.2', name + ': tainted values tracked', len(t) > len(src), 'taint propagated beyond the getenv results', loc=f.loc)
    ctx.floor('C15.2', 4)


def rule3_bounds(ctx, fl):
    ctx.doc('C15.3', 'every store into myth_cpu_list[] / worker_cpu[] is dominated by a guard index < n with n a constant not larger '
            'than the declared array length (the parser\'s capacity argument is the table size)')
    v = ctx.view(BINDF, roots=['myth_get_available_cpus'], stops=('getenv', 'fprintf', 'fputc', 'sched_getaffinity', 'sysconf', 'getpid'),
                 flavour=fl)
    f = ctx.need_fn(v, 'myth_get_available_cpus')
    n = 0
    for st in f.order:
        if st.op != 'store':
            continue
        ap = f.ap(st.ops[1])
        r = ap.root
        if not (isinstance(r, dict) and r.get('g') in ('myth_cpu_list', 'worker_cpu')):
            # stores through il->a (pointer to the table) : root may be the global after inlining; otherwise via load
            continue
        g = v.globals.get(r['g'], {})
        m = re.match(r'\[(\d+) x i32\]', g.get('ty', ''))
        length = int(m.group(1)) if m else None
        idx = [s for s in ap.steps if s[0] in ('i', 'p')]
        if not idx or not isinstance(idx[-1][1], str):
            continue
        if not st.from_fn('int_list_add'):
            # the fill loops copy at most as many entries as the parser produced / as CPUs exist; only the parser's
            # own output store is driven by the environment string
            continue
        n += 1
        lo, hi = guard_interval(f, idx[-1][1], st)
        # loops i = 0; i < n: the phi starts at 0 and only grows
        ph = f.get(f.strip(idx[-1][1]))
        nonneg = lo is not None and lo >= 0
        if not nonneg and ph is not None and ph.op == 'phi':
            nonneg = all((const_int(val) or 0) >= 0 if const_int(val) is not None else True for val, b in ph.d['incoming'])
        ok = length is not None and hi is not None and hi <= length - 1 and nonneg
        if not ok and length is not None:
            # bound given by another variable proven <= length (n_specified_cpus <= capacity)
            ok = bounded_by_var(f, idx[-1][1], st, length)
        ctx.ob('C15.3', 'store into %s[] bounded (%s)' % (r['g'], st.inl[0] if st.inl else f.name), ok,
               'writes into the CPU tables stay inside the %s-entry arrays for every environment value' % length, loc=st.loc,
               detail='index range [%s, %s], table length %s' % (lo, hi, length))
    ctx.ob('C15.3', 'parser output stores found', n >= 1, 'the inlined int_list_add stores into the CPU table were enumerated', loc=f.loc)
    # the number of usable CPUs is an input (MYTH_CPU_LIST intersected with the affinity mask may be empty): every division or
    # remainder by a run-time value in this unit is taken only where that value was tested non-zero (seed6 C15/m1)
    mb = ctx.ssa(BINDF, fl)
    ndiv = 0
    for g in mb.functions.values():
        for dv in g.order:
            if dv.op not in ('srem', 'urem', 'sdiv', 'udiv') or const_int(dv.ops[1]) is not None:
                continue
            ndiv += 1
            d = dv.ops[1]
            lo, hi = guard_interval(g, d, dv)
            ok = (lo is not None and lo >= 1) or (hi is not None and hi <= -1)
            di = g.insts.get(g.strip(d)) if isinstance(d, str) else None
            if not ok and di is not None and di.op == 'load' and isinstance(di.ops[0], dict) and di.ops[0].get('g') and not di.volatile:
                gname = di.ops[0]['g']
                written = [st for st in g.order if st.op == 'store' and isinstance(g.ap(st.ops[1]).root, dict) and g.ap(st.ops[1]).root.get('g') == gname]
                for ic in g.order:
                    if ic.op != 'icmp' or const_int(ic.ops[1]) is None:
                        continue
                    li = g.insts.get(g.strip(ic.ops[0])) if isinstance(ic.ops[0], str) else None
                    if li is None or li.op != 'load' or not isinstance(li.ops[0], dict) or li.ops[0].get('g') != gname or written:
                        continue
                    c0 = const_int(ic.ops[1])
                    nz_true = (ic.pred == 'ne' and c0 == 0) or (ic.pred == 'sgt' and c0 >= 0) or (ic.pred == 'sge' and c0 >= 1)
                    nz_false = (ic.pred == 'eq' and c0 == 0) or (ic.pred == 'sle' and c0 >= 0) or (ic.pred == 'slt' and c0 >= 1)
                    if (nz_true and g.on_edge(ic.id, True, dv)) or (nz_false and g.on_edge(ic.id, False, dv)):
                        # together with a lower bound (assert / earlier test) or on its own for != 0
                        if ic.pred in ('ne', 'eq', 'sgt', 'sge', 'sle', 'slt'):
                            ok = True
            ctx.ob('C15.3', '%s: divisor %s tested non-zero' % (g.name, describe(g, d)), ok,
                   'a CPU list that names no usable CPU leaves the count at 0: rank % count (or / count) is evaluated only where the '
                   'count was tested non-zero, otherwise initialisation dies with SIGFPE on a well-formed setting', loc=dv.loc)
    ctx.ob('C15.3', 'divisions by run-time values enumerated', ndiv >= 1, 'rank % n_available_cpus found', loc='src/' + BINDF, detail=str(ndiv))
    ctx.floor('C15.3', 4)


def bounded_by_var(f, idx, at, length):
    """idx < V on an edge dominating `at`, where every definition of V is itself <= length (constants, parser result
    bounded by its capacity, sysconf result clamped ...).  Conservative: only constants and phis of constants/bounded loads."""
    for ic in f.order:
        if ic.op == 'icmp' and ic.pred == 'slt' and f.sources(ic.ops[0]) == f.sources(idx) and f.on_edge(ic.id, True, at):
            bound = ic.ops[1]
            vals = f.sources(bound)
            okall = True
            for k in vals:
                if k.startswith('{'):
                    import json
                    c = json.loads(k).get('c')
                    if c is None or c > length:
                        okall = False
                else:
                    ins = f.insts.get(k)
                    # il->i (count of parsed entries) is only incremented under i < n
                    if ins is not None and ins.op == 'load' and f.field(ins) in ('int_list.i',):
                        continue
                    if ins is not None and ins.op == 'call' and ins.callee == 'sysconf':
                        okall = False  # number of online CPUs is not bounded by the table
                    else:
                        okall = False
            if okall:
                return True
    return False


# environment variables documented for each default (README / docs: MYTH_WORKER_NUM is the superseded spelling)
# decimal parsers with a signed result (strtoul would turn the <= 0 test into == 0)
PARSERS = ('atoi', 'atol', 'atoll', 'strtol', 'strtoll')
ENVNAMES = {'myth_globalattr_default_stacksize': ['MYTH_DEF_STKSIZE'], 'myth_globalattr_default_guardsize': ['MYTH_DEF_GUARDSIZE'],
            'myth_globalattr_default_num_workers': ['MYTH_NUM_WORKERS', 'MYTH_WORKER_NUM']}


def rule4_attr_defined(ctx, fl):
    """myth_globalattr_init_body hands out an attribute object whose every field has a defined value, each default-valued field
    from the function that computes that field's default"""
    v = ctx.view(INITF, roots=['myth_globalattr_init_body'],
                 stops=tuple('myth_globalattr_default_' + n for n in ('stacksize', 'guardsize', 'num_workers', 'bind_workers', 'child_first')),
                 flavour=fl)
    f = ctx.need_fn(v, 'myth_globalattr_init_body')
    fields = [x['name'] for x in v.structs.get('myth_globalattr_t', {}).get('fields', [])]
    ctx.ob('C15.4', 'global attribute fields known', len(fields) >= 6, 'struct layout from debug info', loc=f.loc)
    DEF = {'stacksize': 'stacksize', 'guardsize': 'guardsize', 'n_workers': 'num_workers', 'bind_workers': 'bind_workers', 'child_first': 'child_first'}
    whole = [c for c in f.calls() if (c.callee or '').startswith('llvm.memcpy') and same_value(f, f.ap(c.args[0]).root, 'a0')]
    for name in fields:
        sts = [st for st in f.stores_to('myth_globalattr_t.' + name) if same_value(f, f.ap(st.ops[1]).root, 'a0')]
        if whole and not sts:
            continue    # copied as a block from a local that SROA did not split: the field stores are not visible, nothing is claimed
        ok = bool(sts) and not any(isinstance(st.ops[0], dict) and st.ops[0].get('undef') for st in sts)
        if ok and name in DEF:
            ok = all(any(k in f.insts and f.insts[k].op == 'call' and f.insts[k].callee == 'myth_globalattr_default_' + DEF[name]
                         for k in f.sources(st.ops[0])) for st in sts)
        ctx.ob('C15.4', 'myth_globalattr_init_body: %s gets %s' % (name, 'its default' if name in DEF else 'a defined value'), ok,
               'a field left unwritten takes whatever the stack held (e.g. a random creation order or worker binding for every '
               'program that relies on the defaults)', loc=(sts[0].loc if sts else f.loc))


def rule4_signed(ctx, fl):
    ctx.doc('C15.4', 'myth_globalattr_default_stacksize / guardsize / num_workers: the decision "value <= 0 -> use the default" '
            'is a signed comparison (sle 0 / slt 1) on the sign-extended atoi result, and the parsed value is returned only on '
            'its false edge')
    v = ctx.view(INITF, roots=['myth_globalattr_default_stacksize', 'myth_globalattr_default_guardsize',
                               'myth_globalattr_default_num_workers'], stops=('getenv',) + PARSERS + ('fprintf', 'myth_get_n_available_cpus'),
                 flavour=fl)
    for name in ('myth_globalattr_default_stacksize', 'myth_globalattr_default_guardsize', 'myth_globalattr_default_num_workers'):
        f = ctx.need_fn(v, name)
        at = call_sites(f, PARSERS)
        ctx.ob('C15.4', name + ': parses with atoi', len(at) >= 1, 'atoi / strtol call present (signed result)', loc=f.loc)
        atv = set(a.id for a in at)
        tests = []
        for ic in f.order:
            if ic.op == 'icmp' and const_int(ic.ops[1]) in (0, 1) and (f.sources(ic.ops[0]) & atv):
                tests.append(ic)
        signed = [ic for ic in tests if (ic.pred == 'sle' and const_int(ic.ops[1]) == 0) or (ic.pred == 'slt' and const_int(ic.ops[1]) == 1) or
                  (ic.pred == 'sgt' and const_int(ic.ops[1]) == 0) or (ic.pred == 'sge' and const_int(ic.ops[1]) == 1)]
        ctx.ob('C15.4', name + ': non-positive test is signed', len(signed) == 1 and len(tests) == 1,
               'negative settings must take the default: the test has to be a signed <= 0 on the int result (an unsigned '
               'variable turns it into == 0)', loc=(tests[0].loc if tests else f.loc),
               detail='tests: %s' % [(t.pred, expr_str(f, t.ops[0])[:60]) for t in tests])
        # the value is sign-extended (not zero-extended) when widened
        bad = [z for z in f.order if z.op == 'zext' and (f.sources(z.ops[0]) & atv) and z.ty == 'i64']
        ctx.ob('C15.4', name + ': atoi result widened with sign', not bad, 'int -> long/size_t conversion keeps the sign until the test',
               loc=(bad[0].loc if bad else f.loc))
        # which variable is read, and that what it says is parsed: getenv(NAME) -> tested non-NULL -> atoi(that string)
        want = ENVNAMES[name]
        ge = call_sites(f, 'getenv')
        got = []
        for g_ in ge:
            a0 = g_.args[0]
            gn = a0['ops'][0].get('g') if isinstance(a0, dict) and a0.get('ops') and isinstance(a0['ops'][0], dict) else None
            txt = ((v.globals.get(gn) or {}).get('init') or {}).get('str', '').rstrip('\x00') if gn else ''
            got.append(txt)
            mine = [a for a in at if same_value(f, a.args[0], g_.id)]
            nts = null_tests(f, g_.id)
            ctx.ob('C15.4', '%s: %s is parsed where it is set' % (name, txt or '?'), bool(mine) and bool(nts) and all(
                any(f.edge_dominates(br.block.id, nn, a) for br, nn, nl in nts) for a in mine),
                'atoi runs on the string getenv returned, and only where that string is not NULL (atoi(NULL) crashes when the variable '
                'is unset)', loc=g_.loc)
            if mine and nts:
                # with the variable set, its value is what is tested: every path from the non-NULL edge to a return passes the atoi
                ok_used = all(f.always_passes(lib.first_inst(f, nn), mine) or lib.first_inst(f, nn) in mine for br, nn, nl in nts)
                ctx.ob('C15.4', '%s: a set %s is not ignored' % (name, txt or '?'), ok_used,
                       'the value of the variable decides the setting whenever the variable is set', loc=g_.loc)
        ctx.ob('C15.4', name + ': reads the documented variable(s)', sorted(got) == sorted(want), 'getenv names', loc=f.loc,
               detail='reads %s, documented %s' % (got, want))
        for val, anchor in ret_cases(f, maxdepth=1):
            if isinstance(val, str) and (f.sources(val) & atv) and signed:
                ic = signed[0]
                pos_pol = ic.pred in ('sgt', 'sge')
                ctx.ob('C15.4', name + ': parsed value returned only if positive', f.on_edge(ic.id, pos_pol, anchor),
                       'the environment value is used only on the > 0 edge', loc=anchor.loc)
    # the fallback of the worker count is the number of CPUs as the operating system reports it (not a variable that is only
    # filled in while the library initialises: defaults can be materialised before that)
    f = ctx.need_fn(v, 'myth_globalattr_default_num_workers')
    cpus = call_sites(f, 'myth_get_n_available_cpus')
    fb = [val for val, anchor in ret_cases(f, maxdepth=1) if isinstance(val, str)]
    srcs = set(k for val in fb for k in f.sources(val))
    ctx.ob('C15.4', 'myth_globalattr_default_num_workers: falls back to the CPU count', len(cpus) == 1 and cpus[0].id in srcs and
           all(k in f.insts and f.insts[k].op == 'call' and (f.insts[k].callee in PARSERS or f.insts[k].callee == 'myth_get_n_available_cpus')
               for k in srcs), 'nw <= 0 -> myth_get_n_available_cpus()', loc=f.loc,
           detail='value sources: ' + ', '.join(sorted((f.insts[k].callee or f.insts[k].op) if k in f.insts else str(k) for k in srcs)))
    vb = ctx.ssa(BINDF, fl)
    nc = ctx.need_fn(vb, 'myth_get_n_available_cpus')
    okos = False
    for val, anchor in ret_cases(nc, maxdepth=2):
        if isinstance(val, str):
            ss = [nc.insts[k] for k in nc.sources(val) if k in nc.insts]
            okos = bool(ss) and all(x.op == 'call' and x.callee == 'sysconf' for x in ss)
    ctx.ob('C15.4', 'myth_get_n_available_cpus asks the operating system', okos, 'sysconf(_SC_NPROCESSORS_ONLN): valid before initialisation',
           loc=nc.loc)
    # (re)initialisation restarts the table of usable CPUs: the counter that indexes worker_cpu[] is reset on every call
    ga = ctx.need_fn(vb, 'myth_get_available_cpus')
    incs = [st for st in ga.order if st.op == 'store' and isinstance(st.ops[1], dict) and st.ops[1].get('g') and
            {k: c for k, c in lib.affine(ga, st.ops[0]).items() if c != 0}.get('', 0) == 1 and
            any(k in ga.insts and ga.insts[k].op == 'load' and ga.insts[k].ops[0] == st.ops[1] for k in lib.affine(ga, st.ops[0]))]
    for st in incs:
        gname = st.ops[1]['g']
        zs = [z for z in ga.order if z.op == 'store' and z.ops[1] == st.ops[1] and const_int(z.ops[0]) == 0 and not ga.in_loop(z)]
        ctx.ob('C15.4', 'myth_get_available_cpus: %s restarts from 0 on every call' % gname, any(ga.dominates_f(z, st) for z in zs),
               'the table of usable CPUs is rebuilt by every initialisation; a counter that survives myth_fini makes the table grow '
               'past its end after enough init / fini cycles', loc=st.loc)
    if not incs:
        ctx.note('C15.4: myth_get_available_cpus fills its table without a global counter; the restart clause does not apply')
    ctx.floor('C15.4', 23)


def rule5_getters(ctx, fl):
    """what the application is told: the worker index is the rank field of the executing worker's record (the field
    myth_setup_worker fills with the index, C15.5), the worker count is g_attr.n_workers (the field initialisation sizes g_envs by)"""
    v = ctx.view('myth_if_native.c', roots=['myth_get_worker_num_body', 'myth_get_num_workers_body'],
                 stops=('myth_ensure_init', 'myth_get_current_env_noinline', 'myth_init_ex_body') + lib.SPIN_STOPS, flavour=fl)
    f = ctx.need_fn(v, 'myth_get_worker_num_body')
    rets = [r for r in f.order if r.op == 'ret' and r.ops]
    ok = bool(rets)
    for r in rets:
        l = f.get(f.strip(r.ops[0]))
        ok = ok and l is not None and l.op == 'load' and f.field(l) == 'myth_running_env.rank'
        if ok:
            root = f.get(f.strip(f.ap(l.ops[0]).root))
            # the record of the executing worker: the env getter, or &g_envs[g_worker_rank]
            from .c02 import rank_index
            cur = root is not None and ((root.op == 'call' and (root.callee or '').startswith('myth_get_current_env')) or
                                        (root.op == 'load' and isinstance(root.ops[0], dict) and root.ops[0].get('g') == 'g_envs'))
            if cur and root.op == 'load':
                st = [x for x in f.ap(l.ops[0]).steps if x[0] == 'p']
                cur = len(st) == 1 and rank_index(f, st[0][1])
            ok = ok and cur
    ctx.ob('C15.5', 'myth_get_worker_num returns the rank of the executing worker\'s record', ok,
           'e = current env; return e->rank', loc=f.loc)
    g = ctx.need_fn(v, 'myth_get_num_workers_body')
    rets = [r for r in g.order if r.op == 'ret' and r.ops]
    okg = bool(rets)
    for r in rets:
        l = g.get(g.strip(r.ops[0]))
        okg = okg and l is not None and l.op == 'load' and g.field(l) == 'myth_globalattr_t.n_workers' and \
            isinstance(g.ap(l.ops[0]).root, dict) and g.ap(l.ops[0]).root.get('g') == 'g_attr'
    ctx.ob('C15.5', 'myth_get_num_workers returns g_attr.n_workers', okg, 'the count the workers were created from', loc=g.loc)
    for fn_ in (f, g):
        ei = [c for c in fn_.calls() if c.callee in ('myth_ensure_init', 'myth_init_ex_body')]
        lds = [l for l in fn_.order if l.op == 'load' and fn_.field(l) in ('myth_running_env.rank', 'myth_globalattr_t.n_workers')]
        ctx.ob('C15.5', '%s initialises the library before it answers' % fn_.name, bool(ei) and bool(lds) and
               all(any(fn_.dominates_f(c, l) for c in ei) for l in lds),
               'implicit initialisation on first use: asked before myth_init, the count / index is that of the runtime it starts',
               loc=fn_.loc)


def rule5_workers(ctx, fl):
    ctx.doc('C15.5', 'myth_init_ex_body_really: g_envs is allocated for nw entries, g_envs_sz = nw, worker threads are created for '
            'i = 1 .. nw-1 with argument i and worker 0 runs on the caller; myth_setup_worker stores its rank argument in '
            'env->rank of g_envs[rank]; myth_get_worker_num returns that field; fini path re-obtains env after switching (C12.3)')
    v = ctx.view(INITF, roots=['myth_init_ex_body_really', 'myth_setup_worker'],
                 stops=('myth_malloc', 'real_pthread_create', 'myth_worker_thread_fn', 'myth_get_available_cpus', 'myth_globalattr_init_body',
                        'myth_internal_barrier_init', 'myth_flmalloc_init_worker', 'myth_queue_init', 'myth_queue_clear',
                        'myth_log_worker_init'), flavour=fl)
    f = ctx.need_fn(v, 'myth_init_ex_body_really')
    nwl = [l for l in f.order if l.op == 'load' and 'n_workers' in f.ap(l.ops[0]).desc()]
    ctx.ob('C15.5', 'reads n_workers', len(nwl) >= 1, 'worker count taken from the global attributes', loc=f.loc)
    # an explicit attribute object is adopted on every initialisation, not only on the first
    ap_ = f.param_named('attr') or 'a0'
    cps = [c for c in f.calls() if (c.callee or '').startswith('llvm.memcpy') and isinstance(f.ap(c.args[0]).root, dict) and
           f.ap(c.args[0]).root.get('g') == 'g_attr' and same_value(f, c.args[1], ap_)]
    nulls = [lib.first_inst(f, nl) for br, nn, nl in lib.null_tests(f, ap_)]
    ctx.ob('C15.5', 'explicit attributes copied into g_attr', len(cps) == 1, 'g_attr = *attr', loc=f.loc)
    if cps and nwl:
        ctx.ob('C15.5', 'a non-NULL attribute object is adopted on every initialisation',
               f.always_passes(f.entry_inst(), cps + nulls, to=nwl),
               'every path to the worker count either copies *attr or saw attr == NULL; a copy that depends on earlier state makes a '
               'second myth_init_ex(&attr) run with the previous settings', loc=cps[0].loc)
    mall = [c for c in call_sites(f, 'myth_malloc') if any(x.op == 'store' and isinstance(x.ops[1], dict) and x.ops[1].get('g') == 'g_envs' and
                                                            c.id in f.sources(x.ops[0]) for x in f.order)]
    envsz = v.structs.get('myth_running_env', {}).get('size')
    ok = False
    nwv = None
    for c in mall:
        a = affine(f, c.args[0])
        terms = {k: cf for k, cf in a.items() if k != ''}
        if len(terms) == 1 and list(terms.values())[0] == envsz and a.get('', 0) == 0:
            ok = True
            nwv = list(terms)[0]
    ctx.ob('C15.5', 'g_envs sized n_workers * sizeof(env)', ok, 'one env per worker', loc=(mall[0].loc if mall else f.loc))
    szs = [s for s in f.order if s.op == 'store' and isinstance(s.ops[1], dict) and s.ops[1].get('g') == 'g_envs_sz']
    ctx.ob('C15.5', 'g_envs_sz = n_workers', len(szs) == 1 and nwv is not None and f.sources(szs[0].ops[0]) == f.sources(nwv),
           'the bound used by the env getter equals the allocation', loc=f.loc)
    pc = call_sites(f, 'real_pthread_create')
    for c in pc:
        lp = lib.loop_containing(f, c)
        okl = False
        if lp is not None:
            for ic in f.order:
                if ic.op == 'icmp' and ic.pred == 'slt' and ic.block.id == lp['header'] and nwv is not None and \
                        f.sources(ic.ops[1]) == f.sources(nwv):
                    ph = f.get(f.strip(ic.ops[0]))
                    if ph is not None and ph.op == 'phi' and any(const_int(val) == 1 for val, b in ph.d['incoming']) and \
                            ph.id in f.sources(c.args[3], through_arith=True) | {f.strip(c.args[3])}:
                        okl = True
        ctx.ob('C15.5', 'workers 1..n-1 created with their index', okl, 'pthread_create(..., (void*)i) for i in [1, n_workers)', loc=c.loc)
    ctx.ob('C15.5', 'worker creation site', len(pc) == 1, 'one creation loop', loc=f.loc)
    w0 = call_sites(f, 'myth_worker_thread_fn')
    ctx.ob('C15.5', 'worker 0 on the calling thread', len(w0) == 1 and const_int(f.strip(w0[0].args[0])) in (0, None) and
           (isinstance(w0[0].args[0], dict)), 'rank 0 is the initialising OS thread', loc=f.loc)
    s = ctx.need_fn(v, 'myth_setup_worker')
    rs = s.stores_to('myth_running_env.rank')
    ok = len(rs) == 1 and same_value(s, rs[0].ops[0], 'a0')
    if ok:
        ap = s.ap(rs[0].ops[1])
        ok = isinstance(s.strip(ap.root), str) and any(st[0] == 'p' and isinstance(st[1], str) and s.sources(st[1]) == {'a0'} for st in ap.steps)
    ctx.ob('C15.5', 'setup_worker: g_envs[rank].rank = rank', ok, 'each env records the index it was created for', loc=s.loc)
    from . import c12
    c12.rule3_env(ctx, fl, rule='C15.5', only=['myth_fini_body', 'myth_startpoint_exit_ex_body', 'myth_fini'], units=[(INITF, None)])
    ctx.floor('C15.5', 8)


def rule6_progress(ctx, fl):
    ctx.doc('C15.6', 'no hang on malformed input, necessary part: every loop of the inlined CPU-list parser and of the worker/CPU fill '
            'code has a loop-carried cursor or counter that grows by at least one on every path round the loop (the digit loop and '
            'the comma loop consume a character, the range expansion appends an element and leaves when the list is full)')
    v = ctx.view(BINDF, roots=['myth_get_available_cpus'], stops=('getenv', 'fprintf', 'fputc', 'sched_getaffinity', 'sysconf', 'getpid'),
                 flavour=fl)
    f = ctx.need_fn(v, 'myth_get_available_cpus')
    n = 0
    for lp in f.loops:
        hb = f.blocks[lp['header']]
        phis = [i for i in hb.insts if i.op == 'phi' and i.ty in ('i32', 'i64')]
        best = None
        exits = [i for b in lp['blocks'] for i in f.blocks[b].insts
                 if i.op in ('br', 'switch') and 'cond' in i.d and any(sx not in lp['blocks'] for sx in f.blocks[b].succ)]

        def feeds_exit(ph):
            # the exit decision reads the cursor: compared directly, or used to address the character / slot that is tested
            for e in exits:
                st, seen = [e.d['cond']], set()
                while st:
                    r = st.pop()
                    if not isinstance(r, str) or r in seen:
                        continue
                    seen.add(r)
                    if f.strip(r) == ph.id:
                        return True
                    i = f.insts.get(r)
                    if i is None or len(seen) > 400:
                        continue
                    if i.op == 'phi':
                        st += [v_ for v_, b_ in i.d['incoming']]
                    elif i.op == 'call':
                        st += [a_ for a_ in i.args if isinstance(a_, str)]
                    elif i.op == 'getelementptr':
                        st.append(i.d['base'])
                        st += [x_.get('p', x_.get('i')) for x_ in i.d['path'] if isinstance(x_.get('p', x_.get('i')), str)]
                    else:
                        st += [o for o in i.ops if isinstance(o, str)]
            return False
        for ph in phis:
            ds = [lib.min_delta(f, val, ph.id) for val, b in ph.d['incoming'] if b in lp['blocks']]
            if ds and all(d is not None and d >= 1 for d in ds) and feeds_exit(ph):
                best = (ph, min(ds))
                break
        n += 1
        line = max([i.line for b in lp['blocks'] for i in f.blocks[b].insts if i.op == 'br'] + [0])
        ctx.ob('C15.6', 'loop at block %d advances on every iteration' % lp['header'], best is not None,
               'a loop that can go round without consuming input or filling the output spins forever on a malformed (or perfectly '
               'ordinary) MYTH_CPU_LIST', loc='%s:%d' % (BIND, min([i.line for b in lp['blocks'] for i in f.blocks[b].insts if i.line] or [0])),
               detail=('cursor %s grows by >= %d' % (f.var(best[0].id) or best[0].id, best[1])) if best else
               'no loop-carried integer that the exit test reads grows by >= 1 on every path to the latch')
    ctx.floor('C15.6', 20)


def env_paths(f, store):
    out = {}
    for ins in f.order:
        if store:
            if ins.op == 'store':
                ptr = ins.ops[1]
            elif ins.op == 'call' and (ins.callee or '').startswith(('llvm.memset', 'llvm.memcpy')):
                if const_int(ins.args[2]) == 0:
                    continue        # memset of an empty struct (prof_data without profiling): writes nothing
                ptr = ins.args[0]
            else:
                continue
        else:
            if ins.op != 'load':
                continue
            ptr = ins.ops[0]
        fs = f.ap(ptr).fields
        if fs and fs[0].startswith('myth_running_env.'):
            out.setdefault(tuple(fs), ins)
    return out


def rule7_worker_record(ctx, fl):
    ctx.doc('C15.7', 'a fresh initialisation does not depend on what a previous one left behind: every field of the per-worker record '
            '(g_envs[] comes from malloc and is recycled across init / fini / init histories) that the scheduler loop or the exit path '
            'reads is written on the start-up path of a secondary worker (myth_worker_thread_fn) and on that of worker 0 '
            '(myth_startpoint_init_ex_body), setup_worker inlined in both')
    starts = ['myth_worker_thread_fn', 'myth_startpoint_init_ex_body']
    users = ['myth_sched_loop', 'myth_startpoint_exit_ex_body', 'myth_cleanup_worker']
    v = ctx.view(INITF, roots=starts + users,
                 stops=('myth_malloc', 'myth_free', 'myth_flmalloc', 'myth_flfree', 'fprintf', 'abort', 'myth_mmap', 'myth_queue_push',
                        'myth_queue_pop', 'myth_queue_take', 'time', 'myth_random_init', 'myth_get_current_env') + lib.SPIN_STOPS, flavour=fl)
    reads = {}
    for u in users:
        for pth, ins in env_paths(ctx.need_fn(v, u), False).items():
            reads.setdefault(pth, (u, ins))
    ctx.ob('C15.7', 'fields of the worker record read by the scheduler enumerated', len(reads) >= 6, 'exit_flag, rank, run queue, free lists, ...',
           loc='src/myth_worker_func.h', detail=str(len(reads)))
    for st_ in starts:
        f = ctx.need_fn(v, st_)
        w = env_paths(f, True)
        for pth, (u, ins) in sorted(reads.items()):
            short = '.'.join(x.split('.', 1)[-1] for x in pth)
            ctx.ob('C15.7', '%s sets %s' % (st_, short), any(pth[:len(x)] == x for x in w),
                   'the record array is recycled heap memory: a field the start-up path skips keeps the value of the previous run (e.g. '
                   'a raised exit flag makes the new worker leave its scheduler at once)', loc=f.loc, detail='read by %s at %s' % (u, ins.loc))
    ctx.floor('C15.7', 14)


def rule8_internal_barrier(ctx, fl):
    ctx.doc('C15.8', 'the start-up barrier of the workers (a global, re-initialised by every myth_init): every field that '
            'myth_internal_barrier_wait reads is written by myth_internal_barrier_init, so a second lifecycle does not start from the '
            'arrival counts of the first')
    m = ctx.view('myth_internal_barrier.c', roots=['myth_internal_barrier_init', 'myth_internal_barrier_wait'],
                 stops=('real_pthread_mutex_init', 'real_pthread_cond_init', 'real_pthread_mutex_lock', 'real_pthread_mutex_unlock',
                        'real_pthread_cond_wait', 'real_pthread_cond_broadcast'), flavour=fl)
    n = lib.init_covers(ctx, 'C15.8', m, 'myth_internal_barrier_init', ['myth_internal_barrier_wait'], 'internal barrier')
    ctx.ob('C15.8', 'fields read by the barrier wait enumerated', n >= 3, 'n_threads, phase, cur[]', loc='src/myth_internal_barrier.c', detail=str(n))
    ctx.floor('C15.8', 5)


def run(ctx):
    for fl in flavours(ctx):
        ctx.unit = fl
        ctx.doc('C15.9', 'native API forwarding: each public entry point of this property reaches the implementation of the same name with its parameters in order and returns its result (sibling slips such as trylock -> lock, signal -> broadcast, swapped arguments)')
        ctx.attempt(lib.native_forwarding, ctx, 'C15.9', fl, lambda n: n in ('myth_init', 'myth_init_ex', 'myth_fini', 'myth_get_worker_num', 'myth_get_num_workers') or n.startswith('myth_globalattr_'), floor=10)
        ctx.attempt(rule6_progress, ctx, fl)
        ctx.attempt(rule8_internal_barrier, ctx, fl)
        ctx.attempt(rule7_worker_record, ctx, fl)
        ctx.attempt(rule1_init, ctx, fl)
        ctx.attempt(rule2_noabort, ctx, fl)
        ctx.attempt(rule3_bounds, ctx, fl)
        ctx.attempt(rule4_signed, ctx, fl)
        ctx.attempt(rule4_attr_defined, ctx, fl)
        ctx.attempt(rule5_getters, ctx, fl)
        ctx.doc('C15.10', 'global attribute accessors: myth_globalattr_set_<X> stores its argument in field X (of the given object or of '
                'g_attr) and nothing else, get_<X> reads the same field - "runs with the number of workers / stack size requested '
                'through the global attributes" presupposes that the request lands in the field initialisation reads')
        NAMES = ('stacksize', 'guardsize', 'n_workers', 'bind_workers', 'child_first')
        vg = ctx.view('myth_if_native.c', roots=['myth_globalattr_%s_%s_body' % (a, x) for a in ('set', 'get') for x in NAMES],
                      stops=('myth_globalattr_init_body',), flavour=fl)
        lib.accessor_agreement(ctx, 'C15.10', vg, 'myth_globalattr_t', 'myth_globalattr_set_%s_body', 'myth_globalattr_get_%s_body',
                               dict((x, [(1, x)]) for x in NAMES), null_default='g_attr',
                               null_init=('myth_globalattr_init_body', 'myth_globalattr_t.initialized'))
        ctx.floor('C15.10', 30)
        ctx.attempt(rule5_workers, ctx, fl)


INITC = 'src/myth_init.c'
BIND = 'src/myth_bind_worker.c'
INITH = 'src/myth_init_func.h'
MUTANTS = [
    {'name': 'ensure_init lets callers through while another thread is still initialising (hand mutant r6)', 'expect': 'C15.1',
     'edits': [('src/myth_init_func.h', "  if (g_myth_init_state == myth_init_state_initialized) {\n    return 1;\n  } else {\n    return myth_init_ex_body(attr);", "  if (g_myth_init_state != myth_init_state_uninit) {\n    return 1;\n  } else {\n    return myth_init_ex_body(attr);")]},
    {'name': 'worker-to-CPU map divides by an empty CPU set (seed6 C15/m1)', 'expect': 'C15.3',
     'edits': [('src/myth_bind_worker.c', "  assert(n_available_cpus >= 0);\n  if (n_available_cpus == 0) {\n    return -1;\t\t\t/* no bind */\n  } else {\n    return worker_cpu[rank % n_available_cpus];\n  }", "  if (n_available_cpus < 0) {\n    return -1;\n  }\n  return worker_cpu[rank % n_available_cpus];")]},
    {'name': 'secondary workers start without clearing the scheduler stack pointer that cleanup frees (seed5 C15/m1)', 'expect': 'C15.7',
     'edits': [('src/myth_worker_func.h', "  env=myth_get_current_env();\n  env->sched.stack=NULL;\n  //Call thread scheduler", "  env=myth_get_current_env();\n  //Call thread scheduler")]},
    {'name': 'usable-CPU counter not reset by re-initialisation (seed4 C15/m2)', 'expect': 'C15.4',
     'edits': [('src/myth_bind_worker.c', "  n_available_cpus = 0;\n  if (n_specified_cpus == -1) {", "  if (n_specified_cpus == -1) {")]},
    {'name': 'global attribute setter on NULL does not materialise the defaults first (seed4 C15/m1)', 'expect': 'C15.10',
     'edits': [('src/myth_init_func.h', "				   size_t n_workers) {\n  if (!attr) {\n    if (!g_attr.initialized) myth_globalattr_init_body(&g_attr);\n    attr = &g_attr;", "				   size_t n_workers) {\n  if (!attr) {\n    attr = &g_attr;")]},
    {'name': 'myth_get_num_workers reports the size of the env table slot instead of the worker count', 'expect': 'C15.5',
     'edits': [('src/myth_worker_func.h', "  return g_attr.n_workers;\n}", "  return g_attr.bind_workers;\n}")]},
    {'name': 'myth_globalattr_set_n_workers writes bind_workers', 'expect': 'C15.10',
     'edits': [('src/myth_init_func.h', "  attr->n_workers = n_workers;", "  attr->bind_workers = n_workers;")]},
    {'name': 'global attribute default for child_first never written (sweep M0334, passes the suite)', 'expect': 'C15.4',
     'edits': [('src/myth_init_func.h', "  a.child_first = myth_globalattr_default_child_first();\n", "")]},
    {'name': 'start-up barrier keeps the arrival counts of the previous lifecycle (seed3 C15/m1)', 'expect': 'C15.8',
     'edits': [('src/myth_internal_barrier.c', "  b->phase = 0;\t\t\t/* 0 : 0 -> n; 1 : n -> 0 */\n  b->cur[0] = b->cur[1] = 0;", "  b->phase = 0;\t\t\t/* 0 : 0 -> n; 1 : n -> 0 */")]},
    {'name': 'exit path forgets to tell the workers to stop (sweep M0520)', 'expect': 'C15.1',
     'edits': [('src/myth_worker_func.h', "  //Set exit flag\n  myth_notify_workers_exit();\n  //Cleanup", "  //Cleanup")]},
    {'name': 'MYTH_NUM_WORKERS read but not parsed (sweep M0324)', 'expect': 'C15.4',
     'edits': [('src/myth_init_func.h', "  if (env) {\n    nw = atoi(env);\n  } else {\n    env = getenv(ENV_MYTH_WORKER_NUM);", "  if (env) {\n    ;\n  } else {\n    env = getenv(ENV_MYTH_WORKER_NUM);")]},
    {'name': 'stack size default parses an unset variable (sweep M0330)', 'expect': 'C15.4',
     'edits': [('src/myth_init_func.h', "  char * env = getenv(ENV_MYTH_DEF_STKSIZE);\n  if (env) {", "  char * env = getenv(ENV_MYTH_DEF_STKSIZE);\n  if (!(env)) {")]},
    {'name': 'explicit attributes adopted only while g_attr is uninitialised (seed2 C15/m2)', 'expect': 'C15.5',
     'edits': [(INITC, "  if (attr) {\n    g_attr = *attr;\n  } else {\n    if (!g_attr.initialized) myth_globalattr_init_body(&g_attr);\n  }",
                "  if (!g_attr.initialized) {\n    if (attr) {\n      g_attr = *attr;\n    } else {\n      myth_globalattr_init_body(&g_attr);\n    }\n  }")]},
    {'name': 'setup_worker leaves the exit flag of the previous run (seed2 C15/m1)', 'expect': 'C15.7',
     'edits': [('src/myth_worker_func.h', "  env->rank = rank;\n  env->exit_flag = 0;\n", "  env->rank = rank;\n")]},
    {'name': 'real initialisation outside the election', 'expect': 'C15.1',
     'edits': [(INITC, "  if (!myth_init_once_ctl_try_set(&g_myth_init_state,\n\t\t\t\t  myth_init_state_uninit,\n\t\t\t\t  myth_init_state_initializing)) {\n    myth_init_once_ctl_wait(&g_myth_init_state, myth_init_state_initialized);\n    return 1;\t\t\t/* OK */\n  }",
                "  if (g_myth_init_state != myth_init_state_uninit) {\n    myth_init_once_ctl_wait(&g_myth_init_state, myth_init_state_initialized);\n    return 1;\t\t\t/* OK */\n  }\n  g_myth_init_state = myth_init_state_initializing;")]},
    {'name': 'losers wait for "initializing" (seed C15/m3)', 'expect': 'C15.1',
     'edits': [(INITC, "    myth_init_once_ctl_wait(&g_myth_init_state, myth_init_state_initialized);\n    return 1;\t\t\t/* OK */\n  }\n  assert(g_myth_init_state == myth_init_state_initializing);", "    myth_init_once_ctl_wait(&g_myth_init_state, myth_init_state_initializing);\n    return 1;\t\t\t/* OK */\n  }\n  assert(g_myth_init_state == myth_init_state_initializing);")]},
    {'name': 'initialized published before the real initialisation', 'expect': 'C15.1',
     'edits': [(INITC, "  myth_init_ex_body_really(attr);\n  g_myth_init_state = myth_init_state_initialized;", "  g_myth_init_state = myth_init_state_initialized;\n  myth_init_ex_body_really(attr);")]},
    {'name': 'fini resets the state before tearing down', 'expect': 'C15.1',
     'edits': [(INITC, "  myth_fini_body_really();\n  g_myth_init_state = myth_init_state_uninit;", "  g_myth_init_state = myth_init_state_uninit;\n  myth_fini_body_really();")]},
    {'name': 'assert on a parsed character (original defect D6)', 'expect': 'C15.2',
     'edits': [(BIND, "static inline int next_char(char_stream_t cs) {\n  cs->i++;", "static inline int next_char(char_stream_t cs) {\n  assert(cs->a[cs->i] != '\\n');\n  cs->i++;")]},
    {'name': 'abort on a zero stride', 'expect': 'C15.2',
     'edits': [(BIND, "      c = parse_int(cs);\n      if (c == -1) return 0; /* NG */", "      c = parse_int(cs);\n      if (c == -1) return 0; /* NG */\n      if (c == 0) abort();")]},
    {'name': 'worker count default asserts on a negative value', 'expect': 'C15.2',
     'edits': [(INITH, "  if (nw <= 0) {\n    nw = myth_get_n_available_cpus();\n  }", "  assert(nw >= 0);\n  if (nw <= 0) {\n    nw = myth_get_n_available_cpus();\n  }")]},
    {'name': 'digit loop does not consume the digit', 'expect': 'C15.6',
     'edits': [(BIND, "    x = x * 10 + (cur_char(cs) - '0');\n    next_char(cs);", "    x = x * 10 + (cur_char(cs) - '0');\n    if (n_digits > 9) next_char(cs);")]},
    {'name': 'comma loop re-parses without skipping the comma', 'expect': 'C15.6',
     'edits': [(BIND, "  while (cur_char(cs) == ',') {\n    next_char(cs);\n    if (!parse_range(cs, il)) return 0;", "  while (cur_char(cs) == ',') {\n    if (cs->i > 0 && cs->a[cs->i - 1] == ',') cs->i--; else next_char(cs);\n    if (!parse_range(cs, il)) return 0;")]},
    {'name': 'range expansion ignores a full list', 'expect': 'C15.6',
     'edits': [(BIND, "    if (!int_list_add(il, x)) {\n      parse_error(cs, \n\t\t  \"myth_parse_cpu_list: too many numbers in MYTH_CPU_LIST\\n\");\n      return 0;\n    }", "    (void)int_list_add(il, x);")]},
    {'name': 'parser capacity given in bytes (seed C15/m2)', 'expect': 'C15.3',
     'edits': [(BIND, '    = myth_parse_cpu_list("MYTH_CPU_LIST", myth_cpu_list, N_MAX_CPUS);', '    = myth_parse_cpu_list("MYTH_CPU_LIST", myth_cpu_list, sizeof(myth_cpu_list));')]},
    {'name': 'int_list_add without the capacity test', 'expect': 'C15.3',
     'edits': [(BIND, "  if (i < n) {\n    il->a[i] = x;\n    il->i = i + 1;\n    return 1;\n  } else {\n    return 0;\n  }", "  (void)n;\n  il->a[i] = x;\n  il->i = i + 1;\n  return 1;")]},
    {'name': 'stack size default held unsigned (original defect D7)', 'expect': 'C15.4',
     'edits': [(INITH, "  long sz = 0;\n  char * env = getenv(ENV_MYTH_DEF_STKSIZE);", "  size_t sz = 0;\n  char * env = getenv(ENV_MYTH_DEF_STKSIZE);")]},
    {'name': 'worker count held unsigned', 'expect': 'C15.4',
     'edits': [(INITH, "  int nw = 0;\n  char * env = getenv(ENV_MYTH_NUM_WORKERS);", "  unsigned nw = 0;\n  char * env = getenv(ENV_MYTH_NUM_WORKERS);")]},
    {'name': 'env array one entry short', 'expect': 'C15.5',
     'edits': [(INITC, "  g_envs = myth_malloc(sizeof(myth_running_env) * nw);", "  g_envs = myth_malloc(sizeof(myth_running_env) * (nw - 1));")]},
    {'name': 'fini keeps the env obtained before migrating home (seed C15/m1)', 'expect': 'C15.5',
     'edits': [('src/myth_worker_func.h', "    //Obtain worker thread descriptor again, because env may be changed\n    env = th->env;", "")]},
]
