"""C17 - bulk fork-join helpers equal the sequential loop."""
import os

from .. import lib
from ..lib import (call_sites, same_value, describe, is_load_of, ret_cases, guard_interval, expr_str, affine, affine_str,
                   guarded_by_nonnull, null_tests)
from ..ir import const_int
from .. import frontend as fe

META = {
    'explanation': 'Bulk helper obligations: (1) base-case coverage of every recursive halving: at each recursion site the guards '
                   'imply range length >= 2 (mtbb) or, for the C helper, length != 1 with the public entry rejecting 0, so sizes '
                   'that do not shrink never recurse; (2) stride pairing: each strided array is addressed base_X + a * stride_X with '
                   'its own stride field, the two child descriptors copy every field and split (a,b) at c = (a+b)/2, the descriptor '
                   'handed to the spawned thread is not written again, and create_join_many forwards parameter i to parameter i with '
                   'function stride 0; (3) stores through ids/results are null-guarded; the attribute pointer is attrs ? attrs + '
                   'a*attr_stride : NULL; (4) the spawned half is joined on every path; (5) mtbb (template code instantiated in a '
                   'compile-only witness TU): task_list::add links a new node after the tail when the tail is full and stores inside '
                   'capacity, run appends before creating the thread, wait joins every entry of every node then resets; parallel_for '
                   'passes ceil((last-first)/step) iterations.'
                   ' The leaf applies the item function exactly once on every leaf path; a NULL guard of ids/results must test the array base, not base + offset.',
    'not_decided': 'exactly-once application per index at run time; behaviour for negative nthreads (outside the documented domain)',
    'assumptions': ['nthreads >= 0; grain size >= 1 (TBB precondition)'],
}
META['explanation'] += ' The split point satisfies a < c < b for every range that is split (affine midpoint inequality, C17.2).'
NATIVE = 'myth_if_native.c'
ARG = 'myth_create_join_various_arg.'
ARRAYS = [('ids', 'id_stride'), ('funcs', 'func_stride'), ('args', 'arg_stride'), ('results', 'result_stride')]


def flavours(ctx):
    return ['vanilla', 'ld', 'dl'] if ctx.tier == 'thorough' else ['vanilla']


def fld_load(f, ref, field):
    """ref is (through casts) a load of meta_arg-><field>"""
    return is_load_of(f, ref, ARG + field)


def rule1_c(ctx, v):
    ctx.doc('C17.1', 'base-case coverage: myth_create_join_various_ex_aux recurses only when b - a != 1 and the public entry returns '
            'before calling it when nthreads == 0 and passes (0, nthreads); mtbb::parallel_for_aux recurses only with b - a >= 2; '
            'parallel_for_grainsize_aux only with b - a > grainsize')
    f = ctx.need_fn(v, 'myth_create_join_various_ex_aux')
    rec = call_sites(f, 'myth_create_join_various_ex_aux')
    cr = call_sites(f, 'myth_create_ex_body')
    ctx.ob('C17.1', 'C aux: spawn + direct recursion', len(rec) == 1 and len(cr) == 1 and
           isinstance(cr[0].args[2], dict) and cr[0].args[2].get('fn') == 'myth_create_join_various_ex_aux',
           'left half in a new thread running the same function, right half by direct recursion', loc=f.loc)
    base = []
    for ic in f.order:
        if ic.op == 'icmp' and ic.pred in ('eq', 'ne'):
            # any arrangement of  b - a == 1
            d = lib.affine_diff(f, ic.ops[0], ic.ops[1])
            lb = lib.load_terms(f, d, ARG + 'b')
            la = lib.load_terms(f, d, ARG + 'a')
            if len(lb) == 1 and len(la) == 1 and len([k for k in d if k != '']) == 2 and d[lb[0]] == -d[la[0]] and d.get('', 0) == -d[lb[0]]:
                base.append(ic)
    ctx.ob('C17.1', 'C aux: base case b - a == 1', len(base) == 1, 'the leaf test compares the range length with 1', loc=f.loc)
    for r in rec + cr:
        ctx.ob('C17.1', 'C aux: recursion only when b - a != 1', any(f.on_edge(ic.id, ic.pred != 'eq', r) for ic in base),
               'a single-item range is executed, not split', loc=r.loc)
    e = ctx.need_fn(v, 'myth_create_join_various_ex_body')
    calls = call_sites(e, 'myth_create_join_various_ex_aux')
    nt = e.param_named('nthreads')
    ctx.ob('C17.1', 'C entry: one call of the helper', len(calls) == 1, 'entry delegates once', loc=e.loc)
    for c in calls:
        z = [ic for ic in e.order if ic.op == 'icmp' and ic.pred in ('eq', 'ne') and const_int(ic.ops[1]) == 0 and same_value(e, ic.ops[0], nt)]
        ctx.ob('C17.1', 'C entry: nothing for nthreads == 0', any(e.on_edge(ic.id, ic.pred != 'eq', c) for ic in z),
               'an empty request returns without entering the recursion (which has no length-0 base case)', loc=c.loc)
        sa = [s for s in e.stores_to(ARG + 'a') if e.dominates_f(s, c)]
        sb = [s for s in e.stores_to(ARG + 'b') if e.dominates_f(s, c)]
        ctx.ob('C17.1', 'C entry: range is [0, nthreads)', len(sa) == 1 and len(sb) == 1 and const_int(sa[0].ops[0]) == 0 and
               same_value(e, sb[0].ops[0], nt), 'the whole request is handed to the helper', loc=c.loc)
    ctx.floor('C17.1', 6)


def rule2_strides(ctx, v):
    ctx.doc('C17.2', 'stride pairing in the leaf: X = meta->X + a * meta->X_stride for ids, funcs, args, results; split: c = (a+b)/2, '
            'child descriptors {.., a, c} and {.., c, b} copy every other field from the parent; the spawned thread gets carg[0], the '
            'caller continues with carg[1] (distinct element) and carg[0] is not written after the create; many -> various forwards '
            'parameters position-wise with func_stride 0 and funcs = &func')
    f = ctx.need_fn(v, 'myth_create_join_various_ex_aux')
    # the split descriptor carries the strides and the index range at the width of the public interface (size_t strides, long
    # count): slot offsets i * stride are 64-bit products
    flds = dict((x['name'], x['size']) for x in v.structs.get('myth_create_join_various_arg', {}).get('fields', []))
    need = ('id_stride', 'attr_stride', 'func_stride', 'arg_stride', 'result_stride', 'a', 'b')
    ctx.ob('C17.2', 'split descriptor keeps strides and indices at 64 bits', all(flds.get(k) == 8 for k in need),
           'a 32-bit stride or index makes i * stride wrap for extents of 4 GiB and more: some items are processed twice, others never',
           loc=f.loc, detail=', '.join('%s:%s' % (k, flds.get(k)) for k in need))
    narrow = [x for x in f.order if x.op == 'trunc' and any(
        k in f.insts and f.insts[k].op == 'load' and f.field(f.insts[k]).startswith('myth_create_join_various_arg.') for k in f.sources(x.ops[0]))]
    ctx.ob('C17.2', 'no descriptor value is narrowed in the helper', not narrow, 'locals keep the width of the fields', loc=(narrow[0].loc if narrow else f.loc))
    ic = [c for c in f.order if c.op == 'call' and 'callee_ref' in c.d]
    # exactly one application on every path through the leaf: the call sites are loop-free, mutually exclusive and together
    # unavoidable once the base case b - a == 1 has been taken
    excl = all(not f.in_loop(c) for c in ic) and all(c2 not in f.reachable_from(c1) for c1 in ic for c2 in ic if c1 is not c2)
    unavoidable = False
    for bic in f.order:
        if bic.op == 'icmp' and bic.pred in ('eq', 'ne'):
            d = lib.affine_diff(f, bic.ops[0], bic.ops[1])
            if len(lib.load_terms(f, d, ARG + 'b')) == 1 and len(lib.load_terms(f, d, ARG + 'a')) == 1 and len([k for k in d if k != '']) == 2:
                for br in f.users(bic.id):
                    if br.op == 'br' and 'cond' in br.d:
                        leaf, other = (br.d['t'], br.d['f']) if bic.pred == 'eq' else (br.d['f'], br.d['t'])
                        if ic and f.always_passes(br, ic, blocked_extra=[f.blocks[other].insts[0]]):
                            unavoidable = True
    ctx.ob('C17.2', 'leaf: one application of the item function', len(ic) >= 1 and excl and unavoidable, 'f is applied exactly once per leaf',
           loc=f.loc, detail='%d call site(s), exclusive=%s, on every leaf path=%s' % (len(ic), excl, unavoidable))

    def strided(ref, arr, stride):
        a = affine(f, ref)
        terms = {k: c for k, c in a.items() if k != ''}
        base = [k for k in terms if k in f.insts and f.insts[k].op == 'load' and f.field(f.insts[k]) == ARG + arr]
        if len(base) != 1 or terms[base[0]] != 1 or a.get('', 0) != 0:
            return False, affine_str(a)
        rest = [k for k in terms if k not in base]
        if len(rest) != 1 or terms[rest[0]] != 1:
            return False, affine_str(a)
        m = f.insts.get(rest[0])
        ok = m is not None and m.op == 'mul' and {True} == {True} and \
            ((is_load_of(f, m.ops[0], ARG + 'a') and is_load_of(f, m.ops[1], ARG + stride)) or
             (is_load_of(f, m.ops[1], ARG + 'a') and is_load_of(f, m.ops[0], ARG + stride)))
        return ok, expr_str(f, ref)
    for c in ic:
        # function pointer loaded from funcs + a*func_stride
        fl = [f.insts[k] for k in f.sources(c.d['callee_ref']) if k in f.insts]
        ok, d = strided(fl[0].ops[0], 'funcs', 'func_stride') if len(fl) == 1 and fl[0].op == 'load' else (False, '')
        ctx.ob('C17.2', 'leaf: function = funcs[a * func_stride]', ok, 'the function applied is the one at the item\'s strided slot', loc=c.loc, detail=d)
        ok, d = strided(c.args[0], 'args', 'arg_stride') if c.args else (False, '')
        ctx.ob('C17.2', 'leaf: argument = args + a * arg_stride', ok, 'the argument is the item\'s strided address', loc=c.loc, detail=d)
        rs = [s for s in f.order if s.op == 'store' and same_value(f, s.ops[0], c.id)]
        dropped_ok = False
        if not rs:
            # the call sits on the NULL edge of a test of the results pointer (the loaded field or the slot address derived from it)
            rl = set(l.id for l in f.loads_of(ARG + 'results'))
            for t in f.order:
                if t.op == 'icmp' and t.pred in ('eq', 'ne') and isinstance(t.ops[1], dict) and (t.ops[1].get('null') or t.ops[1].get('c') == 0):
                    if rl & set(f.sources(t.ops[0], through_arith=True)):
                        for br in f.users(t.id):
                            if br.op == 'br' and 'cond' in br.d and f.edge_dominates(br.block.id, br.d['t'] if t.pred == 'eq' else br.d['f'], c):
                                dropped_ok = True
        ctx.ob('C17.2', 'leaf: result stored once', len(rs) == 1 or dropped_ok, 'the return value goes to one slot (or nowhere when no results '
               'array was given)', loc=c.loc)
        for s in rs:
            src = [k for k in f.sources(s.ops[1]) if not k.startswith('{')]
            ok, d = strided(src[0], 'results', 'result_stride') if len(src) == 1 else (False, str(src))
            ctx.ob('C17.2', 'leaf: result slot = results + a * result_stride', ok, 'the result goes to the item\'s strided slot', loc=s.loc, detail=d)
            ctx.ob('C17.3', 'leaf: results store is null-guarded',
                   any(f.on_edge(cond, pol, s) for l in f.loads_of(ARG + 'results') for cond, pol in nn_conds(f, l.id)) or
                   guarded_phi_nonnull(f, s.ops[1], s),
                   'results may be NULL: the store happens only when a results array was given', loc=s.loc)
    selfs = call_sites(f, ('myth_self', 'myth_self_body'))
    ids_st = [s for s in f.order if s.op == 'store' and selfs and any(same_value(f, s.ops[0], x.id) for x in selfs)]
    ctx.ob('C17.2', 'leaf: thread id stored once', len(ids_st) == 1, 'the item\'s thread id goes to one slot', loc=f.loc)
    for s in ids_st:
        src = [k for k in f.sources(s.ops[1]) if not k.startswith('{')]
        ok, d = strided(src[0], 'ids', 'id_stride') if len(src) == 1 else (False, str(src))
        ctx.ob('C17.2', 'leaf: id slot = ids + a * id_stride', ok, 'the id goes to the item\'s strided slot', loc=s.loc, detail=d)
        ctx.ob('C17.3', 'leaf: ids store is null-guarded', guarded_phi_nonnull(f, s.ops[1], s) or
               any(f.on_edge(cond, pol, s) for l in f.loads_of(ARG + 'ids') for cond, pol in nn_conds(f, l.id)),
               'ids may be NULL: the store happens only when an ids array was given', loc=s.loc)
    # only these two stores reach caller memory in the leaf
    other = [s for s in f.order if s.op == 'store' and s not in ids_st and not any(same_value(f, s.ops[0], c.id) for c in ic) and
             not is_local(f, s.ops[1])]
    ctx.ob('C17.3', 'no other store to caller memory', not other, 'nothing outside the id/result slots is written', loc=(other[0].loc if other else f.loc),
           detail=str([describe(f, s.ops[1]) for s in other[:3]]))
    # split
    cr = call_sites(f, 'myth_create_ex_body')
    rec = call_sites(f, 'myth_create_join_various_ex_aux')
    if cr and rec:
        d0, d1 = cr[0].args[3], rec[0].args[0]
        ap0, ap1 = f.ap(d0), f.ap(d1)
        ctx.ob('C17.2', 'split: distinct descriptors for the two halves', f.sources(ap0.root) == f.sources(ap1.root) and ap0.key() != ap1.key() or
               affine(f, d0) != affine(f, d1),
               'the spawned thread and the caller work on different descriptor objects', loc=cr[0].loc,
               detail='%s vs %s' % (affine_str(affine(f, d0)), affine_str(affine(f, d1))))
        a0, a1 = affine(f, d0), affine(f, d1)
        late = [s for s in f.order if s.op == 'store' and s in f.reachable_from(cr[0]) and
                descr_elem(f, s.ops[1]) is not None and descr_elem(f, s.ops[1]) == descr_elem(f, d0)]
        ctx.ob('C17.2', 'split: spawned thread\'s descriptor not written after the create', not late,
               'with parent-first creation the child reads its descriptor later: rewriting it changes the child\'s range',
               loc=(late[0].loc if late else cr[0].loc))
        # the split point: c = trunc(E / 2) + R with E, R affine in (a, b) and E + 2R = a + b + t0, t0 in {0, 1}; then for
        # 0 <= a, b - a >= 2 (the only ranges that are split, C17.1): a < c < b, both halves are non-empty and shorter.  This
        # covers (a+b)/2, (a+b)>>1, a+(b-a)/2, b-(b-a)/2 ... -- whichever spelling, the obligation is the inequality
        def midpoint_ok(val):
            A = affine(f, val)
            divs = [k for k in A if k in f.insts and f.insts[k].op in ('sdiv', 'ashr', 'lshr', 'udiv') and A[k] in (1, -1) and
                    const_int(f.insts[k].ops[1]) == (2 if f.insts[k].op in ('sdiv', 'udiv') else 1)]
            if not divs:
                # degenerate but correct splits: c = a + 1 or c = b - 1
                byl = {}
                for k, v in A.items():
                    if k and v:
                        if not (k in f.insts and f.insts[k].op == 'load' and f.field(f.insts[k]) in (ARG + 'a', ARG + 'b')):
                            return False
                        byl[f.field(f.insts[k])] = byl.get(f.field(f.insts[k]), 0) + v
                return (byl, A.get('', 0)) in (({ARG + 'a': 1}, 1), ({ARG + 'b': 1}, -1))
            if len(divs) != 1:
                return False
            E = affine(f, f.insts[divs[0]].ops[0])
            sg = A[divs[0]]
            # R - floor(E/2) = floor((2R - E + 1) / 2)
            T = {k: sg * v for k, v in E.items()}
            if sg < 0:
                T[''] = T.get('', 0) + 1
            for k, v in A.items():
                if k != divs[0]:
                    T[k] = T.get(k, 0) + 2 * v
            byf = {}
            for k, v in T.items():
                if k == '' or v == 0:
                    continue
                if not (k in f.insts and f.insts[k].op == 'load' and f.field(f.insts[k]) in (ARG + 'a', ARG + 'b')):
                    return False
                byf[f.field(f.insts[k])] = byf.get(f.field(f.insts[k]), 0) + v
            # E itself must be non-negative for truncation to be floor: a + b or b - a (+ t0)
            Ef = {}
            for k, v in E.items():
                if k and v:
                    if not (k in f.insts and f.insts[k].op == 'load' and f.field(f.insts[k]) in (ARG + 'a', ARG + 'b')):
                        return False
                    Ef[f.field(f.insts[k])] = Ef.get(f.field(f.insts[k]), 0) + v
            nonneg = Ef in ({ARG + 'a': 1, ARG + 'b': 1}, {ARG + 'a': -1, ARG + 'b': 1}) and E.get('', 0) in (0, 1)
            return byf == {ARG + 'a': 1, ARG + 'b': 1} and T.get('', 0) in (0, 1) and nonneg
        cmid = None
        lb_st = [s_ for s_ in f.order if s_.op == 'store' and descr_elem(f, s_.ops[1]) == descr_elem(f, d0) and
                 descr_elem(f, d0) is not None and f.field(s_) == ARG + 'b']
        if len(lb_st) == 1 and isinstance(lb_st[0].ops[0], str) and midpoint_ok(lb_st[0].ops[0]):
            cmid = f.get(f.strip(lb_st[0].ops[0]))
        ctx.ob('C17.2', 'split: c = (a + b) / 2', cmid is not None,
               'the split point c is a midpoint of [a, b): a < c < b whenever b - a >= 2, so each half is non-empty and shorter than the range',
               loc=(lb_st[0].loc if lb_st else f.loc))
        for which, d in (('left', d0), ('right', d1)):
            el = descr_elem(f, d)
            sts = {}
            for s in f.order:
                if s.op == 'store' and descr_elem(f, s.ops[1]) == el and el is not None and f.field(s).startswith(ARG):
                    sts.setdefault(f.field(s)[len(ARG):], []).append(s)
            for fld in ('ids', 'attrs', 'funcs', 'args', 'results', 'id_stride', 'attr_stride', 'func_stride', 'arg_stride', 'result_stride'):
                ok = len(sts.get(fld, [])) == 1 and is_load_of(f, sts[fld][0].ops[0], ARG + fld)
                ctx.ob('C17.2', 'split: %s child copies %s' % (which, fld), ok,
                       'the child descriptor inherits %s from the same field of the parent' % fld,
                       loc=(sts[fld][0].loc if sts.get(fld) else f.loc))
            if cmid is not None:
                wa, wb = sts.get('a', []), sts.get('b', [])
                if which == 'left':
                    ok = len(wa) == 1 and len(wb) == 1 and is_load_of(f, wa[0].ops[0], ARG + 'a') and same_value(f, wb[0].ops[0], cmid.id)
                else:
                    ok = len(wa) == 1 and len(wb) == 1 and same_value(f, wa[0].ops[0], cmid.id) and is_load_of(f, wb[0].ops[0], ARG + 'b')
                ctx.ob('C17.2', 'split: %s child range' % which, ok, 'left = [a, c), right = [c, b)', loc=f.loc)
        at = cr[0].args[1]
        ain = f.get(f.strip(at)) if isinstance(at, str) else None
        okat = False
        if ain is not None and ain.op in ('select', 'phi'):
            vals = ain.ops[1:] if ain.op == 'select' else [x for x, _b in ain.d['incoming']]
            nulls = [x for x in vals if isinstance(x, dict) and x.get('null')]
            nonn = [x for x in vals if not (isinstance(x, dict) and x.get('null'))]
            if len(nulls) == 1 and len(nonn) == 1:
                okat, _d = strided(nonn[0], 'attrs', 'attr_stride')
        ctx.ob('C17.3', 'per-item attribute = attrs ? attrs + a*attr_stride : NULL', okat,
               'a NULL attrs array means default attributes', loc=cr[0].loc, detail=expr_str(f, at)[:160])
    m = ctx.need_fn(v, 'myth_create_join_many_ex_body')
    cv = call_sites(m, 'myth_create_join_various_ex_body')
    ctx.ob('C17.2', 'many: delegates to various', len(cv) == 1, 'create_join_many is create_join_various', loc=m.loc)
    for c in cv:
        names = [p['name'] for p in m.params]
        want = {0: 'ids', 1: 'attrs', 3: 'args', 4: 'results', 5: 'id_stride', 6: 'attr_stride', 8: 'arg_stride', 9: 'result_stride', 10: 'nthreads'}
        for pos, pn in want.items():
            ok = pn in names and same_value(m, c.args[pos], 'a%d' % names.index(pn))
            ctx.ob('C17.2', 'many: %s forwarded' % pn, ok, 'parameter %s is forwarded to the same-named parameter' % pn, loc=c.loc)
        ctx.ob('C17.2', 'many: func_stride = 0', const_int(c.args[7]) == 0, 'all items share the one function slot', loc=c.loc)
        fs = [s for s in m.order if s.op == 'store' and 'func' in names and same_value(m, s.ops[0], 'a%d' % names.index('func')) and
              m.sources(m.ap(s.ops[1]).root) == m.sources(m.ap(c.args[2]).root)]
        ctx.ob('C17.2', 'many: funcs = &func', len(fs) == 1, 'the function array is the single function', loc=c.loc)
    ctx.floor('C17.2', 40)
    ctx.floor('C17.3', 4)


def nn_conds(f, ref):
    out = []
    for br, nn, nl in null_tests(f, ref):
        c = br.d['cond']
        out.append((c, br.d['t'] == nn))
    return out


def guarded_phi_nonnull(f, ptr, at):
    """ptr is phi/select(NULL, x) where x is produced only where the array base itself was tested non-NULL, and the store at
    `at` is on the non-null edge of a test of that very pointer.  A test of base + offset alone is not a test of the base:
    NULL + i*stride is not NULL."""
    if not guarded_by_nonnull(f, ptr, at):
        return False
    pi = f.get(f.strip(ptr)) if isinstance(ptr, str) else None
    while pi is not None and pi.op in ('bitcast',):
        pi = f.get(f.strip(pi.ops[0])) if isinstance(pi.ops[0], str) else None
    if pi is None:
        return False
    if pi.op == 'load':
        return True                    # the tested pointer is the array base itself
    if pi.op == 'phi':
        inc = pi.d['incoming']
        nulls = [(v, b) for v, b in inc if isinstance(v, dict) and (v.get('null') or v.get('c') == 0)]
        others = [(v, b) for v, b in inc if (v, b) not in nulls]
        if not nulls or not others:
            return False
        for v, b in others:
            bases = [k for k in f.sources(v, through_arith=True) if k in f.insts and f.insts[k].op == 'load']
            term = f.blocks[b].insts[-1]
            if not bases or not any(guarded_by_nonnull(f, k, term) for k in bases):
                return False
        return True
    if pi.op == 'select':
        nul = [o for o in pi.ops[1:] if isinstance(o, dict) and (o.get('null') or o.get('c') == 0)]
        if len(nul) != 1:
            return False
        oth = [o for o in pi.ops[1:] if o not in nul]
        bases = set(k for o in oth for k in f.sources(o, through_arith=True) if k in f.insts and f.insts[k].op == 'load')
        ci = f.get(f.strip(pi.ops[0])) if isinstance(pi.ops[0], str) else None
        # the selecting condition is a NULL test of that base
        return ci is not None and ci.op == 'icmp' and ci.pred in ('eq', 'ne') and isinstance(ci.ops[1], dict) and \
            (ci.ops[1].get('null') or ci.ops[1].get('c') == 0) and bool(bases & set(f.sources(ci.ops[0])))
    if pi.op == 'getelementptr':
        # base + constant 0 only
        return pi.d.get('coff') == 0
    return False


def is_local(f, ptr):
    r = f.ap(ptr).root
    ins = f.get(f.strip(r)) if isinstance(r, str) else None
    return ins is not None and ins.op == 'alloca'


def descr_elem(f, ptr):
    """(alloca id, element index) of a pointer into the local array of child descriptors"""
    a = affine(f, ptr)
    terms = [k for k in a if k != '']
    if len(terms) != 1 or a[terms[0]] != 1:
        return None
    ins = f.insts.get(terms[0])
    if ins is None or ins.op != 'alloca':
        return None
    size = f.mod.structs.get('myth_create_join_various_arg', {}).get('size') or 96
    return (terms[0], a.get('', 0) // size)


def rule4_join(ctx, v):
    ctx.doc('C17.4', 'the spawned half is joined: every path from myth_create_ex_body(&cid, ..) to return passes '
            'myth_join_body(cid, ..) with cid the value written by that create; the right half runs in between')
    f = ctx.need_fn(v, 'myth_create_join_various_ex_aux')
    cr = call_sites(f, 'myth_create_ex_body')
    js = call_sites(f, 'myth_join_body')
    rec = call_sites(f, 'myth_create_join_various_ex_aux')
    for c in cr:
        good = [j for j in js if is_cid_load(f, j.args[0], c.args[0])]
        ctx.ob('C17.4', 'join of the spawned thread on every path', bool(good) and f.always_passes(c, good),
               'create_join returns only after the thread it spawned has been joined', loc=c.loc)
        ctx.ob('C17.4', 'right half runs between create and join', any(c2 in f.reachable_from(c, blocked=good) for c2 in rec) and
               all(f.dominates_f(r, j) for r in rec for j in good), 'the caller works on the right half while the left runs', loc=c.loc)
    ctx.ob('C17.4', 'create site', len(cr) == 1, 'one spawn per split', loc=f.loc)
    ctx.floor('C17.4', 3)


def is_cid_load(f, ref, cid_ptr):
    for k in f.sources(ref):
        ins = f.insts.get(k)
        if ins is None or ins.op != 'load' or f.sources(ins.ops[0]) != f.sources(cid_ptr):
            return False
    return bool(f.sources(ref))


# --------------------------------------------------------------------- mtbb
def mtbb_module(ctx, roots_pat, witness='mtbb_inst.cc', extra_flags=(), stop_pats=()):
    src = os.path.join(fe.VERIF, 'witnesses', witness)
    flags = ['-I' + os.path.join(ctx.repo, 'include'), '-I' + os.path.join(ctx.repo, 'src')] + list(extra_flags)
    base = ctx.ssa(src, flavour='cxx', area='witness', cxx=True, srcdir=os.path.join(fe.VERIF, 'witnesses'), flags=flags)
    names = {}
    for key, pats in roots_pat.items():
        hits = [n for n in base.functions if all(p in n for p in pats[0]) and not any(p in n for p in pats[1])]
        if len(hits) != 1:
            from ..frontend import AnalysisBroken
            raise AnalysisBroken('mtbb instantiation %s: expected one function matching %s, found %s' % (key, pats, hits))
        names[key] = hits[0]
    stops = ['myth_create', 'myth_join', '_Znwm', '_ZdlPv', '_Znam'] + [n for n in base.functions if any(p in n for p in stop_pats)]
    v = ctx.view(src, roots=list(names.values()), stops=stops, flavour='cxx', area='witness', cxx=True,
                 srcdir=os.path.join(fe.VERIF, 'witnesses'), flags=flags)
    return v, names


def rule5_mtbb(ctx):
    ctx.doc('C17.5', 'mtbb (instantiated in witnesses/mtbb_inst.cc): parallel_for_aux recurses (spawn and direct) only with '
            'b - a >= 2 and calls the body only with b - a == 1 at index first + a*step; grainsize variant recurses only with '
            'b - a > grainsize; parallel_for passes (last-first+step-1)/step resp. last-first iterations; task_list::add stores at '
            'tail->a[tail->n] with n < capacity after new_node() linked a fresh node behind the tail; run_task adds before '
            'myth_create; wait joins a[i] for all i < n of every node from head and then resets')
    pats = {
        'aux': (['parallel_for_aux', 'BodyIdx'], ['callable', 'grainsize']),
        'gaux': (['parallel_for_grainsize_aux', 'BodyRange'], ['callable']),
        'pf2': (['12parallel_forIl7BodyIdx', 'T_S3_RKS2_'], ['S3_S3_']),
        'pf3': (['12parallel_forIl7BodyIdx', 'T_S3_S3_RKS2_'], []),
        'add': (['task_list3add'], []),
        'new_node': (['task_list8new_node'], []),
        'run_task': (['task_group_no_prof8run_task'], []),
        'wait': (['task_group_no_prof4waitEv'], []),
    }
    v, nm = mtbb_module(ctx, pats)
    f = ctx.need_fn(v, nm['aux'])
    pn = [p['name'] for p in f.params]
    pa, pb = 'a%d' % pn.index('a'), 'a%d' % pn.index('b')
    first, step = 'a%d' % pn.index('first'), 'a%d' % pn.index('step')
    n_expr = [i for i in f.order if i.op == 'sub' and same_value(f, i.ops[0], pb) and same_value(f, i.ops[1], pa)]
    rec = [c for c in f.calls() if c.callee == nm['aux']]
    spawn = [c for c in f.calls() if c.callee and 'task_group_no_prof' in c.callee and 'run' in c.callee]
    body = [c for c in f.calls() if c.callee and 'BodyIdx' in c.callee and 'clE' in c.callee]
    ctx.ob('C17.5', 'parallel_for_aux: shape', len(rec) == 1 and len(spawn) == 1 and len(body) == 1 and len(n_expr) >= 1,
           'one spawn, one direct recursion, one body call', loc=f.loc, detail='%d/%d/%d' % (len(rec), len(spawn), len(body)))
    for r in rec + spawn:
        lo = None
        for n_ in n_expr:
            a, b = guard_interval(f, n_.id, r, width=64)
            lo = a if lo is None else (max(lo, a) if a is not None else lo)
        ctx.ob('C17.5', 'parallel_for_aux: recursion only with b - a >= 2', lo is not None and lo >= 2,
               'ranges of length <= 1 (in particular empty ones) must not be split: halving does not shrink them', loc=r.loc,
               detail='guards give b - a >= %s' % lo)
    for c in body:
        lo = hi = None
        for n_ in n_expr:
            a, b = guard_interval(f, n_.id, c, width=64)
            lo = a if lo is None else (max(lo, a) if a is not None else lo)
            hi = b if hi is None else (min(hi, b) if b is not None else hi)
        ctx.ob('C17.5', 'parallel_for_aux: body only for a single index', lo == 1 and hi == 1, 'the body is called exactly when b - a == 1', loc=c.loc,
               detail='[%s, %s]' % (lo, hi))
        ia = affine(f, c.args[-1])
        terms = [k for k in ia if k != '']
        okidx = first in ia and ia[first] == 1 and ia.get('', 0) == 0 and len(terms) == 2
        if okidx:
            m = f.insts.get([k for k in terms if k != first][0])
            okidx = m is not None and m.op == 'mul' and {f.strip(m.ops[0]), f.strip(m.ops[1])} == {pa, step}
        ctx.ob('C17.5', 'parallel_for_aux: index = first + a * step', okidx, 'the index handed to the body', loc=c.loc, detail=expr_str(f, c.args[1]))
    # halving
    mids = [i for i in f.order if i.op == 'add' and same_value(f, i.ops[0], pa) and f.get(f.strip(i.ops[1])) is not None and
            f.get(f.strip(i.ops[1])).op == 'sdiv' and const_int(f.get(f.strip(i.ops[1])).ops[1]) == 2]
    ctx.ob('C17.5', 'parallel_for_aux: c = a + (b - a)/2', len(mids) == 1, 'midpoint', loc=f.loc)
    if mids and rec:
        ctx.ob('C17.5', 'parallel_for_aux: right half [c, b)', same_value(f, rec[0].args[pn.index('a')], mids[0].id) and same_value(f, rec[0].args[pn.index('b')], pb),
               'direct recursion on [c, b)', loc=rec[0].loc)
    waits = [c for c in f.calls() if c.callee and 'task_group_no_prof' in c.callee and 'wait' in c.callee]
    for s in spawn:
        ctx.ob('C17.5', 'parallel_for_aux: waits for the spawned half', bool(waits) and f.always_passes(s, waits),
               'every path from the spawn to return passes task_group::wait', loc=s.loc)
    g = ctx.need_fn(v, nm['gaux'])
    gp = [p['name'] for p in g.params]
    ga, gb, gg = 'a%d' % gp.index('a'), 'a%d' % gp.index('b'), 'a%d' % gp.index('grainsize')
    grec = [c for c in g.calls() if c.callee == nm['gaux']] + [c for c in g.calls() if c.callee and 'task_group_no_prof' in c.callee and 'run' in c.callee]
    gt = [ic for ic in g.order if ic.op == 'icmp' and ic.pred in ('sle', 'sgt') and same_value(g, ic.ops[1], gg) and
          g.get(g.strip(ic.ops[0])) is not None and g.get(g.strip(ic.ops[0])).op == 'sub']
    ctx.ob('C17.5', 'grainsize aux: leaf test b - a <= grainsize', len(gt) == 1, 'ranges not longer than the grain are executed directly', loc=g.loc)
    for r in grec:
        ctx.ob('C17.5', 'grainsize aux: recursion only with b - a > grainsize', any(g.on_edge(ic.id, ic.pred == 'sgt', r) for ic in gt),
               'with grainsize >= 1 this implies b - a >= 2', loc=r.loc)
    # entries
    p2 = ctx.need_fn(v, nm['pf2'])
    p3 = ctx.need_fn(v, nm['pf3'])
    for fn_, kind in ((p2, 2), (p3, 3)):
        cs = [c for c in fn_.calls() if c.callee == nm['aux']]
        names = [p['name'] for p in fn_.params]
        fi, la = 'a%d' % names.index('first'), 'a%d' % names.index('last')
        ctx.ob('C17.5', 'parallel_for/%d: delegates' % kind, len(cs) == 1 and const_int(cs[0].args[pn.index('a')]) == 0 and
               same_value(fn_, cs[0].args[pn.index('first')], fi), 'aux(first, 0, n, step, f)', loc=fn_.loc)
        if not cs:
            continue
        n_ = cs[0].args[pn.index('b')]
        stp_arg = cs[0].args[pn.index('step')]
        if kind == 2:
            bad = [(fv, lv) for fv in range(-3, 4) for lv in range(-3, 7)
                   if (lambda g_, w_: g_ is None or (w_ > 0 and g_ != w_) or (w_ == 0 and g_ > 0))(
                       lib.eval_expr(fn_, n_, {fi: fv, la: lv}), len(range(fv, lv)))]
            ok = not bad and const_int(stp_arg) == 1
            ctx.ob('C17.5', 'parallel_for/2: iteration count = |range(first, last)|, step 1', ok, 'iteration count on a grid incl. empty ranges',
                   loc=cs[0].loc, detail=str(bad[:4]))
        else:
            st = 'a%d' % names.index('step')
            bad = []
            evaluated = 0
            for fv in range(-3, 4):
                for lv in range(-3, 7):
                    for sv in (1, 2, 3, 5):
                        got = lib.eval_expr(fn_, n_, {fi: fv, la: lv, st: sv})
                        if got is None:
                            continue
                        evaluated += 1
                        want = len(range(fv, lv, sv))
                        if (want > 0 and got != want) or (want == 0 and got > 0):
                            bad.append((fv, lv, sv, got, want))
            ok = evaluated == 7 * 10 * 4 and not bad and same_value(fn_, stp_arg, st)
            ctx.ob('C17.5', 'parallel_for/3: iteration count = |range(first, last, step)|', ok,
                   'the count expression, constant-folded on a grid of (first, last, step) incl. empty and reversed ranges, equals '
                   'the number of indices of the sequential loop (and is not positive for an empty range)', loc=cs[0].loc,
                   detail='%d points evaluated; mismatches (first,last,step,got,want): %s' % (evaluated, bad[:4]))
    # task list
    TL, TN = 'task_list.', 'task_list_node.'
    ad = ctx.need_fn(v, nm['add'])
    st = [s for s in ad.order if s.op == 'store' and same_value(ad, s.ops[0], 'a1')]
    ctx.ob('C17.5', 'task_list::add stores the task once', len(st) == 1, 'one slot receives the task', loc=ad.loc)
    full = [ic for ic in ad.order if ic.op == 'icmp' and ic.pred in ('eq', 'ne') and is_load_of(ad, ic.ops[0], TN + 'n') and is_load_of(ad, ic.ops[1], TN + 'capacity')]
    nn = [c for c in ad.calls() if c.callee == nm['new_node']]
    ctx.ob('C17.5', 'task_list::add grows when the tail is full', len(full) == 1 and len(nn) == 1 and ad.on_edge(full[0].id, full[0].pred == 'eq', nn[0]),
           'a new node is appended exactly when n == capacity', loc=ad.loc)
    for s in st:
        ap = ad.ap(s.ops[1])
        oka = ap.fields[-1:] == [TN + 'a'] or (TN + 'a') in ap.fields
        idx = [x for x in ap.steps if x[0] == 'i' and isinstance(x[1], str)]
        okn = bool(idx) and is_load_of(ad, idx[-1][1], TN + 'n')
        fresh = is_load_of(ad, ap.root, TL + 'tail') and all(not ad.can_reach(c, ad.insts[k]) is False for c in nn for k in ad.sources(ap.root) if k in ad.insts)
        # the tail (and its n) are re-read after new_node(): loads used for the store are not older than the call
        stale = [k for c in nn for k in list(ad.sources(ap.root)) + (list(ad.sources(idx[-1][1])) if idx else []) if k in ad.insts and ad.can_reach(ad.insts[k], c)]
        ctx.ob('C17.5', 'task_list::add stores at tail->a[tail->n] read after growing', oka and okn and is_load_of(ad, ap.root, TL + 'tail') and not stale,
               'the slot is tail->a[tail->n] of the (possibly new) tail, so the index is < capacity', loc=s.loc, detail=ap.desc())
        inc = [x for x in ad.stores_to(TN + 'n') if ad.dominates_f(s, x)]
        ctx.ob('C17.5', 'task_list::add increments n after storing', len(inc) == 1, 'n counts the stored tasks', loc=s.loc)
    nd = ctx.need_fn(v, nm['new_node'])
    nw = [c for c in nd.calls() if c.callee == '_Znwm']
    link = [s for s in nd.stores_to(TN + 'next') if nw and same_value(nd, s.ops[0], nw[0].id)]
    ctx.ob('C17.5', 'new_node links the fresh node behind the tail', len(link) == 1 and is_load_of(nd, nd.ap(link[0].ops[1]).root, TL + 'tail'),
           'tail->next = new node (linking it anywhere else drops the nodes in between from wait\'s traversal)', loc=nd.loc,
           detail=nd.ap(link[0].ops[1]).desc() if link else '')
    tl = [s for s in nd.stores_to(TL + 'tail') if nw and same_value(nd, s.ops[0], nw[0].id)]
    ctx.ob('C17.5', 'new_node advances the tail', len(tl) == 1 and bool(link) and nd.dominates_f(link[0], tl[0]), 'tail = new node after linking', loc=nd.loc)
    init0 = [s for s in nd.stores_to(TN + 'n') if const_int(s.ops[0]) == 0 and nw and same_value(nd, nd.ap(s.ops[1]).root, nw[0].id)]
    ctx.ob('C17.5', 'new_node starts empty', len(init0) == 1, 'n = 0, next = NULL, capacity set', loc=nd.loc)
    rt = ctx.need_fn(v, nm['run_task'])
    a_ = [c for c in rt.calls() if c.callee == nm['add']]
    mc = call_sites(rt, 'myth_create')
    ctx.ob('C17.5', 'run_task appends before creating the thread', len(a_) == 1 and len(mc) == 1 and rt.dominates_f(a_[0], mc[0]) and
           same_value(rt, a_[0].args[1], 'a1') and same_value(rt, mc[0].args[1], 'a1'), 'the task is registered, then started', loc=rt.loc)
    hs = [s for s in rt.order if s.op == 'store' and mc and same_value(rt, s.ops[0], mc[0].id)]
    ctx.ob('C17.5', 'run_task records the thread handle in the task', len(hs) == 1 and rt.field(hs[0]) == 'task.hthread' and
           same_value(rt, rt.ap(hs[0].ops[1]).root, 'a1'), 'wait() joins through this handle', loc=rt.loc)
    w = ctx.need_fn(v, nm['wait'])
    js = call_sites(w, 'myth_join')
    ctx.ob('C17.5', 'wait: one join site in a doubly nested loop', len(js) == 1 and lib.loop_containing(w, js[0]) is not None and
           lib.loop_containing(w, js[0])['depth'] == 2, 'for each node, for each i < n: join', loc=w.loc)
    for j in js:
        hl = [w.insts[k] for k in w.sources(j.args[0]) if k in w.insts]
        okh = len(hl) == 1 and hl[0].op == 'load' and w.field(hl[0]) == 'task.hthread'
        ctx.ob('C17.5', 'wait joins a[i]->hthread', okh, 'the handle stored by run_task', loc=j.loc)
        inner = lib.loop_containing(w, j)
        outer = w.loops[inner['parent']] if inner and inner['parent'] >= 0 else None
        bound = [ic for ic in w.order if ic.op == 'icmp' and ic.pred == 'slt' and inner and ic.block.id == inner['header'] and
                 is_load_of(w, ic.ops[1], TN + 'n')]
        ctx.ob('C17.5', 'wait: inner loop runs i < p->n', len(bound) == 1, 'all stored tasks of the node', loc=j.loc)
        nxt = [l for l in w.loads_of(TN + 'next') if outer and l.block.id in outer['blocks']]
        startp = [ph for ph in w.order if ph.op == 'phi' and outer and ph.block.id == outer['header'] and
                  any(w.ap(val).fields[-1:] == ['task_group_no_prof.tasks'] or 'task_list.head' in w.ap(val).fields or
                      (isinstance(val, str) and w.ap(val).desc().endswith('head')) or same_value(w, w.ap(val).root, 'a0')
                      for val, b in ph.d['incoming'] if not (isinstance(val, str) and val in [x.id for x in nxt]))]
        ctx.ob('C17.5', 'wait: outer loop follows next from the head node', len(nxt) >= 1 and len(startp) >= 1,
               'every node of the list is visited', loc=j.loc)
        resets = [x for x in w.stores_to(TL + 'tail')]  # task_list::reset/init inlined: tail = head
        ctx.ob('C17.5', 'wait resets the list after joining', bool(resets) and all(not w.can_reach(r, j) for r in resets) and
               w.always_passes(w.entry_inst(), resets), 'the group is reusable after wait', loc=w.loc)
    rule5_range_and_memory(ctx)
    rule5_prof_and_reentrancy(ctx)
    ctx.floor('C17.5', 24 + 12 + 3)


def rule5_prof_and_reentrancy(ctx):
    """(a) the profiling flavour of task_group (DAG_RECORDER == 2, instantiated in witnesses/mtbb_inst_prof.cc): wait_ joins the tasks
    of the group on every path - tasks can be added through the inherited run_task / run_if entry points, which the flavour's own
    child counter does not see; (b) the C bulk helpers keep no state in static storage (they are re-entrant: nested and concurrent
    calls with different functions)"""
    v, nm = mtbb_module(ctx, {'wait_': (['task_group_with_prof5wait_'], [])}, witness='mtbb_inst_prof.cc',
                        extra_flags=['-I' + os.path.join(ctx.repo, 'src', 'profiler')], stop_pats=('task_group_no_prof4waitEv',))
    f = ctx.need_fn(v, nm['wait_'])
    joins = [c for c in f.order if c.op in ('call', 'invoke') and c.callee and
             (('task_group_no_prof4wait' in c.callee) or c.callee == 'myth_join')]
    rets = [r for r in f.order if r.op == 'ret']
    reach = f.reachable_from(f.entry_inst(), blocked=joins, include_start=True)
    ctx.ob('C17.5', 'profiling task_group::wait_ joins the group on every path', bool(joins) and not [r for r in rets if r in reach],
           'the base class wait (which joins every registered task) is passed whatever the flavour\'s own child counter says', loc=f.loc)
    nat = ctx.view('myth_if_native.c', roots=['myth_create_join_many_ex_body', 'myth_create_join_various_ex_body'],
                   stops=('myth_create_ex_body', 'myth_join_body', 'myth_create_join_various_ex_aux'), flavour='vanilla')
    for name in ('myth_create_join_many_ex_body', 'myth_create_join_various_ex_body'):
        g = ctx.need_fn(nat, name)
        bad = [st for st in g.order if st.op == 'store' and isinstance(g.ap(st.ops[1]).root, dict) and g.ap(st.ops[1]).root.get('g')]
        ptrs = [a_ for c in g.calls() for a_ in c.args if isinstance(a_, (str, dict)) and isinstance(g.ap(a_).root, dict) and
                g.ap(a_).root.get('g') and not str(g.ap(a_).root.get('g')).startswith('.str')] if False else []
        ctx.ob('C17.5', '%s keeps no state in static storage' % name, not bad,
               'per-call tables (the one-element function array of create_join_many) live in the caller\'s frame: a static one is '
               'overwritten by a nested or concurrent call before the leaves of this call have read it', loc=(bad[0].loc if bad else g.loc))


def rule2_assert_independent(ctx, fl):
    """the bulk helper does its work outside assert(): compiled with -DNDEBUG (assertions compiled out, a configuration users of the
    installed headers and packagers pick freely) the creation, the recursive call on the other half and the join are still there"""
    names = ['myth_create_join_various_ex_aux', 'myth_create_join_various_ex_body', 'myth_create_join_many_ex_body']
    path, kw = ctx.emit_unit(names, fl, 'myth_if_native.c')
    kw2 = dict(kw)
    kw2['flags'] = list(kw['flags']) + ['-DNDEBUG']
    kw2['area'] = 'emit-ndebug'
    stops = ('myth_create_ex_body', 'myth_join_body')
    vd = ctx.view(path, roots=names, stops=stops, **kw)
    vn = ctx.view(path, roots=names, stops=stops, **kw2)
    for nm in names[:1]:
        fd, fn_ = ctx.need_fn(vd, nm), ctx.need_fn(vn, nm)
        def work(f):
            return sorted((c.callee or 'indirect') for c in f.calls() if (c.callee in stops or c.callee == nm or 'callee_ref' in c.d))
        ctx.ob('C17.2', '%s does the same work with assertions compiled out' % nm, work(fd) == work(fn_) and len(work(fd)) >= 3,
               'create, recursion, join and the item function are called in statements of their own, not inside assert(...): with '
               '-DNDEBUG an assert argument is not evaluated and the helper would do nothing for n >= 2', loc=fd.loc,
               detail='with assertions %s / without %s' % (work(fd), work(fn_)))


def rule5_range_and_memory(ctx):
    """range-based parallel_for (instantiated with a declared-only Range) and the task memory allocator of task_group"""
    pats = {
        'rpf': (['12parallel_forI3Rng7BodyRng'], ['callable']),
        'alloc': (['task_memory_allocator5alloc'], []),
        'new_chunk': (['task_memory_allocator9new_chunk'], []),
    }
    v, nm = mtbb_module(ctx, pats)
    f = ctx.need_fn(v, nm['rpf'])
    callsof = lambda pat: [c for c in f.order if c.op in ('call', 'invoke') and c.callee and pat in c.callee]
    emp, div, body = callsof('Rng5emptyEv'), callsof('Rng12is_divisibleEv'), callsof('BodyRngclE')
    ctors = [c for c in callsof('RngC') if len(c.args) == 4]
    rec = [c for c in f.order if c.op in ('call', 'invoke') and c.callee == nm['rpf']]
    ctx.ob('C17.5', 'range parallel_for: shape', len(emp) == 1 and len(div) == 1 and len(body) == 1 and len(ctors) == 2 and len(rec) == 1,
           'empty test, divisibility test, one body call, two sub-ranges, one direct recursion', loc=f.loc,
           detail='%d/%d/%d/%d/%d' % (len(emp), len(div), len(body), len(ctors), len(rec)))
    if not (len(emp) == 1 and len(div) == 1 and len(body) == 1 and len(ctors) == 2 and len(rec) == 1):
        return
    ctx.ob('C17.5', 'range parallel_for: body only for a non-empty, indivisible range',
           any(f.on_edge(c_, not p_, body[0]) for c_, p_ in lib.cond_chain(f, emp[0].id)) and
           any(f.on_edge(c_, not p_, body[0]) for c_, p_ in lib.cond_chain(f, div[0].id)), 'body(range) on !empty && !is_divisible', loc=body[0].loc)
    for c in ctors + rec:
        ctx.ob('C17.5', 'range parallel_for: splits only a divisible range', any(f.on_edge(c_, p_, c) for c_, p_ in lib.cond_chain(f, div[0].id)),
               'sub-ranges are built on the is_divisible() edge', loc=c.loc)
    # evaluate the four bounds with begin() = b, end() = e for every call of the accessors (they are pure observers of `range`)
    begins = [c.id for c in callsof('Rng5beginEv') if same_value(f, c.args[0], 'a0')]
    ends = [c.id for c in callsof('Rng3endEv') if same_value(f, c.args[0], 'a0')]
    left = [c for c in ctors if not same_value(f, c.args[0], rec[0].args[0])]
    right = [c for c in ctors if same_value(f, c.args[0], rec[0].args[0])]
    ctx.ob('C17.5', 'range parallel_for: the directly executed half is one of the two sub-ranges', len(left) == 1 and len(right) == 1,
           'parallel_for(right, body)', loc=rec[0].loc)
    if len(left) == 1 and len(right) == 1:
        bad, n_ev = [], 0
        for b in range(-9, 10):
            for e in range(b + 2, b + 12):
                env = dict((k, b) for k in begins)
                env.update((k, e) for k in ends)
                vals = [lib.eval_expr(f, x, env) for x in (left[0].args[1], left[0].args[2], right[0].args[1], right[0].args[2])]
                if any(x is None for x in vals):
                    continue
                n_ev += 1
                lb, le, rb, re_ = vals
                halves = sorted([(lb, le), (rb, re_)])
                if not (halves[0][0] == b and halves[1][1] == e and halves[0][1] == halves[1][0] and b < halves[0][1] < e):
                    bad.append((b, e, vals))
        ctx.ob('C17.5', 'range parallel_for: the two halves tile [begin, end) and both are shorter than it', n_ev == 19 * 10 and not bad,
               'bounds constant-folded on a grid of (begin, end) with end - begin >= 2, incl. negative indices: [begin, mid) and [mid, end) '
               'with begin < mid < end (a midpoint outside the range makes one half larger than the whole: unbounded recursion)',
               loc=left[0].loc, detail='%d points; first mismatches (begin, end, [l.b, l.e, r.b, r.e]): %s' % (n_ev, bad[:3]))
        gs = [c.id for c in callsof('Rng9grainsizeEv')]
        ctx.ob('C17.5', 'range parallel_for: grainsize handed down', all(f.strip(c.args[3]) in gs for c in ctors), 'same grain in both halves', loc=f.loc)
    spawn = [c for c in f.order if c.op in ('call', 'invoke') and c.callee and
             (('task_group_no_prof' in c.callee and 'run' in c.callee) or c.callee == 'myth_create')]
    waits = [c for c in f.order if c.op in ('call', 'invoke') and c.callee and
             (('task_group_no_prof' in c.callee and 'wait' in c.callee) or c.callee == 'myth_join')]
    ctx.ob('C17.5', 'range parallel_for: spawns one half and joins it', len(spawn) >= 1 and len(waits) >= 1 and
           all(f.can_reach(s_, w_) for s_ in spawn[:1] for w_ in waits[:1]), 'tg.run_(left) ... tg.wait_()', loc=f.loc)
    # ---- task memory allocator
    TMA, TMC = 'task_memory_allocator.', 'task_memory_chunk.'
    a = ctx.need_fn(v, nm['alloc'])
    grow = [c for c in a.calls() if c.callee == nm['new_chunk']]
    bump = [st for st in a.stores_to(TMC + 'p')]
    ctx.ob('C17.5', 'task memory alloc: shape', len(grow) == 1 and len(bump) == 1, 'one growth site, one bump of the allocation pointer', loc=a.loc)
    if len(grow) == 1 and len(bump) == 1:
        st = bump[0]
        root = a.get(a.strip(a.ap(st.ops[1]).root))
        fresh = root is not None and root.op == 'load' and a.field(root) == TMA + 'tail' and not a.can_reach(root, grow[0])
        ctx.ob('C17.5', 'task memory alloc: bumps the chunk that is the tail after growing', fresh,
               'tail->p = p + s with tail read after new_chunk() (bumping the old chunk leaves the new one at its start: the next task is '
               'constructed over this one)', loc=st.loc)
        rets = [r for r in a.order if r.op == 'ret' and r.ops]
        pv = a.get(a.strip(rets[0].ops[0])) if rets else None
        okp = pv is not None and pv.op == 'phi' and sorted((a.strip(x) == grow[0].id, is_load_of(a, x, TMC + 'p')) for x, _b in pv.d['incoming']) == [(False, True), (True, False)]
        if not okp and pv is not None and pv.op == 'load' and a.field(pv) == TMC + 'p':
            # the pointer re-read from the tail after a possible growth
            r2 = a.get(a.strip(a.ap(pv.ops[0]).root))
            okp = r2 is not None and r2.op == 'load' and a.field(r2) == TMA + 'tail' and not a.can_reach(r2, grow[0])
        ctx.ob('C17.5', 'task memory alloc: returns the old pointer, or the start of the new chunk', okp, 'p = tail->p, or new_chunk(s)', loc=a.loc)
        d = {k: c for k, c in lib.affine_diff(a, st.ops[0], pv.id).items() if c != 0} if okp else None
        ctx.ob('C17.5', 'task memory alloc: pointer advanced by the size', d == {'a1': 1}, 'tail->p = p + s', loc=st.loc)
        fits = [ic for ic in a.order if ic.op == 'icmp' and ic.pred in ('ugt', 'ule', 'uge', 'ult') and
                any(is_load_of(a, o, TMC + 'end') for o in ic.ops)]
        okg = any(a.on_edge(c_, p_ == (ic.pred in ('ugt', 'ult') and is_load_of(a, ic.ops[1] if ic.pred == 'ugt' else ic.ops[0], TMC + 'end')), grow[0])
                  for ic in fits for c_, p_ in lib.cond_chain(a, ic.id))
        ctx.ob('C17.5', 'task memory alloc: grows exactly when the request does not fit', bool(fits) and okg, 'p + s > tail->end', loc=grow[0].loc)
    nc = ctx.need_fn(v, nm['new_chunk'])
    nw = [c for c in nc.calls() if c.callee == '_Znwm']
    link = [s_ for s_ in nc.stores_to(TMC + 'next') if nw and same_value(nc, s_.ops[0], nw[0].id)]
    tl = [s_ for s_ in nc.stores_to(TMA + 'tail') if nw and same_value(nc, s_.ops[0], nw[0].id)]
    ini = [c for c in nc.calls() if c.callee and 'task_memory_chunk4init' in c.callee]
    ctx.ob('C17.5', 'new_chunk: initialised for the request, linked behind the tail, becomes the tail',
           len(nw) == 1 and len(link) == 1 and len(tl) == 1 and is_load_of(nc, nc.ap(link[0].ops[1]).root, TMA + 'tail') and
           nc.dominates_f(link[0], tl[0]) and
           ((len(ini) == 1 and same_value(nc, ini[0].args[0], nw[0].id) and same_value(nc, ini[0].args[1], 'a1')) or
            (not ini and all(any(same_value(nc, nc.ap(x.ops[1]).root, nw[0].id) for x in nc.stores_to(TMC + fld)) for fld in ('p', 'end', 'next')))),
           'ch->init(s); tail->next = ch; tail = ch', loc=nc.loc)
    rets = [r for r in nc.order if r.op == 'ret' and r.ops]
    ctx.ob('C17.5', 'new_chunk returns the new chunk\'s allocation pointer', bool(rets) and all(
        is_load_of(nc, r.ops[0], TMC + 'p') and nw and same_value(nc, nc.ap(nc.get(nc.strip(r.ops[0])).ops[0]).root, nw[0].id) for r in rets),
           'return ch->p', loc=nc.loc)


def run(ctx):
    for fl in flavours(ctx):
        ctx.unit = fl
        ctx.doc('C17.6', 'native API forwarding: each public entry point of this property reaches the implementation of the same name with its parameters in order and returns its result (sibling slips such as trylock -> lock, signal -> broadcast, swapped arguments)')
        ctx.attempt(lib.native_forwarding, ctx, 'C17.6', fl, lambda n: n.startswith('myth_create_join_'), floor=3)
        v = ctx.view(NATIVE, roots=['myth_create_join_various_ex_aux', 'myth_create_join_various_ex_body', 'myth_create_join_many_ex_body'],
                     stops=('myth_create_ex_body', 'myth_join_body', 'myth_self', 'myth_self_body'), flavour=fl)
        ctx.attempt(rule1_c, ctx, v)
        ctx.attempt(rule2_strides, ctx, v)
        ctx.attempt(rule2_assert_independent, ctx, fl)
        ctx.attempt(rule4_join, ctx, v)
    ctx.unit = 'mtbb'
    ctx.attempt(rule5_mtbb, ctx)


SCHED = 'src/myth_sched_func.h'
PF = 'src/mtbb/parallel_for.h'
TG = 'src/mtbb/task_group.h'
C17M2_OLD = """    int r0 = myth_create_ex_body(&cid, attr_a, myth_create_join_various_ex_aux, carg);
    assert(r0 == 0); /* TODO : better communicate error */
    void * r1 = myth_create_join_various_ex_aux(carg + 1);
    assert(r1 == 0); /* TODO : better communicate error */
    int r2 = myth_join_body(cid, 0);
    assert(r2 == 0); /* TODO : better communicate error */"""
C17M2_NEW = """    assert(myth_create_ex_body(&cid, attr_a, myth_create_join_various_ex_aux, carg) == 0);
    assert(myth_create_join_various_ex_aux(carg + 1) == 0);
    assert(myth_join_body(cid, 0) == 0);"""
MUTANTS = [
    {'name': 'split point one past the midpoint: a range of two items yields an empty right half and never shrinks (hand mutant r6)', 'expect': 'C17.2',
     'edits': [('src/myth_sched_func.h', "    long c = (a + b) / 2;", "    long c = (a + b) / 2 + 1;")]},
    {'name': 'create / recursion / join folded into assert() arguments (seed5 C17/m2)', 'expect': 'C17.2',
     'edits': [('src/myth_sched_func.h', C17M2_OLD, C17M2_NEW)]},
    {'name': 'split descriptor narrowed to 32-bit strides (seed5 C17/m1)', 'expect': 'C17.2',
     'edits': [('src/myth_sched_func.h', "  size_t id_stride;\t\t/* stride of ids   between consecutive threads */", "  unsigned id_stride;\t\t/* stride of ids   between consecutive threads */")]},
    {'name': 'create_join_many keeps its one-element function table in static storage (seed4 C17/m1)', 'expect': 'C17.5',
     'edits': [('src/myth_sched_func.h', "  myth_func_t funcs[1] = { func };", "  static myth_func_t funcs[1];\n  funcs[0] = func;")]},
    {'name': 'profiling task_group::wait_ returns without joining when its own counter is zero (seed4 C17/m2)', 'expect': 'C17.5',
     'edits': [(TG, "      if (n_outstanding_children == 0) dr_begin_section();\n      dr_dag_node * t = dr_enter_wait_tasks_(file, line);", "      if (n_outstanding_children == 0) return;\n      dr_dag_node * t = dr_enter_wait_tasks_(file, line);")]},
    {'name': 'range parallel_for midpoint (begin+end)/2u wraps for negative indices (seed3 C17/m1)', 'expect': 'C17.5',
     'edits': [(PF, "      Range left(range.begin(),\n                 range.begin() + (range.end() - range.begin()) / 2u,\n                 range.grainsize());\n      const Range right(range.begin() + (range.end() - range.begin()) / 2u,\n                        range.end(),\n                        range.grainsize());",
                "      Range left(range.begin(), (range.begin() + range.end()) / 2u, range.grainsize());\n      const Range right((range.begin() + range.end()) / 2u, range.end(), range.grainsize());")]},
    {'name': 'task memory alloc bumps the chunk read before growing (seed3 C17/m3)', 'expect': 'C17.5',
     'edits': [(TG, "      char * p = tail->p;\n      if (p + s > tail->end)\n\tp = new_chunk(s);\n      assert(tail->p == p);\n      assert(tail->p + s <= tail->end);\n      tail->p = p + s;",
                "      task_memory_chunk * ch = tail;\n      char * p = ch->p;\n      if (p + s > ch->end)\n\tp = new_chunk(s);\n      assert(tail->p == p);\n      assert(tail->p + s <= tail->end);\n      ch->p = p + s;")]},
    {'name': 'ids/results NULL test after adding the stride offset (seed2 C17/m1)', 'expect': 'C17.3',
     'edits': [(SCHED, "    void * ids     = (meta_arg->ids   ? (char *)meta_arg->ids   + a * id_stride : 0);", "    void * ids     = (char *)meta_arg->ids     + a * id_stride;"),
               (SCHED, "    void * results = (meta_arg->results ? (char *)meta_arg->results + a * result_stride : 0);  ", "    void * results = (char *)meta_arg->results + a * result_stride;")]},
    {'name': 'C entry drops the nthreads == 0 guard', 'expect': 'C17.1',
     'edits': [(SCHED, "  if (nthreads == 0) return 0;\n  myth_create_join_various_arg arg[1] = {", "  myth_create_join_various_arg arg[1] = {")]},
    {'name': 'mtbb empty-range guard removed (original defect D9)', 'expect': 'C17.5',
     'edits': [(PF, "    if (b - a <= 0) {\n      /* empty range: nothing to do */\n    } else if (b - a == 1) {", "    if (b - a == 1) {")]},
    {'name': 'mtbb guard weakened to b == a', 'expect': 'C17.5',
     'edits': [(PF, "    if (b - a <= 0) {\n      /* empty range: nothing to do */", "    if (b - a == 0) {\n      /* empty range: nothing to do */")]},
    {'name': 'results slot uses the argument stride', 'expect': 'C17.2',
     'edits': [(SCHED, "(char *)meta_arg->results + a * result_stride : 0);", "(char *)meta_arg->results + a * arg_stride : 0);")]},
    {'name': 'children get (a,c) and (a,b)', 'expect': 'C17.2',
     'edits': [(SCHED, "\tid_stride, attr_stride, func_stride, arg_stride, result_stride, \n\tc, b }", "\tid_stride, attr_stride, func_stride, arg_stride, result_stride, \n\ta, b }")]},
    {'name': 'one shared child descriptor rewritten after the spawn (seed C17/m1)', 'expect': 'C17.2',
     'edits': [(SCHED, "    void * r1 = myth_create_join_various_ex_aux(carg + 1);", "    carg[0] = carg[1];\n    void * r1 = myth_create_join_various_ex_aux(carg);")]},
    {'name': 'many swaps arg and result strides', 'expect': 'C17.2',
     'edits': [(SCHED, "\t\t\t\t\t  id_stride, attr_stride, 0, arg_stride, result_stride,\n\t\t\t\t\t  nthreads);", "\t\t\t\t\t  id_stride, attr_stride, 0, result_stride, arg_stride,\n\t\t\t\t\t  nthreads);")]},
    {'name': 'results stored without the NULL test', 'expect': 'C17.3',
     'edits': [(SCHED, "    if (results) {\n      ((void **)results)[0] = y;\n    }", "    ((void **)results)[0] = y;")]},
    {'name': 'attribute pointer computed from a NULL attrs', 'expect': 'C17.3',
     'edits': [(SCHED, "(myth_thread_attr_t *)(attrs ? (char *)attrs + a * attr_stride : 0);", "(myth_thread_attr_t *)((char *)attrs + a * attr_stride);")]},
    {'name': 'spawned half not joined', 'expect': 'C17.4',
     'edits': [(SCHED, "    int r2 = myth_join_body(cid, 0);\n    assert(r2 == 0); /* TODO : better communicate error */", "    int r2 = 0;\n    assert(r2 == 0);")]},
    {'name': 'task list: node linked behind the head (seed C17/m2)', 'expect': 'C17.5',
     'edits': [(TG, "      tail->next = new_node_;\n      tail = new_node_;", "      head->next = new_node_;\n      tail = new_node_;")]},
    {'name': 'task list: grows one entry too late', 'expect': 'C17.5',
     'edits': [(TG, "      if (tail->n == tail->capacity) new_node();", "      if (tail->n > tail->capacity) new_node();")]},
    {'name': 'task group: wait skips the last entry of each node', 'expect': 'C17.5',
     'edits': [(TG, "\tfor (int i = 0; i < p->n; i++) {", "\tfor (int i = 0; i < p->n - 1; i++) {")]},
    {'name': 'parallel_for: empty range counts one iteration (seed C17/m3)', 'expect': 'C17.5',
     'edits': [(PF, "    return parallel_for_aux(first, Index(0), (last - first + step - 1) / step, step, f);", "    return parallel_for_aux(first, Index(0), (last - first - 1) / step + 1, step, f);")]},
    {'name': 'parallel_for_aux: body index ignores the step', 'expect': 'C17.5',
     'edits': [(PF, "      f(first + a * step);", "      f(first + a);")]},
    {'name': 'parallel_for_aux: returns without waiting for the spawned half', 'expect': 'C17.5',
     'edits': [(PF, "      parallel_for_aux(first, c, b, step, f);\n      //tg.wait();\n      tg.wait_(__FILE__, __LINE__);\n    }\n    return f;", "      parallel_for_aux(first, c, b, step, f);\n      if (b - a > 2) tg.wait_(__FILE__, __LINE__);\n    }\n    return f;")]},
]
