"""C13 - each thread is reaped exactly once and reaping recycles its resources."""
from .. import lib
from ..lib import (call_sites, same_value, describe, LockAnalysis, is_load_of, ret_cases, null_tests, guarded_by_null)
from ..ir import const_int
from .c01 import truthy_conds, after_ready2

META = {
    'explanation': 'Reaping obligations: (1) on every success path of join/tryjoin/detach-of-finished the record release '
                   'is passed exactly once (must-pass-through + no release reachable from a release), the busy path of '
                   'tryjoin releases nothing and holds no lock; (2) value/control flow from attr->detachstate to the '
                   'detached flag at creation, from the pthread attribute into detachstate, and from the native setter; '
                   '(3) allocation consults the per-worker free list before mapping fresh memory, and the list popped by '
                   'allocation is the list pushed by release (field identity) for records and stacks; (4) timed-join '
                   'returns the timeout code only on the now > deadline edge and success only after a successful try.',
    'not_decided': 'bounded memory over unbounded create/reap histories; exactly-once reaping under every interleaving',
    'assumptions': ['a finished thread\'s record is reachable only through the id handed to the application'],
}
META['explanation'] += ' Detach sets the flag under the record lock on the not-finished edge (C13.11) and the detach state comes from an initialised attribute (C13.12).'

NATIVE = 'myth_if_native.c'
TH = 'myth_thread.'
DESC_FREE = 'free_myth_thread_struct_desc'
EBUSY = 16


def flavours(ctx):
    return ['vanilla', 'ld', 'dl'] if ctx.tier == 'thorough' else ['vanilla']


def once_on_success(ctx, f, rule, name, frees, success_anchor):
    reach = f.reachable_from(f.entry_inst(), blocked=frees, include_start=True)
    target = success_anchor.term if hasattr(success_anchor, 'term') else success_anchor
    skipped = target in reach and not (hasattr(success_anchor, 'bfrom') and
                                       not edge_reachable_without(f, success_anchor, frees))
    ctx.ob(rule, name + ': success releases the record', not skipped,
           'no path reaches the success return without releasing the record', loc=success_anchor.loc,
           trace=[] if not skipped else lib.lines(f.witness_path(f.entry_inst(), [target], blocked=frees)))


def edge_reachable_without(f, ep, blocked):
    """can the CFG edge ep be traversed on a path from entry that avoids `blocked`?"""
    reach = f.reachable_from(f.entry_inst(), blocked=blocked, include_start=True)
    b = set(x.id for x in blocked)
    return ep.term in reach and ep.term.id not in b


def rule1_once(ctx, v, rule='C13.1'):
    ctx.doc(rule, 'join / tryjoin / detach: every success path passes the record release exactly once; the busy path of '
            'tryjoin passes none and returns unlocked; detach of an unfinished thread releases nothing')
    for name in ('myth_join_body', 'myth_tryjoin_body'):
        f = ctx.need_fn(v, name)
        frees = call_sites(f, DESC_FREE)
        ctx.ob(rule, name + ': has release', bool(frees), 'the function recycles the record', loc=f.loc)
        again = [(a, b) for a in frees for b in frees if b in f.reachable_from(a)]
        ctx.ob(rule, name + ': at most one release per call', not again,
               'no release is reachable from a release (no double free of the record)', loc=(again[0][1].loc if again else f.loc))
        from .c02 import env_origin_ok
        thp = f.param_named('th') or 'a0'
        for fr in frees:
            ok_env, why = env_origin_ok(f, fr.args[0])
            ctx.ob(rule, name + ': record released to the executing worker\'s free list', ok_env and same_value(f, fr.args[1], thp),
                   'free_myth_thread_struct_desc(env, th) with env the current worker (the free lists are unsynchronised and per worker) and '
                   'th the thread being reaped', loc=fr.loc, detail=why)
        la = LockAnalysis(f)
        for val, anchor in ret_cases(f):
            c = const_int(val)
            if c == 0:
                once_on_success(ctx, f, rule, name, frees, anchor)
            elif c == EBUSY and name == 'myth_tryjoin_body':
                tgt = anchor.term if hasattr(anchor, 'term') else anchor
                bad = [fr for fr in frees if tgt in f.reachable_from(fr)]
                ctx.ob(rule, name + ': busy path releases nothing', not bad,
                       'EBUSY is returned without touching the record\'s ownership', loc=anchor.loc)
                ctx.ob(rule, name + ': busy path unlocked', not la.held_may(tgt), 'no lock is held when EBUSY is returned',
                       loc=anchor.loc)
                fin = [(l, ic) for l in f.loads_of(TH + 'status') for ic in f.users(l.id)
                       if ic.op == 'icmp' and ic.pred in ('sge', 'uge', 'sgt', 'ugt')]
                ok = any(f.on_edge(ic.id, False, anchor) for l, ic in fin)
                ctx.ob(rule, name + ': busy exactly when not finished', ok,
                       'EBUSY is returned only on the not-finished edge of the status test', loc=anchor.loc)
            else:
                ctx.ob(rule, name + ': return codes', False, 'unexpected return value %s' % describe(f, val), loc=anchor.loc)
        if name == 'myth_tryjoin_body':
            fin = [(l, ic) for l in f.loads_of(TH + 'status') for ic in f.users(l.id)
                   if ic.op == 'icmp' and ic.pred in ('sge', 'uge', 'sgt', 'ugt')]
            for fr in frees:
                ctx.ob(rule, name + ': release only if finished', any(f.on_edge(ic.id, True, fr) for l, ic in fin),
                       'the record is released only on the finished edge', loc=fr.loc)
    d = ctx.need_fn(v, 'myth_detach_body')
    frees = call_sites(d, DESC_FREE)
    again = [(a, b) for a in frees for b in frees if b in d.reachable_from(a)]
    ctx.ob(rule, 'myth_detach_body: at most one release per call', not again, 'no release reachable from a release',
           loc=(again[0][1].loc if again else d.loc))
    sts = d.stores_to(TH + 'detached')
    for s in sts:
        bad = [fr for fr in frees if fr in d.reachable_from(s) or s in d.reachable_from(fr)]
        ctx.ob(rule, 'myth_detach_body: unfinished thread is only flagged', not bad,
               'on the path that sets detached the record is not released by the detacher (the finisher will)', loc=s.loc)
    for r in d.exits():
        reach = d.reachable_from(d.entry_inst(), blocked=frees + sts, include_start=True)
        ctx.ob(rule, 'myth_detach_body: every path reaps or flags', r not in reach,
               'detach either releases a finished record or marks the thread detached; it never does neither', loc=r.loc)
    ctx.floor(rule, 12)


def rule2_detachstate(ctx, fl):
    ctx.doc('C13.2', 'the detach-state attribute reaches the thread: myth_create_ex_body stores a non-zero detached flag '
            'under control of a load of attr->detachstate; myth_thread_attr_setdetachstate_body stores its argument in '
            'that field; pthread_attr_to_myth fills it from pthread_attr_getdetachstate after myth_thread_attr_init_body '
            'and pthread_create hands the translated attribute to myth_create_ex_body')
    v = ctx.view(NATIVE, roots=['myth_create_ex_body', 'myth_thread_attr_setdetachstate_body',
                                'myth_thread_attr_getdetachstate_body'],
                 stops=('myth_queue_push', 'myth_queue_pop', 'get_new_myth_thread_struct_desc',
                        'get_new_myth_thread_struct_stack', 'myth_init_ex_body') + lib.SPIN_STOPS, flavour=fl)
    f = ctx.need_fn(v, 'myth_create_ex_body')
    attr = f.param_named('attr')
    nts = call_sites(f, 'get_new_myth_thread_struct_desc')
    lds = [l for l in f.loads_of('myth_thread_attr.detachstate') if same_value(f, f.ap(l.ops[0]).root, attr)]
    ctx.ob('C13.2', 'myth_create_ex_body: consults attr->detachstate', len(lds) >= 1,
           'the creation path reads the detach-state attribute', loc=f.loc)
    sts = [s for s in f.stores_to(TH + 'detached') if nts and f.sources(f.ap(s.ops[1]).root) == f.sources(nts[0].id)]
    flow = False
    for s in sts:
        c = const_int(s.ops[0])
        if c is not None and c != 0:
            if any(f.on_edge(cond, pol, s) for l in lds for cond, pol in truthy_conds(f, l.id)):
                flow = True
        elif c is None and any(f.derives_from(s.ops[0], lambda x, l=l: getattr(x, 'id', None) == l.id) for l in lds):
            flow = True
    ctx.ob('C13.2', 'myth_create_ex_body: detachstate decides detached', flow,
           'a thread created with a non-zero detach-state gets detached != 0 (so the finisher releases its record)',
           loc=(lds[0].loc if lds else f.loc))
    # ... on both creation orders: the store is not confined to one of the two publication paths
    from .c01 import publication_events
    pubs = publication_events(f)
    setters = [s for s in sts if (const_int(s.ops[0]) not in (None, 0)) or const_int(s.ops[0]) is None]
    okboth = bool(setters) and len(pubs) >= 2 and all(any(f.can_reach(s, p_) for s in setters) for p_ in pubs)
    ctx.ob('C13.2', 'myth_create_ex_body: detachstate is applied before the thread is published on either creation order', okboth,
           'the detached flag is set before the switch of the child-first path and before the push of the parent-first path', loc=f.loc,
           detail='%d publication events' % len(pubs))
    zero = [s for s in sts if const_int(s.ops[0]) == 0]
    ctx.ob('C13.2', 'myth_create_ex_body: joinable by default', len(zero) >= 1,
           'the flag is reset to joinable for a recycled record', loc=f.loc)
    for l in lds:
        ctx.ob('C13.2', 'myth_create_ex_body: attr null-checked', lib.guarded_by_nonnull(f, attr, l),
               'attr->detachstate is read only when attr is non-NULL', loc=l.loc)
    s_ = ctx.need_fn(v, 'myth_thread_attr_setdetachstate_body')
    st = s_.stores_to('myth_thread_attr.detachstate')
    ctx.ob('C13.2', 'attr_setdetachstate stores its argument', len(st) == 1 and same_value(s_, st[0].ops[0], 'a1') and
           same_value(s_, s_.ap(st[0].ops[1]).root, 'a0'), 'the setter writes detachstate of its attr', loc=s_.loc)
    g_ = ctx.need_fn(v, 'myth_thread_attr_getdetachstate_body')
    ld = g_.loads_of('myth_thread_attr.detachstate')
    ctx.ob('C13.2', 'attr_getdetachstate reads the same field', len(ld) == 1 and
           any(x.op == 'store' and same_value(g_, x.ops[0], ld[0].id) and same_value(g_, x.ops[1], 'a1') for x in g_.order),
           'the getter returns the field the setter wrote', loc=g_.loc)
    # pthread side (LD and DL flavours contain the wrappers)
    for wfl in (('ld', 'dl') if ctx.tier == 'thorough' else ('ld',)):
        w = ctx.view('myth_wrap_pthread.c', roots=['pthread_attr_to_myth', '__wrap_pthread_create' if wfl == 'ld' else 'pthread_create'],
                     stops=('myth_create_ex_body', 'myth_thread_attr_init_body'), flavour=wfl)
        t = ctx.need_fn(w, 'pthread_attr_to_myth')
        m = t.param_named('m') or 'a1'
        p = t.param_named('p') or 'a0'
        ini = call_sites(t, 'myth_thread_attr_init_body')
        gd = [c for c in t.calls() if c.callee and c.callee.endswith('pthread_attr_getdetachstate')]
        ctx.ob('C13.2', 'pthread_attr_to_myth[%s]: init then detachstate' % wfl, len(ini) == 1 and len(gd) == 1 and
               t.dominates_f(ini[0], gd[0]) and same_value(t, ini[0].args[0], m),
               'the translated attribute is initialised with defaults before the detach state is copied in', loc=t.loc)
        for c in gd:
            ok = same_value(t, c.args[0], p) and lib.arg_is_field_of(t, c.args[1], 'myth_thread_attr.detachstate') and \
                same_value(t, t.ap(c.args[1]).root, m)
            ctx.ob('C13.2', 'pthread_attr_to_myth[%s]: fills detachstate' % wfl, ok,
                   'pthread_attr_getdetachstate(p, &m->detachstate)', loc=c.loc)
        wn = '__wrap_pthread_create' if wfl == 'ld' else 'pthread_create'
        pc = ctx.need_fn(w, wn)
        cr = call_sites(pc, 'myth_create_ex_body')
        tr = call_sites(pc, 'pthread_attr_to_myth')
        ok = len(cr) == 1 and len(tr) == 1 and same_value(pc, cr[0].args[1], tr[0].id) and \
            same_value(pc, tr[0].args[0], pc.param_named('attr') or 'a1')
        ctx.ob('C13.2', 'pthread_create[%s]: passes the translated attribute' % wfl, ok,
               'pthread_create hands pthread_attr_to_myth(attr) to myth_create_ex_body', loc=pc.loc)
    ctx.floor('C13.2', 9)


def rule3_recycle(ctx, fl):
    ctx.doc('C13.3', 'get_new_myth_thread_struct_desc/_stack pop the worker\'s free list and map fresh memory only on its '
            'empty edge; the free list field popped is the one the release pushes to (records: freelist_desc, stacks: '
            'freelist_stack) and the pushed pointer is the record / stack itself')
    v = ctx.view(NATIVE, roots=['get_new_myth_thread_struct_desc', 'get_new_myth_thread_struct_stack',
                                DESC_FREE, 'free_myth_thread_struct_stack'],
                 stops=('myth_freelist_pop', 'myth_freelist_push', 'myth_mmap', 'myth_flmalloc', 'myth_flfree') + lib.SPIN_STOPS,
                 flavour=fl)
    for alloc, rel, field in (('get_new_myth_thread_struct_desc', DESC_FREE, 'myth_running_env.freelist_desc'),
                              ('get_new_myth_thread_struct_stack', 'free_myth_thread_struct_stack', 'myth_running_env.freelist_stack')):
        a = ctx.need_fn(v, alloc)
        r = ctx.need_fn(v, rel)
        pops = [p for p in call_sites(a, 'myth_freelist_pop') if lib.arg_is_field_of(a, p.args[0], field)]
        ctx.ob('C13.3', alloc + ': pops ' + field.split('.')[1], len(pops) == 1 and same_value(a, a.ap(pops[0].args[0]).root, 'a0'),
               'allocation first consults the calling worker\'s free list', loc=a.loc)
        for m in call_sites(a, 'myth_mmap'):
            ctx.ob('C13.3', alloc + ': mmap only when the list is empty', any(guarded_by_null(a, p.id, m) for p in pops),
                   'fresh memory is mapped only on the empty edge of the free-list pop', loc=m.loc)
        ctx.ob('C13.3', alloc + ': has fresh path', len(call_sites(a, 'myth_mmap')) >= 1, 'fresh path present', loc=a.loc)
        for p in pops:
            ok = any(same_value(a, val, p.id) and lib.guarded_by_nonnull(a, p.id, anchor) for val, anchor in ret_cases(a)
                     if isinstance(val, str))
            ctx.ob('C13.3', alloc + ': returns the recycled element', ok,
                   'a non-empty pop result is what the allocation returns', loc=p.loc)
        pushes = [p for p in call_sites(r, 'myth_freelist_push') if lib.arg_is_field_of(r, p.args[0], field)]
        ctx.ob('C13.3', rel + ': pushes ' + field.split('.')[1], len(pushes) == 1 and
               same_value(r, r.ap(pushes[0].args[0]).root, 'a0'),
               'release returns the resource to the same per-worker list allocation pops', loc=r.loc)
        for p in pushes:
            if rel == DESC_FREE:
                ok = same_value(r, p.args[1], 'a1')
            else:
                ok = is_load_of(r, p.args[1], TH + 'stack')
            ctx.ob('C13.3', rel + ': pushes the resource itself', ok, 'the pointer pushed is the record / the stack', loc=p.loc)
        rels = pushes + call_sites(r, 'myth_flfree')
        rets = [i for i in r.order if i.op == 'ret']
        if rel == DESC_FREE:
            reach = r.reachable_from(r.entry_inst(), blocked=rels, include_start=True)
            ctx.ob('C13.3', rel + ': every call releases', not [x for x in rets if x in reach],
                   'no path through the release function skips the push', loc=r.loc)
        else:
            sl = [i for i in r.order if i.op == 'load' and r.field(i) == TH + 'stack']
            tests = [t for l in sl for t in null_tests(r, l.id) if t[1] != t[2]]
            ctx.ob('C13.3', rel + ': only a missing stack is skipped', len(tests) >= 1 or not [
                x for x in rets if x in r.reachable_from(r.entry_inst(), blocked=rels, include_start=True)],
                   'the release is unconditional or conditional on th->stack only', loc=r.loc)
            for br, nn, nl in tests:
                reach = r.reachable_from(lib.first_inst(r, nn), blocked=rels, include_start=True)
                ctx.ob('C13.3', rel + ': a present stack is always released', not [x for x in rets if x in reach],
                       'from the non-null edge of the th->stack test every path passes the free-list push or myth_flfree '
                       '(otherwise every reaped thread leaks its stack and create/reap cycles grow without bound)', loc=br.loc)
            for p in rels:
                ctx.ob('C13.3', rel + ': release guarded by stack != NULL', not tests or any(
                    r.edge_dominates(br.block.id, nn, p) for br, nn, nl in tests),
                       'nothing is pushed / freed for a thread that has no stack', loc=p.loc)
        others = [p for p in call_sites(r, 'myth_freelist_push') if p not in pushes]
        ctx.ob('C13.3', rel + ': no other list', not others, 'the release does not push to any other list', loc=r.loc)
    ctx.floor('C13.3', 16)


def rule4_timed(ctx, v):
    ctx.doc('C13.4', 'myth_timedjoin_body: returns 0 only on the edge tryjoin == 0; returns the timeout code only on the true '
            'edge of myth_timespec_gt(now, abstime) with now filled by hr_gettime in the same iteration; yields between tries')
    f = ctx.need_fn(v, 'myth_timedjoin_body')
    trys = call_sites(f, 'myth_tryjoin_body')
    gts = call_sites(f, 'myth_timespec_gt')
    clk = call_sites(f, 'hr_gettime')
    ctx.ob('C13.4', 'timedjoin: shape', len(trys) >= 1 and len(gts) == 1 and len(clk) == 1, 'try / clock / compare present', loc=f.loc)
    for t in trys:
        ctx.ob('C13.4', 'timedjoin: tries the right thread', same_value(f, t.args[0], 'a0') and same_value(f, t.args[1], 'a1'),
               'tryjoin(th, result)', loc=t.loc)
    for val, anchor in ret_cases(f):
        c = const_int(val)
        if c == 0:
            ok = any(f.on_edge(ic.id, ic.pred == 'eq', anchor) for t in trys for ic in f.users(t.id)
                     if ic.op == 'icmp' and ic.pred in ('eq', 'ne') and const_int(ic.ops[1]) == 0)
            ctx.ob('C13.4', 'timedjoin: success only after tryjoin == 0', ok, 'success means the thread was reaped', loc=anchor.loc)
        else:
            ok = any(f.on_edge(cond, pol, anchor) for g in gts for cond, pol in truthy_conds(f, g.id))
            ctx.ob('C13.4', 'timedjoin: gives up only past the deadline', ok,
                   'the timeout code is returned only on the true edge of now > abstime', loc=anchor.loc)
            ctx.ob('C13.4', 'timedjoin: timeout code', c == EBUSY, 'the give-up code is EBUSY', loc=anchor.loc)
            for t in trys:
                tests = [br for ic in f.users(t.id) if ic.op == 'icmp' for cond, pol in lib.cond_chain(f, ic.id)
                         for br, _t, _f in f.cond_edges(cond)]
                ctx.ob('C13.4', 'timedjoin: no give-up after an unexamined try', not lib.reaches_point(f, t, anchor, blocked=tests),
                       'a try that may have reaped the thread (result copied, record recycled) is examined before "busy" can be '
                       'reported; otherwise the caller joins again and the record is released a second time', loc=t.loc)
    for g in gts:
        ok = same_value(f, g.args[1], 'a2') and clk and f.sources(g.args[0]) == f.sources(clk[0].args[0]) and \
            f.dominates_f(clk[0], g) and not [t for t in trys if t in f.reachable_from(clk[0], blocked=[g]) and False]
        ctx.ob('C13.4', 'timedjoin: compares fresh clock with abstime', bool(ok),
               'myth_timespec_gt(tp, abstime) with tp just filled by hr_gettime', loc=g.loc)
        lp = lib.loop_containing(f, g)
        ctx.ob('C13.4', 'timedjoin: clock re-read every iteration', lp is not None and clk and clk[0].block.id in lp['blocks'],
               'the clock read is inside the retry loop', loc=g.loc)
    ctx.ob('C13.4', 'timedjoin: first attempt precedes the deadline test',
           any(not f.in_loop(t) and all(f.dominates_f(t, g) for g in gts) for t in trys),
           'a target that has already finished is reaped even if the deadline has passed (try first); otherwise the poll idiom with a '
           'zero timeout never reaps it', loc=f.loc)
    ys = call_sites(f, 'myth_yield_ex_body')
    ctx.ob('C13.4', 'timedjoin: yields between tries', len(ys) >= 1 and all(f.in_loop(y) for y in ys),
           'the waiting loop yields the worker', loc=f.loc)
    ctx.floor('C13.4', 9)


def rule5_finisher(ctx, fl):
    ctx.doc('C13.5', 'sibling agreement of the two exit callbacks myth_entry_point_1/_2: on the detached edge every path '
            'passes exactly one release of the finished thread\'s record, on the joinable edge none (the joiner reaps)')
    v = ctx.view(NATIVE, roots=['myth_entry_point_1', 'myth_entry_point_2'],
                 stops=(DESC_FREE, 'free_myth_thread_struct_stack') + lib.SPIN_STOPS, flavour=fl)
    for cbn in ('myth_entry_point_1', 'myth_entry_point_2'):
        c = ctx.need_fn(v, cbn)
        dl = [l for l in c.loads_of(TH + 'detached') if same_value(c, c.ap(l.ops[0]).root, 'a1')]
        frees = [x for x in call_sites(c, DESC_FREE) if same_value(c, x.args[1], 'a1')]
        ctx.ob('C13.5', cbn + ': tests detached', len(dl) == 1, 'the callback decides on the detached flag', loc=c.loc)
        for l in dl:
            for cond, pol in truthy_conds(c, l.id):
                for br, t, f_ in c.cond_edges(cond):
                    det, join = (t, f_) if pol else (f_, t)
                    r = c.reachable_from(lib.first_inst(c, det), blocked=frees, include_start=True)
                    ctx.ob('C13.5', cbn + ': detached => record released', not [x for x in r if x.op == 'ret'],
                           'a detached thread\'s record is reaped by its finisher on every path (both exit callbacks)',
                           loc=br.loc)
                    r2 = c.reachable_from(lib.first_inst(c, join), include_start=True)
                    ctx.ob('C13.5', cbn + ': joinable => record kept', not [x for x in r2 if x in frees],
                           'a joinable thread\'s record is left for the joiner', loc=br.loc)
        again = [(a, b) for a in frees for b in frees if b in c.reachable_from(a)]
        ctx.ob('C13.5', cbn + ': at most one release', not again, 'no double release', loc=c.loc)
    ctx.floor('C13.5', 8)


def run(ctx):
    for fl in flavours(ctx):
        ctx.unit = fl
        ctx.doc('C13.6', 'native API forwarding: each public entry point of this property reaches the implementation of the same name with its parameters in order and returns its result (sibling slips such as trylock -> lock, signal -> broadcast, swapped arguments)')
        ctx.attempt(lib.native_forwarding, ctx, 'C13.6', fl, lambda n: n in ('myth_join', 'myth_tryjoin', 'myth_timedjoin', 'myth_detach', 'myth_thread_attr_setdetachstate', 'myth_thread_attr_getdetachstate'), floor=8)
        stops = ('myth_queue_push', 'myth_queue_pop', DESC_FREE, 'myth_get_current_env_noinline', 'myth_tryjoin_body',
                 'myth_timespec_gt', 'hr_gettime', 'myth_yield_ex_body') + lib.SPIN_STOPS
        v = ctx.view(NATIVE, roots=['myth_join_body', 'myth_tryjoin_body', 'myth_detach_body', 'myth_timedjoin_body'],
                     stops=stops, flavour=fl)
        ctx.attempt(rule1_once, ctx, v)
        ctx.attempt(rule2_detachstate, ctx, fl)
        ctx.attempt(rule3_recycle, ctx, fl)
        ctx.attempt(rule4_timed, ctx, v)
        ctx.attempt(rule5_finisher, ctx, fl)
        from . import c12
        if fl == flavours(ctx)[0]:
            from . import c16
            for wfl in ('ld', 'dl'):
                with ctx.shared({'C16.1': 'C13.10'}, keep=lambda k: k.startswith(('pthread_join[', 'pthread_tryjoin_np[', 'pthread_timedjoin_np[',
                                                                                   'pthread_detach[')), floor=8,
                                doc='the redirected join family (shared with C16.1): pthread_join / tryjoin_np / timedjoin_np / detach reach '
                                    'the body of the same operation with their arguments in order (a timed join forwarded to the try-join '
                                    'body gives up at once)'):
                    v16, ws16 = c16.build_view(ctx, wfl)
                    ctx.attempt(c16.rule1_forward, ctx, wfl, v16, ws16)
            ctx.unit = fl
        from . import c01
        with ctx.shared({'C01.6': 'C13.9'}, keep=lambda k: k.startswith(('myth_entry_point_1', 'myth_entry_point_2')), floor=6,
                        doc='the exit callbacks leave the record unlocked (shared with C01.6): a detached thread that recycles its record '
                            'with the spin lock held makes the next thread created on that record spin forever at its own exit'):
            stops01 = ('myth_queue_push', 'myth_queue_pop', 'get_new_myth_thread_struct_desc', 'get_new_myth_thread_struct_stack', DESC_FREE,
                       'free_myth_thread_struct_stack', 'myth_get_current_env_noinline', 'myth_tls_tree_fini', 'myth_init_ex_body',
                       'myth_entry_point_cleanup') + lib.SPIN_STOPS
            v01 = ctx.view(NATIVE, roots=['myth_create_ex_body', 'myth_create_1', 'myth_entry_point', 'myth_exit_body', 'myth_testcancel_body',
                                          'myth_join_body', 'myth_tryjoin_body', 'myth_join_2', 'myth_join_3', 'myth_entry_point_cleanup',
                                          'myth_entry_point_1', 'myth_entry_point_2'], stops=stops01, flavour=fl)
            ctx.attempt(c01.rule6_finish, ctx, v01)
        with ctx.shared({'C12.2': 'C13.11'}, keep=lambda k: k.startswith('myth_detach_body'), floor=5,
                        doc='detach races with the finisher only under the record lock (shared with C12.2): the detached flag is set with '
                            'th->lock held on the not-finished edge and a finished record is released only after FREE_READY2 - a flag set '
                            'after the unlock is missed by a finisher that already tested it, and then nobody reaps the record'):
            v12 = ctx.view(NATIVE, roots=['myth_entry_point_1', 'myth_entry_point_2', 'myth_detach_body'], stops=c12.STOPS2, flavour=fl)
            ctx.attempt(c12.rule2_order, ctx, v12)
        with ctx.shared({'C01.1': 'C13.12'}, keep=lambda k: 'detachstate' in k, floor=1,
                        doc='who reaps is decided from an initialised attribute (shared with C01.1): myth_thread_attr_init writes detachstate, '
                            'which myth_create_ex_body reads - an attribute object in recycled memory otherwise creates a detached thread '
                            'that its finisher reaps and the caller\'s join reaps again'):
            ctx.attempt(c01.rule1_attr, ctx, fl)
        ctx.doc('C13.7', 'the reaping entry points do not use a worker env obtained before they blocked (stale-value dataflow, shared with '
                'C12.3): a record released to the free list of the worker the joiner started on is never found again by the worker '
                'that allocates, so create/reap cycles grow without bound')
        ctx.attempt(c12.rule3_env, ctx, fl, rule='C13.7', only=['myth_join', 'myth_tryjoin', 'myth_timedjoin', 'myth_detach'], units=[(NATIVE, None)])
        with ctx.shared({'C12.4': 'C13.8'}, keep=lambda k: k.startswith(('alloc:', 'free:', 'alloc and free', 'create: th->stack')), floor=13,
                        doc='reaping recycles the stack (shared with C12.4): the release reads the block size the allocation wrote into the '
                            'stack header, so a custom-size stack returns to the size class it will be taken from again'):
            v2 = ctx.view(NATIVE, roots=['get_new_myth_thread_struct_stack', c12.STACK_FREE, 'myth_flmalloc', 'myth_flfree'],
                          stops=('myth_freelist_pop', 'myth_freelist_push', 'myth_mmap'), flavour=fl)
            ctx.attempt(c12.rule4_affine, ctx, v2)
            v4 = ctx.view(NATIVE, roots=['myth_create_ex_body'],
                          stops=('myth_queue_push', 'myth_queue_pop', 'get_new_myth_thread_struct_desc', 'get_new_myth_thread_struct_stack',
                                 'myth_init_ex_body', 'myth_make_context_empty', 'myth_make_context_voidcall') + lib.SPIN_STOPS, flavour=fl)
            ctx.attempt(c12.rule4_custom_data, ctx, v4)


SCHED = 'src/myth_sched_func.h'
WRAP = 'src/myth_wrap_pthread.c'
MUTANTS = [
    {'name': 'attr_init leaves detachstate to whatever the memory held (seed6 C13/m2)', 'expect': 'C13.12',
     'edits': [(SCHED, "  attr->detachstate = 0;\n  myth_globalattr_get_guardsize_body(0, &attr->guardsize);", "  myth_globalattr_get_guardsize_body(0, &attr->guardsize);")]},
    {'name': 'detach sets the flag after releasing the record lock: a finisher that already tested it leaves the record to nobody (hand mutant r6)', 'expect': 'C13.11',
     'edits': [(SCHED, "    myth_desc_set_detached(th);\n    myth_spin_unlock_body(&th->lock);", "    myth_spin_unlock_body(&th->lock);\n    myth_desc_set_detached(th);")]},
    {'name': 'detach-state attribute applied on the child-first path only (seed4 C13/m3)', 'expect': 'C13.2',
     'edits': [(SCHED, "  if (attr && attr->detachstate) {\n    /* created detached: the finisher releases the descriptor */\n    new_thread->detached = 1;\n  }\n  new_thread->result = arg;", "  new_thread->result = arg;"),
               (SCHED, "    myth_make_context_empty(&new_thread->context, stk, stk_size);\n", "    myth_make_context_empty(&new_thread->context, stk, stk_size);\n    if (attr && attr->detachstate) new_thread->detached = 1;\n")]},
    {'name': 'native myth_tryjoin forwards to the blocking join', 'expect': 'C13.6',
     'edits': [('src/myth_if_native.c', "  return myth_tryjoin_body(th, result);", "  return myth_join_body(th, result);")]},
    {'name': 'timedjoin tests the deadline after a try it has not examined (seed3 C01/m2)', 'expect': 'C13.4',
     'edits': [(SCHED, "      int err = hr_gettime(tp);\n      assert(err == 0);\n      if (myth_timespec_gt(tp, abstime)) return EBUSY;\n      if (myth_tryjoin_body(th, result) == 0) {",
                "      int r_ = myth_tryjoin_body(th, result);\n      int err = hr_gettime(tp);\n      assert(err == 0);\n      if (myth_timespec_gt(tp, abstime)) return EBUSY;\n      if (r_ == 0) {")]},
    {'name': 'stack release skips every thread that has a stack (sweep M0168)', 'expect': 'C13.3',
     'edits': [(SCHED, "  if (th->stack) {\n    //Add to a freelist", "  if (!th->stack) {\n    //Add to a freelist")]},
    {'name': 'tryjoin releases the record to an unset env (sweep M0603)', 'expect': 'C13.1',
     'edits': [(SCHED, "  myth_running_env_t env;\n  env = myth_get_current_env();\n  //Obtain lock and check again", "  myth_running_env_t env;\n  //Obtain lock and check again")]},
    {'name': 'tryjoin frees the record on the busy path', 'expect': 'C13.1',
     'edits': [(SCHED, "    myth_spin_unlock_body(&th->lock);\n    return EBUSY;", "    myth_spin_unlock_body(&th->lock);\n    free_myth_thread_struct_desc(env,th);\n    return EBUSY;")]},
    {'name': 'tryjoin returns busy with the lock held', 'expect': 'C13.1',
     'edits': [(SCHED, "  } else {\n    myth_spin_unlock_body(&th->lock);\n    return EBUSY;", "  } else {\n    return EBUSY;")]},
    {'name': 'join_1 releases twice', 'expect': 'C13.1',
     'edits': [(SCHED, "  free_myth_thread_struct_desc(e,th);\n}\n\nMYTH_CTX_CALLBACK void myth_join_2", "  free_myth_thread_struct_desc(e,th);\n  if (result) free_myth_thread_struct_desc(e,th);\n}\n\nMYTH_CTX_CALLBACK void myth_join_2")]},
    {'name': 'join fast path forgets to release', 'expect': 'C13.1',
     'edits': [(SCHED, "    while (th->status != MYTH_STATUS_FREE_READY2);\n#if MYTH_JOIN_PROF_DETAIL", "    while (th->status != MYTH_STATUS_FREE_READY2);\n    if (!result) return 0;\n#if MYTH_JOIN_PROF_DETAIL")]},
    {'name': 'detachstate ignored at creation (original defect D3)', 'expect': 'C13.2',
     'edits': [(SCHED, "  if (attr && attr->detachstate) {\n    /* created detached: the finisher releases the descriptor */\n    new_thread->detached = 1;\n  }\n", "")]},
    {'name': 'pthread_attr_to_myth copies detachstate before init overwrites it', 'expect': 'C13.2',
     'edits': [(WRAP, "    int _ = myth_thread_attr_init_body(m);\n    int r = pthread_attr_getdetachstate(p, &m->detachstate);", "    int r = pthread_attr_getdetachstate(p, &m->detachstate);\n    int _ = myth_thread_attr_init_body(m);")]},
    {'name': 'pthread_create drops the attribute', 'expect': 'C13.2',
     'edits': [(WRAP, "    myth_thread_attr_t * mattr = pthread_attr_to_myth(attr, mattr_);", "    myth_thread_attr_t * mattr = pthread_attr_to_myth(0, mattr_);")]},
    {'name': 'descriptor allocation maps fresh memory before consulting the free list', 'expect': 'C13.3',
     'edits': [(SCHED, "  void * v_ret = myth_freelist_pop(&env->freelist_desc);\n  if (v_ret){\n    return v_ret;\n  } else {", "  void * v_ret = 0;\n  if (v_ret){\n    return v_ret;\n  } else {")]},
    {'name': 'record released to the stack list', 'expect': 'C13.3',
     'edits': [(SCHED, "  myth_freelist_push(&e->freelist_desc,(void*)th);", "  myth_freelist_push(&e->freelist_stack,(void*)th);")]},
    {'name': 'scheduler-bound exit callback forgets to reap a detached thread (seed C13/m2)', 'expect': 'C13.5',
     'edits': [(SCHED, "    myth_spin_unlock_body(&this_thread->lock);\n    free_myth_thread_struct_desc(env,this_thread);\n  }\n  else{\n#if QUICK_CHECK_ON_JOIN\n    this_thread->status=MYTH_STATUS_FREE_READY;",
                "    myth_spin_unlock_body(&this_thread->lock);\n  }\n  else{\n#if QUICK_CHECK_ON_JOIN\n    this_thread->status=MYTH_STATUS_FREE_READY;")]},
    {'name': 'detach fast path falls through and reaps twice (seed C13/m1)', 'expect': 'C13.1',
     'edits': [(SCHED, "    free_myth_thread_struct_desc(myth_get_current_env(),th);\n    return 0;\n  }\n  //Obtain lock", "    free_myth_thread_struct_desc(myth_get_current_env(),th);\n  }\n  //Obtain lock")]},
    {'name': 'timedjoin gives up before reading the clock', 'expect': 'C13.4',
     'edits': [(SCHED, "      if (myth_timespec_gt(tp, abstime)) return EBUSY;\n      if (myth_tryjoin_body(th, result) == 0) {", "      if (!myth_timespec_gt(tp, abstime)) return EBUSY;\n      if (myth_tryjoin_body(th, result) == 0) {")]},
    {'name': 'timedjoin reports success without reaping', 'expect': 'C13.4',
     'edits': [(SCHED, "      if (myth_tryjoin_body(th, result) == 0) {\n\treturn 0;\n      } else {\n\tmyth_yield_ex_body(myth_yield_option_local_first);", "      if (myth_tryjoin_body(th, result) != 0) {\n\treturn 0;\n      } else {\n\tmyth_yield_ex_body(myth_yield_option_local_first);")]},
]
