"""C02 - the work-stealing queues never lose or duplicate a runnable thread."""
from .. import lib
from ..lib import (call_sites, switch_sites, same_value, describe, LockAnalysis, fences, affine, affine_str, is_load_of,
                   ret_cases, null_tests, reaches_point, expr_str)
from ..ir import const_int, classify_asm
from ..frontend import AnalysisBroken

META = {
    'explanation': 'Queue protocol obligations on the IR of myth_queue_{push,pop,put,take,trypass,clear} and '
                   'myth_wsapi_runqueue_{take,peek}: (1) store/full-fence/load (Dekker) triples: every load of the '
                   'opposite index reachable from the index store passes a full fence, where "full fence" is decided '
                   'from the configured myth_rwbarrier body; (2) lock typestate: every store to base, every memmove of '
                   'the slot array, the reset in pop and the steal-cache update execute with q->lock held and every '
                   'acquisition is released exactly once on every path; (3) slot store -> barrier -> index store in '
                   'push/trypass; (4) base roll-back on every non-taking path of take/wsapi_take/wsapi_peek and none on '
                   'the taking path; (5) owner-side operations are applied only to the executing worker\'s own queue; '
                   '(6) a popped/stolen thread reaches a switch target, a queue insertion or the return value on every '
                   'path; (7) re-centring applies one offset to memmove destination, top and base.'
                   ' myth_queue_init writes every field that push/pop/take/put/trypass/peek read (C02.9).',
    'not_decided': 'linearizability of the mixed owner/thief history under all interleavings, the exact fast-path '
                   'threshold, capacity arithmetic, termination of programs',
    'assumptions': ['x86-TSO: only store->load reordering is possible; xchg with memory / lock-prefixed RMW / mfence are '
                    'full fences', 'volatile accesses are not reordered with each other by the compiler'],
}
META['explanation'] += ' Owner-only operations accept the env field of the running thread only (C02.5).'

NATIVE = 'myth_if_native.c'
Q = 'myth_thread_queue.'
TOP, BASE, PTR, QLOCK = Q + 'top', Q + 'base', Q + 'ptr', Q + 'lock'
WC = 'myth_wscache.'


def flavours(ctx):
    return ['vanilla', 'ld', 'dl'] if ctx.tier == 'thorough' else ['vanilla']


def qparam(f):
    return f.param_named('q')


def index_updates(f, field):
    """stores to q->field whose value is (load of the same field) +/- 1"""
    out = []
    for st in f.stores_to(field):
        a = affine(f, st.ops[0])
        terms = {k: c for k, c in a.items() if k != ''}
        if len(terms) == 1 and list(terms.values()) == [1] and a.get('', 0) in (1, -1):
            k = list(terms)[0]
            if k in f.insts and f.insts[k].op == 'load' and f.field(f.insts[k]) == field:
                out.append((st, f.insts[k], a.get('', 0)))
    return out


def rule1_dekker(ctx, views):
    ctx.doc('C02.1', 'Dekker pairs: pop (top := top-1 ; FULL FENCE ; read base) and take / wsapi_take / wsapi_peek '
            '(base := base+1 ; FULL FENCE ; read top): no load of the opposite index is reachable from the index store '
            'without passing a full fence (fence kind decided from the inlined body of myth_rwbarrier)')
    table = [('myth_queue_pop', TOP, -1, BASE), ('myth_queue_take', BASE, +1, TOP),
             ('myth_wsapi_runqueue_take', BASE, +1, TOP), ('myth_wsapi_runqueue_peek', BASE, +1, TOP)]
    for name, w, delta, r in table:
        f = ctx.need_fn(views[name], name)
        ups = [(st, ld, d) for st, ld, d in index_updates(f, w) if d == delta]
        ctx.ob('C02.1', '%s: %s update present' % (name, w.split('.')[1]), len(ups) >= 1,
               'the operation announces itself by moving its own index first', loc=f.loc)
        ff = fences(f)
        for st, ld, d in ups:
            later = [l for l in f.loads_of(r) if l in f.reachable_from(st)]
            ctx.ob('C02.1', '%s: reads %s after the update' % (name, r.split('.')[1]), len(later) >= 1,
                   'the opposite index is read after the own index was moved', loc=st.loc)
            unfenced = [l for l in f.loads_of(r) if l in f.reachable_from(st, blocked=ff)]
            ctx.ob('C02.1', '%s: full fence between %s store and %s load' % (name, w.split('.')[1], r.split('.')[1]),
                   not unfenced,
                   'store->load reordering (x86 store buffer) between the two indices would let owner and thief both '
                   'take the last element; a full fence must separate them', loc=st.loc,
                   detail='' if not unfenced else 'load at %s reachable without a full fence' % unfenced[0].loc,
                   trace=[] if not unfenced else lib.lines(f.witness_path(st, unfenced, blocked=ff)))
            ctx.ob('C02.1', '%s: index accesses volatile' % name, st.volatile and all(l.volatile for l in later),
                   'index accesses are volatile (not cached or reordered by the compiler)', loc=st.loc)
    ctx.floor('C02.1', 12)


LOCKED_FUNCS = ['myth_queue_push', 'myth_queue_pop', 'myth_queue_put', 'myth_queue_take', 'myth_queue_trypass',
                'myth_queue_clear', 'myth_wsapi_runqueue_take', 'myth_wsapi_runqueue_peek']


def rule2_locks(ctx, views):
    ctx.doc('C02.2', 'lock regions: every store to q->base, every memmove of q->ptr, the top/base reset and every store '
            'to the steal cache (seq, ptr, size) execute with q->lock held (trylock: on its success edge); each '
            'acquisition is released exactly once on every path to return; no lock held at return')
    nreg = 0
    for name in LOCKED_FUNCS:
        f = ctx.need_fn(views[name], name)
        la = LockAnalysis(f)
        keys = la.keys_matching(QLOCK)
        ctx.ob('C02.2', name + ': uses q->lock', len(keys) == 1, 'the function takes the queue lock', loc=f.loc)
        if not keys:
            continue
        k = keys[0]
        nreg += 1
        for r in f.exits():
            ctx.ob('C02.2', name + ': unlocked at return', not la.held_may(r), 'no lock is held at any return', loc=r.loc,
                   detail='held: %s' % [la.name(x) for x in la.held_may(r)])
        ctx.ob('C02.2', name + ': balanced', not la.double_unlock and not la.relock and not la.unheld_unlock,
               'no unlock of an unheld lock, no re-lock of a held lock', loc=f.loc,
               detail=str([i.loc for i in la.double_unlock + la.relock]))
        for st in f.stores_to(BASE):
            ctx.ob('C02.2', '%s: store to base under lock' % name, la.held_must(st, k),
                   'the thief-side index is only written with q->lock held', loc=st.loc)
        for c in f.calls():
            if c.callee and c.callee.startswith('llvm.memmove'):
                ctx.ob('C02.2', '%s: memmove under lock' % name, la.held_must(c, k),
                       'the slot array is re-centred only with q->lock held', loc=c.loc)
        for st in f.order:
            if st.op == 'store' and f.field(st) in (WC + 'seq', WC + 'ptr', WC + 'size'):
                ctx.ob('C02.2', '%s: steal-cache update under lock' % name, la.held_must(st, k),
                       'the seq-locked steal cache is written only with q->lock held', loc=st.loc)
        # stores to top that are not the owner's +/-1 / t+1 publication must be locked (reset, re-centre)
        ups = set(st.id for st, ld, d in index_updates(f, TOP))
        for st in f.stores_to(TOP):
            if st.id in ups:
                continue
            a = affine(f, st.ops[0])
            # push publishes top = t + 1 where t is a (possibly re-read) top value: phi of loads
            if name == 'myth_queue_push' and a.get('', 0) == 1 and len([x for x in a if x != '']) == 1:
                continue
            ctx.ob('C02.2', '%s: non-incremental store to top under lock' % name, la.held_must(st, k),
                   'top is reset / shifted only with q->lock held', loc=st.loc)
    if nreg < 8:
        raise AnalysisBroken('C02.2: only %d of 8 queue functions take q->lock' % nreg)
    ctx.floor('C02.2', 40)


def rule3_publish(ctx, views):
    ctx.doc('C02.3', 'push: slot store q->ptr[t] = th, then a barrier, then top = t+1; trypass: slot store q->ptr[b-1] = th, '
            'barrier, then base decrement - on every path')
    for name, idxf in (('myth_queue_push', TOP), ('myth_queue_trypass', BASE)):
        f = ctx.need_fn(views[name], name)
        th = f.param_named('th')
        slots = [s for s in f.order if s.op == 'store' and same_value(f, s.ops[0], th) and
                 any(k in f.insts and f.insts[k].op == 'load' and f.field(f.insts[k]) == PTR for k in affine(f, s.ops[1]))]
        ctx.ob('C02.3', name + ': slot store', len(slots) == 1, 'the thread is written into one slot of the array', loc=f.loc)
        bar = fences(f, kinds=('fence_full', 'fence_compiler', 'fence_store'))
        if name == 'myth_queue_push':
            pubs = [st for st in f.stores_to(TOP) if affine(f, st.ops[0]).get('', 0) == 1 and
                    not f.in_loop(st) and any(st in f.reachable_from(s) for s in slots)]
        else:
            pubs = [st for st, ld, d in index_updates(f, BASE) if d == -1]
        ctx.ob('C02.3', name + ': index publication', len(pubs) == 1, 'one store publishes the new element', loc=f.loc)
        for s in slots:
            for p in pubs:
                ok = f.dominates_f(s, p) and p not in f.reachable_from(s, blocked=bar)
                ctx.ob('C02.3', name + ': slot -> barrier -> index', ok,
                       'the slot is written and a (compiler/write) barrier passed before the index makes it visible to '
                       'thieves', loc=p.loc)
                # index value consistent with slot index: ptr[t] then top=t+1 ; ptr[b-1] then base=b-1
                sa = affine(f, s.ops[1])
                ia = affine(f, p.ops[0])
                def canon(k):
                    # two volatile loads of the same queue index inside the lock region denote one value
                    if k in f.insts and f.insts[k].op == 'load' and f.field(f.insts[k]) in (TOP, BASE):
                        return 'load:' + f.field(f.insts[k])
                    return k
                slot_terms = {canon(k): c for k, c in sa.items() if k != '' and not (k in f.insts and f.insts[k].op == 'load' and
                                                                                    f.field(f.insts[k]) == PTR)}
                idx_terms = {canon(k): c for k, c in ia.items() if k != ''}
                if name == 'myth_queue_push':
                    ok2 = slot_terms == {k: 8 * c for k, c in idx_terms.items()} and sa.get('', 0) == 0 and ia.get('', 0) == 1
                else:
                    ok2 = slot_terms == {k: 8 * c for k, c in idx_terms.items()} and sa.get('', 0) == -8 and ia.get('', 0) == -1
                ctx.ob('C02.3', name + ': slot index matches published index', ok2,
                       'the slot written is exactly the one the new index value exposes', loc=s.loc,
                       detail='slot %s ; index %s' % (affine_str(sa), affine_str(ia)))
    # trypass reports success exactly when it inserted
    f = ctx.need_fn(views['myth_queue_trypass'], 'myth_queue_trypass')
    ins_st = [st for st, ld, d in index_updates(f, BASE) if d == -1]
    for val, anchor in ret_cases(f):
        k = const_int(val)
        if k is None:
            ctx.ob('C02.3', 'myth_queue_trypass: constant results', False, 'result is 0 or 1 per path', loc=anchor.loc, detail=describe(f, val))
        elif k != 0:
            ctx.ob('C02.3', 'myth_queue_trypass: success only after inserting', bool(ins_st) and
                   not reaches_point(f, f.entry_inst(), anchor, blocked=ins_st, include_start=True),
                   'a non-zero result is returned only on paths that stored the thread and moved base (otherwise the passed '
                   'thread is lost: the caller believes it was handed over)', loc=anchor.loc)
        else:
            ctx.ob('C02.3', 'myth_queue_trypass: failure only without inserting', not any(reaches_point(f, st, anchor) for st in ins_st),
                   'zero is returned only on paths that did not insert (otherwise the caller retries and the thread is queued twice)',
                   loc=anchor.loc)
    # ... and it inserts exactly when the slot below base exists: the insertion is confined to base > 0 (the store goes to ptr[base-1]),
    # and with the lock obtained a queue that has room is not refused (the callers of trypass retry until someone accepts the thread)
    for st in ins_st:
        bl = [l for l in f.order if l.op == 'load' and f.field(l) == BASE]
        room = False
        for ic in f.order:
            if ic.op != 'icmp' or const_int(ic.ops[1]) != 0 or not any(f.sources(ic.ops[0]) == f.sources(l.id) for l in bl):
                continue
            for c_, p_ in lib.cond_chain(f, ic.id):
                # established: base != 0 (or base > 0)
                if (ic.pred == 'eq' and f.on_edge(c_, not p_, st)) or (ic.pred in ('ne', 'sgt', 'ugt') and f.on_edge(c_, p_, st)):
                    room = True
        ctx.ob('C02.3', 'myth_queue_trypass: inserts only where base > 0 was established', room,
               'the thread is stored at ptr[base - 1]: with base == 0 that is before the array, with the test inverted every '
               'queue that has room is refused and the hand-over at myth_fini never finds a taker', loc=st.loc)
    ctx.floor('C02.3', 11)


def rule4_rollback(ctx, views):
    ctx.doc('C02.4', 'take / wsapi_take: every path from base := b+1 to a NULL return passes base := b; the path returning '
            'the element does not; wsapi_peek always restores base before unlocking')
    for name in ('myth_queue_take', 'myth_wsapi_runqueue_take', 'myth_wsapi_runqueue_peek'):
        f = ctx.need_fn(views[name], name)
        incs = [(st, ld) for st, ld, d in index_updates(f, BASE) if d == 1]
        ctx.ob('C02.4', name + ': increments base', len(incs) == 1, 'one speculative base increment', loc=f.loc)
        for st, ld in incs:
            rb = [s for s in f.stores_to(BASE) if s is not st and same_value(f, s.ops[0], ld.id)]
            ctx.ob('C02.4', name + ': has rollback store', len(rb) >= 1, 'base := b restores the observed value', loc=st.loc)
            if name.endswith('peek'):
                unl = [u for u in call_sites(f, lib.SPIN_UNLOCK) if u in f.reachable_from(st)]
                bad = [u for u in unl if u in f.reachable_from(st, blocked=rb)]
                ctx.ob('C02.4', name + ': always restores base', not bad,
                       'peek never removes: base is restored before the lock is released on every path', loc=st.loc)
                continue
            for val, anchor in ret_cases(f):
                if not reaches_point(f, st, anchor):
                    continue
                isnull = isinstance(val, dict) and (val.get('null') or val.get('c') == 0)
                if isnull:
                    ok = not reaches_point(f, st, anchor, blocked=rb)
                    ctx.ob('C02.4', name + ': NULL return rolls base back', ok,
                           'when nothing is taken (empty, or the decision callback declined) the candidate stays '
                           'available: base is restored on every such path', loc=anchor.loc,
                           trace=[] if ok else lib.lines(f.witness_path(st, [anchor.term if hasattr(anchor, 'term') else anchor], blocked=rb)))
                else:
                    # returning the element: value is a load from the slot array; no rollback on that path
                    isslot = any(k in f.insts and f.insts[k].op == 'load' and
                                 any(kk in f.insts and f.insts[kk].op == 'load' and f.field(f.insts[kk]) == PTR
                                     for kk in affine(f, f.insts[k].ops[0])) for k in f.sources(val)) if isinstance(val, str) else False
                    ctx.ob('C02.4', name + ': returns the slot element', isslot, 'the value returned is q->ptr[b]', loc=anchor.loc,
                           detail=describe(f, val))
                    bad = [s for s in rb if reaches_point(f, s, anchor) and s in f.reachable_from(st)]
                    ctx.ob('C02.4', name + ': taken element is not rolled back', not bad,
                           'on the taking path base stays incremented (otherwise the thread is handed out twice)', loc=anchor.loc)
                    # element only if b < top
                    tops = [l for l in f.loads_of(TOP) if l in f.reachable_from(st)]
                    ok = any(f.on_edge(ic.id, True, anchor) for ic in f.order if ic.op == 'icmp' and ic.pred == 'slt' and
                             same_value(f, ic.ops[0], ld.id) and any(same_value(f, ic.ops[1], t.id) for t in tops))
                    ctx.ob('C02.4', name + ': takes only if b < top', ok, 'an element is taken only on the edge b < top', loc=anchor.loc)
    # pop: the element returned is the one at the index pop claimed (top - 1); an empty queue is re-centred with top == base
    f = ctx.need_fn(views['myth_queue_pop'], 'myth_queue_pop')
    decs = [(st, ld) for st, ld, d in index_updates(f, TOP) if d == -1]
    ctx.ob('C02.4', 'myth_queue_pop: claims the top slot', len(decs) == 1, 'top := top - 1', loc=f.loc)
    nret = 0
    for val, anchor in ret_cases(f):
        isnull = isinstance(val, dict) and (val.get('null') or val.get('c') == 0)
        if isnull:
            continue
        nret += 1
        oks = False
        for k in (f.sources(val) if isinstance(val, str) else []):
            l = f.insts.get(k)
            if l is None or l.op != 'load':
                continue
            ixs = [x for x in f.ap(l.ops[0]).steps if x[0] in ('p', 'i')]
            if is_load_of(f, f.ap(l.ops[0]).root, PTR) and ixs and decs and not lib.affine_diff(f, ixs[-1][1], decs[0][0].ops[0]):
                oks = True
        ctx.ob('C02.4', 'myth_queue_pop: returns the element of the claimed slot', oks,
               'the thread handed out is q->ptr[top - 1], the slot whose index was just published as the new top', loc=anchor.loc,
               detail=describe(f, val))
    ctx.ob('C02.4', 'myth_queue_pop: element-returning exits', nret >= 2, 'fast path and locked path', loc=f.loc)
    for val, anchor in ret_cases(f):
        if not (isinstance(val, dict) and (val.get('null') or val.get('c') == 0)):
            continue
        if not decs or not reaches_point(f, decs[0][0], anchor):
            continue
        tst = [st for st in f.stores_to(TOP) if st is not decs[0][0] and reaches_point(f, st, anchor)]
        bst = [st for st in f.stores_to(BASE) if reaches_point(f, st, anchor)]
        okr = len(tst) == 1 and len(bst) == 1 and lib.same_expr(f, tst[0].ops[0], bst[0].ops[0]) and \
            not reaches_point(f, decs[0][0], anchor, blocked=tst) and not reaches_point(f, decs[0][0], anchor, blocked=bst)
        ctx.ob('C02.4', 'myth_queue_pop: an empty queue is left with top == base', okr,
               'after the failed claim both indices are re-centred to the same value (a top left one below base makes the next push '
               'publish a slot the thieves already passed)', loc=anchor.loc)
    ctx.floor('C02.4', 14)


def rank_index(f, key):
    """index value is the executing worker's rank (load of TLS g_worker_rank, through sext)"""
    if not isinstance(key, str):
        return False
    srcs = f.sources(key)
    return bool(srcs) and all(s in f.insts and f.insts[s].op == 'load' and isinstance(f.insts[s].ops[0], dict) and
                              f.insts[s].ops[0].get('g') == 'g_worker_rank' for s in srcs)


def env_origin_ok(f, ptr):
    """the env that `ptr` (an env pointer or the address of one of its fields) belongs to is the executing
    worker's.  Returns (ok, why); why is a list of ('param', id) when the env is a parameter."""
    ap = f.ap(ptr)
    params = []
    psteps = [st for st in ap.steps if st[0] == 'p']
    for k in f.sources(ap.root):
        ins = f.insts.get(k) if not k.startswith('{') else None
        if ins is None:
            if k.startswith('a') and not psteps:
                params.append(('param', k))
                continue
            return False, 'env is %s' % k
        if ins.op == 'load' and isinstance(ins.ops[0], dict) and ins.ops[0].get('g') == 'g_envs':
            # &g_envs[i]: i must be the TLS rank of the executing worker
            if len(psteps) == 1 and ap.steps and ap.steps[0][0] == 'p' and rank_index(f, ap.steps[0][1]):
                continue
            return False, 'env is g_envs[%s]' % (expr_str(f, ap.steps[0][1]) if ap.steps and isinstance(ap.steps[0][1], str) else ap.steps[:1])
        if psteps:
            return False, 'env pointer is indexed: %s' % ap.desc()
        if ins.op == 'call' and ins.callee in ('myth_get_current_env_noinline', 'myth_get_current_env'):
            continue
        if ins.op == 'load' and f.field(ins) == 'myth_thread.env':
            # only the RUNNING thread's env field names the executing worker: the thread is a parameter (entry point /
            # callback argument) or was read from <env>->this_thread; a woken or popped thread's env field is stale
            tsrc = f.sources(f.ap(ins.ops[0]).root)
            bad = [t for t in tsrc if not ((t not in f.insts and t.startswith('a')) or
                                           (t in f.insts and f.insts[t].op == 'load' and f.field(f.insts[t]) == 'myth_running_env.this_thread'))]
            if bad:
                return False, 'env is the env field of %s, not of the running thread' % expr_str(f, bad[0])
            continue
        return False, 'env comes from %s' % expr_str(f, k)
    return True, params


OWNER_OPS = ('myth_queue_push', 'myth_queue_pop', 'myth_queue_put')
ENV_CALLBACKS = {'myth_create_1': 0, 'myth_join_2': 0, 'myth_yield_ex_1': 0, 'myth_entry_point_1': 0,
                 'myth_entry_point_2': 0, 'myth_startpoint_init_ex_1': 0}


def rule5_owner(ctx, fl):
    ctx.doc('C02.5', 'owner-only operations: at every call site of myth_queue_push/pop/put (all TUs) the queue is '
            '&E->runnable_q with E the executing worker\'s env: inline getter &g_envs[g_worker_rank], '
            'myth_get_current_env_noinline(), the running thread\'s env field, or the env argument of a switch callback '
            'whose switch site passes such a value')
    files = sorted(ctx.db['src'][fl])
    n = 0
    seen = set()
    for file in files:
        m = ctx.ssa(file, fl)
        roots = [name for name, f in m.functions.items()
                 if any(c.callee in OWNER_OPS for c in f.calls()) or any(s.callback in ENV_CALLBACKS for s in switch_sites(f))]
        if not roots:
            continue
        v = ctx.view(file, roots=roots, stops=OWNER_OPS + ('myth_queue_take', 'myth_queue_trypass'), flavour=fl)
        for name in roots:
            f = v.fn(name)
            if f is None:
                continue
            for c in f.calls():
                if c.callee not in OWNER_OPS:
                    continue
                key = (name, c.callee, c.loc)
                if key in seen:
                    continue
                seen.add(key)
                n += 1
                ctx.fn_analysed.add(name)
                ap = f.ap(c.args[0])
                okq = ap.fields[-1:] == ['myth_running_env.runnable_q']
                ok, why = env_origin_ok(f, c.args[0]) if okq else (False, 'queue is %s' % ap.desc())
                if ok and why:
                    # parameter: only acceptable for the env argument of a known callback
                    ok = name in ENV_CALLBACKS and all(int(k[1:]) == ENV_CALLBACKS[name] for _t, k in why)
                    why = 'queue owner is parameter of %s' % name
                k = '%s: %s on own queue' % (name, c.callee)
                ctx.ob('C02.5', k, ok, 'owner-side queue operations touch only the executing worker\'s run queue',
                       loc=c.loc, detail='' if ok else str(why))
            for s in switch_sites(f):
                if s.callback in ENV_CALLBACKS:
                    a1 = s.cb_args[0]
                    ok, why = env_origin_ok(f, a1) if a1 is not None else (False, 'no arg1')
                    if ok and why:
                        ok = False
                    key = (name, s.callback, 'sw')
                    if key in seen:
                        continue
                    seen.add(key)
                    ctx.ob('C02.5', '%s: env handed to %s' % (name, s.callback), ok,
                           'the env the callback will push/put on is the executing worker\'s', loc=s.ins.loc,
                           detail='' if ok else str(why))
    if n < 14:
        raise AnalysisBroken('C02.5: only %d owner-operation call sites found (>= 14 confirmed by hand)' % n)
    ctx.floor('C02.5', 20)


TAKERS = ('myth_queue_pop', 'myth_queue_take')


def rule6_nodrop(ctx, fl):
    ctx.doc('C02.8', 'env rebinding (sibling agreement over all consumers of popped/stolen threads): before the switch that '
            'resumes a thread obtained from myth_queue_pop / the steal function, th->env is stored with the executing worker\'s env')
    ctx.doc('C02.6', 'a thread obtained from myth_queue_pop / the steal function / myth_queue_take reaches, on every path '
            'from its non-null edge, a context switch whose target is its context, a run-queue insertion, or the '
            'function\'s return value')
    targets = [(NATIVE, ['myth_yield_ex_body', 'myth_join_body', 'myth_block_on_queue', 'myth_block_on_stack',
                         'myth_uncond_wait_body', 'myth_entry_point_cleanup']),
               ('myth_init.c', ['myth_sched_loop']), ('myth_worker.c', ['myth_default_steal_func'])]
    n = 0
    for file, roots in targets:
        v = ctx.view(file, roots=roots, stops=TAKERS + lib.RUNQ_INSERT + lib.SPIN_STOPS + ('myth_internal_barrier_wait',), flavour=fl)
        for name in roots:
            f = ctx.need_fn(v, name)
            srcs = [c for c in f.calls() if c.callee in TAKERS or
                    ('callee_ref' in c.d and is_load_of(f, c.d['callee_ref'], '') is False and
                     isinstance(c.d['callee_ref'], str) and any(
                         f.insts[k].op == 'load' and isinstance(f.insts[k].ops[0], dict) and
                         f.insts[k].ops[0].get('g') == 'g_myth_steal_func' for k in f.sources(c.d['callee_ref']) if k in f.insts))]
            sw = switch_sites(f)
            for c in srcs:
                n += 1
                consume = []
                for s in sw:
                    to = s.to_ctx()
                    if to is not None and c.id in f.sources(f.ap(to).root) | f.sources(to):
                        consume.append(s.ins)
                    # target context chosen through a phi of &next->context / &sched.context
                    elif to is not None:
                        for k in f.sources(to):
                            if k in f.insts and c.id in f.sources(f.ap(k).root):
                                consume.append(s.ins)
                for ins in call_sites(f, lib.RUNQ_INSERT):
                    if len(ins.args) > 1 and c.id in f.sources(ins.args[1]):
                        consume.append(ins)
                kname = '%s: %s result' % (name, c.callee or 'steal')
                # sibling agreement: whoever resumes a thread it took from a queue rebinds it to the executing worker
                for sw_ins in [x for x in consume if x.op == 'call' and x.asm is not None]:
                    cand = [st for st in f.stores_to('myth_thread.env') if c.id in f.sources(f.ap(st.ops[1]).root) and
                            env_origin_ok(f, st.ops[0])[0]]
                    # on the edge where a thread was obtained, every path to the switch passes the rebinding store
                    nts = null_tests(f, c.id) + [t_ for p_ in f.order if p_.op == 'phi' and c.id in f.sources(p_.id) for t_ in null_tests(f, p_.id)]
                    sts = cand if cand and nts and all(
                        sw_ins not in f.reachable_from(lib.first_inst(f, nn), blocked=cand, include_start=True) for br, nn, nl in nts) else []
                    if cand and not nts and any(f.dominates_f(st, sw_ins) for st in cand):
                        sts = cand
                    site = [s_ for s_ in sw if s_.ins is sw_ins][0]
                    incb = False
                    if site.callback:
                        cbf = f.mod.fn(site.callback)
                        if cbf is not None:
                            # e.g. myth_yield_ex_1: next_thread->env = env
                            incb = any(st for st in cbf.stores_to('myth_thread.env'))
                    ctx.ob('C02.8', '%s: %s rebinds the thread before resuming it (%s)' % (name, c.callee or 'steal', site.callback or site.kind),
                           bool(sts) or incb,
                           'a thread taken from a run queue may have been put there by another worker: th->env must be set to the '
                           'executing worker before the thread runs (its exit path and its wake-ups use th->env)', loc=sw_ins.loc)
                # target selection agrees with the NULL test of the thread obtained, and the worker's current-thread record
                # names the thread that is resumed
                nts_all = null_tests(f, c.id) + [t_ for p_ in f.order if p_.op == 'phi' and c.id in f.sources(p_.id) for t_ in null_tests(f, p_.id)]
                for s_ in sw:
                    to = s_.to_ctx()
                    ti = f.get(f.strip(to)) if isinstance(to, str) else None
                    if s_.ins not in consume:
                        continue
                    if ti is None or ti.op != 'phi':
                        # a switch of its own for the thread: only the current-thread record is left to check
                        direct = [st for st in f.stores_to('myth_running_env.this_thread') if c.id in f.sources(st.ops[0]) and f.dominates_f(st, s_.ins)]
                        incb = False
                        if s_.callback and f.mod.fn(s_.callback) is not None:
                            cbf = f.mod.fn(s_.callback)
                            for st in cbf.stores_to('myth_running_env.this_thread'):
                                for k_ in cbf.sources(st.ops[0]):
                                    pi_ = cbf.param_index(k_)
                                    if pi_ is not None and pi_ < len(s_.cb_args) and s_.cb_args[pi_] is not None and c.id in f.sources(s_.cb_args[pi_]):
                                        incb = True
                        ctx.ob('C02.6', '%s: the worker\'s current-thread record follows the switch (%s via %s)' %
                               (name, c.callee or 'steal', s_.callback or s_.kind), bool(direct) or incb,
                               'env->this_thread names the thread being resumed: wake-ups, self and the exit path read it', loc=s_.ins.loc)
                        continue
                    okt, why = True, ''
                    for val, b_ in ti.d['incoming']:
                        term = f.blocks[b_].insts[-1]
                        root = f.ap(val).root if isinstance(val, str) else None
                        is_thr = isinstance(val, str) and c.id in (f.sources(root) if root is not None else set())
                        flds = f.ap(val).fields if isinstance(val, str) else []
                        is_sched = bool(flds) and flds[0] == 'myth_running_env.sched'
                        # the value arrives over the CFG edge b_ -> phi block: that edge is the tested edge itself, or lies behind it
                        def on_side(side):
                            for br, nn, nl in nts_all:
                                sx = nn if side == 'nn' else nl
                                if (br.block.id == b_ and sx == ti.block.id) or f.edge_dominates(br.block.id, sx, term):
                                    # not both sides: the other successor must not lead here the same way
                                    if not (br.block.id == b_ and nn == nl):
                                        return True
                            return False
                        if is_thr:
                            if not on_side('nn'):
                                okt, why = False, 'the thread\'s context is chosen where the thread was not tested non-NULL'
                        elif is_sched:
                            if not on_side('nl'):
                                okt, why = False, 'the scheduler context is chosen although a thread was obtained'
                        else:
                            okt, why = False, 'one way into the switch leaves the target context undefined'
                    ctx.ob('C02.6', '%s: switch target follows the NULL test of the %s result' % (name, c.callee or 'steal'), okt,
                           'with a thread in hand the switch goes to that thread\'s context, without one to the scheduler\'s: the other way '
                           'round drops the thread or jumps through a NULL descriptor', loc=s_.ins.loc, detail=why)
                    # env->this_thread = the thread resumed (stored before the switch, or by the callback from its argument)
                    direct = [st for st in f.stores_to('myth_running_env.this_thread') if c.id in f.sources(st.ops[0]) and f.dominates_f(st, s_.ins)]
                    incb = False
                    if s_.callback and f.mod.fn(s_.callback) is not None:
                        cbf = f.mod.fn(s_.callback)
                        for st in cbf.stores_to('myth_running_env.this_thread'):
                            for k_ in cbf.sources(st.ops[0]):
                                pi_ = cbf.param_index(k_)
                                if pi_ is not None and pi_ < len(s_.cb_args) and s_.cb_args[pi_] is not None and c.id in f.sources(s_.cb_args[pi_]):
                                    incb = True
                    ctx.ob('C02.6', '%s: the worker\'s current-thread record follows the switch (%s)' % (name, c.callee or 'steal'), bool(direct) or incb,
                           'env->this_thread names the thread being resumed (or NULL for the scheduler): wake-ups, self and the exit path '
                           'read it', loc=s_.ins.loc)
                tests = null_tests(f, c.id)
                # values merged through phis (next = pop(); if (!next) next = steal()) are tested later:
                merged = [p for p in f.order if p.op == 'phi' and c.id in f.sources(p.id)]
                for p in merged:
                    tests += null_tests(f, p.id)
                ctx.ob('C02.6', kname + ' tested', bool(tests) or returns_value(f, c), 'the result is tested for NULL or returned',
                       loc=c.loc)
                for br, nn, nl in tests:
                    start = lib.first_inst(f, nn)
                    reach = f.reachable_from(start, blocked=consume, include_start=True)
                    lost = [r for r in reach if r.op == 'ret' and not (r.ops and c.id in f.sources(r.ops[0]))]
                    # another take whose result overwrites the variable is also a loss
                    ok = not lost
                    ctx.ob('C02.6', kname + ' consumed on every path', ok,
                           'a runnable thread removed from a queue is resumed, re-queued or returned on every path '
                           '(otherwise it is forgotten)', loc=br.loc,
                           trace=[] if ok else lib.lines(f.witness_path(br, lost, blocked=consume)))
    if n < 10:
        raise AnalysisBroken('C02.6: only %d take sites found' % n)
    ctx.floor('C02.6', 16)
    ctx.floor('C02.8', 7)


def returns_value(f, c):
    return any(r.ops and c.id in f.sources(r.ops[0]) for r in f.exits())


def rule7_recentre(ctx, views):
    ctx.doc('C02.7', 're-centring in push/put: memmove(&ptr[base+off], &ptr[base], 8*(top-base)); top += off; base += off '
            'with one SSA value off; sign of off moves away from the boundary that was hit')
    for name in ('myth_queue_push', 'myth_queue_put'):
        f = ctx.need_fn(views[name], name)
        mm = [c for c in f.calls() if c.callee and c.callee.startswith('llvm.memmove')]
        ctx.ob('C02.7', name + ': one memmove', len(mm) == 1, 're-centring moves the live slots once', loc=f.loc)
        for c in mm:
            dst, src, ln = affine(f, c.args[0]), affine(f, c.args[1]), affine(f, c.args[2])

            def split(a):
                ptr = {k: v for k, v in a.items() if k in f.insts and f.insts[k].op == 'load' and f.field(f.insts[k]) == PTR}
                base = {k: v for k, v in a.items() if k in f.insts and f.insts[k].op == 'load' and f.field(f.insts[k]) == BASE}
                top = {k: v for k, v in a.items() if k in f.insts and f.insts[k].op == 'load' and f.field(f.insts[k]) == TOP}
                rest = {k: v for k, v in a.items() if k not in ptr and k not in base and k not in top and k != ''}
                return ptr, base, top, rest, a.get('', 0)
            dp, db, dt, dr, dc = split(dst)
            sp, sb, st_, sr, sc = split(src)
            lp, lb, lt, lr, lc = split(ln)
            ok_src = list(sp.values()) == [1] and list(sb.values()) == [8] and not sr and not st_ and sc == 0
            ok_dst = list(dp.values()) == [1] and list(db.values()) == [8] and len(dr) == 1 and list(dr.values()) == [8] and dc == 0
            ok_len = list(lt.values()) == [8] and list(lb.values()) == [-8] and not lr and lc == 0
            ctx.ob('C02.7', name + ': memmove source = &ptr[base]', ok_src, 'source is the first live slot', loc=c.loc,
                   detail=affine_str(src))
            ctx.ob('C02.7', name + ': memmove dest = &ptr[base+off]', ok_dst, 'destination is the first live slot shifted by off',
                   loc=c.loc, detail=affine_str(dst))
            ctx.ob('C02.7', name + ': memmove length = 8*(top-base)', ok_len, 'exactly the live slots are moved', loc=c.loc,
                   detail=affine_str(ln))
            off = list(dr)[0] if ok_dst else None
            for fld in (TOP, BASE):
                sts = [s for s in f.stores_to(fld) if s in f.reachable_from(c) and off is not None and
                       off in affine(f, s.ops[0])]
                ok = False
                for s in sts:
                    a = affine(f, s.ops[0])
                    ld = [k for k in a if k in f.insts and f.insts[k].op == 'load' and f.field(f.insts[k]) == fld]
                    if len(ld) == 1 and a.get(ld[0]) == 1 and a.get(off) == 1 and a.get('', 0) == 0 and len([k for k in a if k != '']) == 2:
                        ok = True
                ctx.ob('C02.7', '%s: %s shifted by the same off' % (name, fld.split('.')[1]), ok,
                       'the index moves by exactly the offset the slots were moved by', loc=c.loc)
    # after re-centring, push must use the shifted top (re-read), not the index it read before the shift
    f = ctx.need_fn(views['myth_queue_push'], 'myth_queue_push')
    mm = [c for c in f.calls() if c.callee and c.callee.startswith('llvm.memmove')]
    th = f.param_named('th')
    slots = [s for s in f.order if s.op == 'store' and same_value(f, s.ops[0], th)]
    for s_ in slots:
        for c in mm:
            shifted = [st for st in f.stores_to(TOP) if st in f.reachable_from(c)]
            idx_loads = [f.insts[k] for k in affine(f, s_.ops[1]) if k in f.insts and f.insts[k].op == 'load' and f.field(f.insts[k]) == TOP]
            idx_loads += [f.insts[k2] for k in affine(f, s_.ops[1]) if k in f.insts and f.insts[k].op == 'phi'
                          for k2 in f.sources(k) if k2 in f.insts and f.insts[k2].op == 'load' and f.field(f.insts[k2]) == TOP]
            # on paths through the memmove the index must come from a load executed after the shift of top
            fresh = [l for l in idx_loads if any(l in f.reachable_from(st) for st in shifted)]
            phis = [f.insts[k] for k in affine(f, s_.ops[1]) if k in f.insts and f.insts[k].op == 'phi']
            ok = bool(fresh)
            for ph in phis:
                for val, b in ph.d['incoming']:
                    blk_last = f.blocks[b].insts[-1]
                    if blk_last in f.reachable_from(c) or blk_last.block is c.block:
                        srcs = [f.insts[k] for k in f.sources(val) if k in f.insts]
                        if not srcs or not all(x in fresh for x in srcs):
                            ok = False
            ctx.ob('C02.7', 'myth_queue_push: slot index re-read after re-centring', ok,
                   'after the slots were moved the new element goes to the shifted top, not to the index read before the shift '
                   '(which is the array size: one past the end)', loc=s_.loc)
    ctx.floor('C02.7', 11)


QUSERS = ['myth_queue_push', 'myth_queue_pop', 'myth_queue_take', 'myth_queue_put', 'myth_queue_trypass', 'myth_queue_peek']


def rule13_victims(ctx, fl):
    ctx.doc('C02.13', 'victim selection (myth_env_get_first_busy): the index computed from the random draw r in [0, n-1) and the thief\'s own '
            'rank ranges over every other worker and never over the thief itself - evaluated exhaustively for n = 2..6 workers.  A worker '
            'that no thief ever looks at keeps its queued threads to itself: with two workers a thread queued behind a busy worker is '
            'never resumed although the other worker is idle')
    v = ctx.view('myth_worker.c', roots=['myth_env_get_first_busy'], stops=('myth_random',), flavour=fl)
    f = ctx.need_fn(v, 'myth_env_get_first_busy')
    rnd = call_sites(f, 'myth_random')
    nwl = [l for l in f.order if l.op == 'load' and isinstance(f.ap(l.ops[0]).root, dict) and f.ap(l.ops[0]).root.get('g') == 'g_attr' and l.ty == 'i32']
    rkl = [l for l in f.order if l.op == 'load' and f.field(l) == 'myth_running_env.rank' and same_value(f, f.ap(l.ops[0]).root, 'a0')]
    ok = len(rnd) == 1 and bool(nwl) and bool(rkl)
    ctx.ob('C02.13', 'victim selection: one random draw, own rank and worker count read', ok, 'idx = myth_random(0, n - 1); idx += (idx >= e->rank)',
           loc=f.loc)
    if not ok:
        return
    idxs = []
    for val, anchor in ret_cases(f, maxdepth=2):
        if isinstance(val, dict):
            continue
        ap = f.ap(val)
        st = [x for x in ap.steps if x[0] in ('p', 'i') and isinstance(x[1], str)]
        if st:
            idxs.append(st[-1][1])
    ctx.ob('C02.13', 'victim selection: returns &g_envs[index]', len(idxs) == 1, 'one computed index', loc=f.loc)
    if len(idxs) != 1:
        return
    bad, n_ev, undecided = [], 0, False
    for n in range(2, 7):
        env0 = dict((l.id, n) for l in nwl)
        lo = lib.eval_expr(f, rnd[0].args[0], env0)
        hi = lib.eval_expr(f, rnd[0].args[1], env0)
        if lo is None or hi is None:
            continue
        for rank in range(n):
            got = set()
            for r in range(lo, hi):            # myth_random(min, max) draws from [min, max)
                env = dict(env0)
                env.update((l.id, rank) for l in rkl)
                env[rnd[0].id] = r
                x = lib.eval_expr(f, idxs[0], env)
                if x is None:
                    undecided = True
                n_ev += 1
                got.add(x)
            if got != set(range(n)) - {rank}:
                bad.append((n, rank, sorted(got, key=str)))
    if undecided:
        # the index is not a pure expression of the draw and the rank (e.g. computed through a branch): nothing is claimed
        ctx.note('C02.13: victim index not constant-foldable; coverage of victims not decided')
        return
    ctx.ob('C02.13', 'victim selection: every other worker can be chosen, the thief itself never', n_ev >= 50 and not bad,
           'the set of indices over all draws equals {0..n-1} minus the own rank', loc=f.loc,
           detail='%d points; first mismatches (n, rank, reachable victims): %s' % (n_ev, bad[:3]))
    ctx.floor('C02.13', 2)


def rule10_wsapi(ctx, fl):
    ctx.doc('C02.10', 'custom work-stealing API forwarders: myth_wsapi_runqueue_push inserts its argument into the caller\'s run queue on '
            'every path, myth_wsapi_runqueue_pop returns what myth_queue_pop returned, myth_wsapi_runqueue_pass returns the result of '
            'myth_queue_trypass on the target\'s queue with its own argument')
    m = ctx.ssa(NATIVE, fl)
    f = ctx.need_fn(m, 'myth_wsapi_runqueue_push')
    ps = [c for c in call_sites(f, 'myth_queue_push') if same_value(f, c.args[1], f.params[0]['id'])]
    ctx.ob('C02.10', 'wsapi push: the thread handed in is inserted on every path', len(ps) == 1 and f.always_passes(f.entry_inst(), ps),
           'a thread given to myth_wsapi_runqueue_push and not inserted is never run again', loc=f.loc)
    g = ctx.need_fn(m, 'myth_wsapi_runqueue_pop')
    pp = call_sites(g, 'myth_queue_pop')
    rets = [r for r in g.exits() if r.ops]
    ctx.ob('C02.10', 'wsapi pop: returns the popped thread', len(pp) == 1 and bool(rets) and all(same_value(g, r.ops[0], pp[0].id) for r in rets),
           'the thread removed from the queue is the one handed to the caller', loc=g.loc)
    h = ctx.need_fn(m, 'myth_wsapi_runqueue_pass')
    tp = call_sites(h, 'myth_queue_trypass')
    rets = [r for r in h.exits() if r.ops]
    okp = len(tp) == 1 and same_value(h, tp[0].args[1], h.params[1]['id']) and bool(rets) and all(same_value(h, r.ops[0], tp[0].id) for r in rets)
    if okp:
        ix = [x for x in h.ap(tp[0].args[0]).steps if x[0] in ('p', 'i')]
        okp = h.ap(tp[0].args[0]).fields[-1:] == ['myth_running_env.runnable_q'] and bool(ix) and isinstance(ix[0][1], str) and \
            h.params[0]['id'] in h.sources(ix[0][1], through_arith=True)
    ctx.ob('C02.10', 'wsapi pass: hands the thread to the target worker\'s queue and reports the outcome', okp,
           'the caller keeps responsibility for the thread exactly when pass reports failure', loc=h.loc)
    # the unlocked pre-check of the thief-side operations refuses only an empty queue: a victim that holds exactly one runnable thread
    # (typically the continuation its owner is waiting for) must stay stealable
    vq = ctx.view(NATIVE, roots=['myth_wsapi_runqueue_take', 'myth_wsapi_runqueue_peek'], stops=lib.SPIN_STOPS, flavour=fl)
    vw = ctx.view('myth_worker.c', roots=['myth_queue_take'], stops=lib.SPIN_STOPS, flavour=fl)
    for fn_ in (ctx.need_fn(vq, 'myth_wsapi_runqueue_take'), ctx.need_fn(vq, 'myth_wsapi_runqueue_peek'), ctx.need_fn(vw, 'myth_queue_take')):
        locks = [c for c in fn_.calls() if c.callee in (lib.SPIN_LOCK, lib.SPIN_TRYLOCK)]
        pre = []
        for ic in fn_.order:
            if ic.op != 'icmp' or ic.pred not in ('sle', 'slt', 'sge', 'sgt') or (locks and any(fn_.can_reach(l_, ic) for l_ in locks)):
                continue
            d = {k: c for k, c in lib.affine_diff(fn_, ic.ops[0], ic.ops[1]).items() if c != 0}
            tl = [k for k in d if k in fn_.insts and fn_.insts[k].op == 'load' and fn_.field(fn_.insts[k]) == TOP]
            bl = [k for k in d if k in fn_.insts and fn_.insts[k].op == 'load' and fn_.field(fn_.insts[k]) == BASE]
            if len(tl) == 1 and len(bl) == 1 and len([k for k in d if k != '']) == 2 and d[tl[0]] == -d[bl[0]] and abs(d[tl[0]]) == 1:
                sgn, c0 = d[tl[0]], d.get('', 0)
                # sgn*(top - base) + c0  <pred>  0
                pre.append((ic, sgn, c0))
        for ic, sgn, c0 in pre:
            # the refusing edge is the one from which a return is reached without any lock: express it as top - base <= K
            K = None
            if sgn == 1:
                K = {'sle': -c0, 'slt': -c0 - 1}.get(ic.pred)          # true edge refuses
                K = K if K is not None else {'sgt': -c0, 'sge': -c0 - 1}.get(ic.pred)   # false edge refuses
            else:
                K = {'sge': c0, 'sgt': c0 - 1}.get(ic.pred)            # -(top-base) + c0 >= 0  <=>  top - base <= c0
                K = K if K is not None else {'slt': c0, 'sle': c0 - 1}.get(ic.pred)
            ctx.ob('C02.10', '%s: the unlocked pre-check refuses only an empty queue' % fn_.name, K is not None and K <= 0,
                   'return NULL before locking only when top - base <= 0 (a weaker pre-check merely falls through to the locked test); a threshold of one makes a sole queued thread unstealable',
                   loc=ic.loc, detail='refuses when top - base <= %s' % K)
    ctx.floor('C02.10', 4)


def rule9_init(ctx, fl):
    ctx.doc('C02.9', 'initialiser completeness of the run queue: every field of myth_thread_queue that push / pop / take / put / '
            'trypass / peek read is written by myth_queue_init (analysed in a scratch unit that emits all of them together)')
    names = ['myth_queue_init'] + QUSERS
    file, kw = ctx.emit_unit(names, flavour=fl)
    v = ctx.view(file, roots=names, stops=('myth_malloc', 'myth_free', 'myth_flmalloc', 'myth_flfree', 'fprintf', 'abort', 'myth_mmap') +
                 lib.SPIN_STOPS, **kw)
    n = lib.init_covers(ctx, 'C02.9', v, 'myth_queue_init', QUSERS, 'run queue')
    ctx.ob('C02.9', 'fields read by the queue operations enumerated', n >= 5, 'base, top, size, ptr, wc', loc=WSQ, detail=str(n))
    ctx.floor('C02.9', 7)


def run(ctx):
    for fl in flavours(ctx):
        ctx.unit = fl
        ctx.doc('C02.11', 'native API forwarding: each public entry point of this property reaches the implementation of the same name with its parameters in order and returns its result (sibling slips such as trylock -> lock, signal -> broadcast, swapped arguments)')
        ctx.attempt(lib.native_forwarding, ctx, 'C02.11', fl, lambda n: n in ('myth_yield', 'myth_yield_ex', 'myth_sched_yield', 'myth_steal'), floor=3)
        ctx.attempt(rule9_init, ctx, fl)
        ctx.attempt(rule10_wsapi, ctx, fl)
        ctx.attempt(rule13_victims, ctx, fl)
        stops = lib.SPIN_STOPS
        vn = ctx.view(NATIVE, roots=['myth_queue_push', 'myth_queue_pop', 'myth_queue_put', 'myth_queue_trypass',
                                     'myth_wsapi_runqueue_take', 'myth_wsapi_runqueue_peek'], stops=stops, flavour=fl)
        vw = ctx.view('myth_worker.c', roots=['myth_queue_take'], stops=stops, flavour=fl)
        vi = ctx.view('myth_init.c', roots=['myth_queue_clear'], stops=stops, flavour=fl)
        views = {n: vn for n in ('myth_queue_push', 'myth_queue_pop', 'myth_queue_put', 'myth_queue_trypass',
                                 'myth_wsapi_runqueue_take', 'myth_wsapi_runqueue_peek')}
        views['myth_queue_take'] = vw
        views['myth_queue_clear'] = vi
        ctx.attempt(rule1_dekker, ctx, views)
        ctx.attempt(rule2_locks, ctx, views)
        ctx.attempt(rule3_publish, ctx, views)
        ctx.attempt(rule4_rollback, ctx, views)
        ctx.attempt(rule5_owner, ctx, fl)
        ctx.attempt(rule6_nodrop, ctx, fl)
        ctx.attempt(rule7_recentre, ctx, views)
        from . import c16
        with ctx.shared({'C16.10': 'C02.12'}, floor=4,
                        doc='a yielding thread re-queues itself behind the threads that are already runnable on its worker (shared with '
                            'C16.10): with the head insertion two yielders hand the worker to each other and a third runnable thread in '
                            'the same queue is never resumed although it was never removed'):
            ctx.attempt(c16.rule10_yield, ctx, fl)


WSQ = 'src/myth_wsqueue_func.h'
NAT = 'src/myth_if_native.c'
SCHED = 'src/myth_sched_func.h'
MUTANTS = [
    {'name': 'uncond signal pushes on the run queue of the waiter\'s previous worker: owner-only push from a non-owner (hand mutant r6)', 'expect': 'C02.5',
     'edits': [('src/myth_sync_func.h', "  to_wake->env = env;\n  u->th = 0;\n  myth_queue_push(&env->runnable_q, to_wake);\n  return 0;", "  u->th = 0;\n  myth_queue_push(&to_wake->env->runnable_q, to_wake);\n  return 0;")]},
    {'name': 'uncond wait always switches to the scheduler: the popped thread is dropped (hand mutant r6; verdict must be the violation, not the sibling floor)', 'expect': 'C02.6',
     'edits': [('src/myth_sync_func.h', "    next_ctx = &next->context;\n  } else {\n    /* no runnable thread -> scheduler */\n    next_ctx = &env->sched.context;\n  }\n  /* now save the current context, myth_sleep_queue_enq_th(q, cur)\n     to put cur in the q, and jump to next_ctx */\n  myth_swap_context_withcall(&cur->context, next_ctx,\n\t\t\t     myth_uncond_wait_cb", "    next_ctx = &env->sched.context;\n  } else {\n    /* no runnable thread -> scheduler */\n    next_ctx = &env->sched.context;\n  }\n  /* now save the current context, myth_sleep_queue_enq_th(q, cur)\n     to put cur in the q, and jump to next_ctx */\n  myth_swap_context_withcall(&cur->context, next_ctx,\n\t\t\t     myth_uncond_wait_cb")]},
    {'name': 'wsapi take treats a queue with one entry as empty (seed5 C02/m1)', 'expect': 'C02.10',
     'edits': [('src/myth_if_native.c', "  q = &g_envs[victim].runnable_q;\n  wc = &q->wc;\n#if QUICK_CHECK_ON_STEAL\n  if (q->top-q->base<=0){", "  q = &g_envs[victim].runnable_q;\n  wc = &q->wc;\n#if QUICK_CHECK_ON_STEAL\n  if (q->top-1<=q->base){")]},
    {'name': 'victim selection never picks the right-hand neighbour (seed4 C02/m1)', 'expect': 'C02.13',
     'edits': [('src/myth_worker_func.h', "  idx += (idx >= e->rank);", "  idx += (idx > e->rank);")]},
    {'name': 'trypass refuses every queue that has room (sweep M0471, passes the suite)', 'expect': 'C02.3',
     'edits': [(WSQ, "  if (q->base == 0){\n    ret = 0;\n  }\n  else{\n    int b;", "  if (q->base != 0){\n    ret = 0;\n  }\n  else{\n    int b;")]},
    {'name': 'yield re-queues the yielder at the head (seed3 C02/m1)', 'expect': 'C02.12',
     'edits': [('src/myth_sched_func.h', "  myth_queue_put(&env->runnable_q, this_thread);\n  env->this_thread = next_thread;", "  myth_queue_push(&env->runnable_q, this_thread);\n  env->this_thread = next_thread;")]},
    {'name': 'wsapi push drops the thread (sweep M0661)', 'expect': 'C02.10',
     'edits': [('src/myth_if_native.c', "  myth_running_env_t env=myth_get_current_env();\n  myth_queue_push(&env->runnable_q,th);\n}", "  myth_running_env_t env=myth_get_current_env();\n  (void)env; (void)th;\n}")]},
    {'name': 'pop returns without reading the claimed slot (sweep M0449)', 'expect': 'C02.4',
     'edits': [(WSQ, "  if (base + 1 < top){\n    ret = q->ptr[top];", "  if (base + 1 < top){\n    ret = q->ptr[top + 1];")]},
    {'name': 'pop leaves top below base on an empty queue (sweep M0451)', 'expect': 'C02.4',
     'edits': [(WSQ, "      q->top = q->size/2;\n      q->base = q->size/2;\n      myth_wsqueue_lock_unlock(&q->lock);", "      q->base = q->size/2;\n      myth_wsqueue_lock_unlock(&q->lock);")]},
    {'name': 'join callback does not record the resumed thread as current (sweep M0358)', 'expect': 'C02.6',
     'edits': [('src/myth_sched_func.h', "  //Change current running thread\n  env->this_thread=next_thread;\n  //myth_log_add(env,MYTH_LOG_USER);\n}\n\nMYTH_CTX_CALLBACK void myth_join_3", "  //myth_log_add(env,MYTH_LOG_USER);\n}\n\nMYTH_CTX_CALLBACK void myth_join_3")]},
    {'name': 'block_on_queue goes to the scheduler when it has a thread (sweep M0193)', 'expect': 'C02.6',
     'edits': [('src/myth_sync_func.h', "  env->this_thread = next;\n  if (next) {\n    /* a runnable thread */\n    next->env = env;\n    next_ctx = &next->context;\n  } else {\n    /* no runnable thread -> scheduler */\n    next_ctx = &env->sched.context;\n  }\n  /* now save the current context, myth_sleep_queue_enq_th(q, cur)",
                "  env->this_thread = next;\n  if (!(next)) {\n    /* a runnable thread */\n    next->env = env;\n    next_ctx = &next->context;\n  } else {\n    /* no runnable thread -> scheduler */\n    next_ctx = &env->sched.context;\n  }\n  /* now save the current context, myth_sleep_queue_enq_th(q, cur)")]},
    {'name': 'block_on_queue does not record the resumed thread as current (sweep M0197)', 'expect': 'C02.6',
     'edits': [('src/myth_sync_func.h', "  myth_context_t next_ctx;\n  env->this_thread = next;\n  if (next) {", "  myth_context_t next_ctx;\n  if (next) {")]},
    {'name': 'queue_init leaves top unset', 'expect': 'C02.9',
     'edits': [(WSQ, "  q->base = q->size/2;\n  q->top = q->base;\n  memset(&q->wc,0,sizeof(myth_wscache));", "  q->base = q->size/2;\n  memset(&q->wc,0,sizeof(myth_wscache));")]},
    {'name': 'queue_init does not clear the peek cache', 'expect': 'C02.9',
     'edits': [(WSQ, "  q->top = q->base;\n  memset(&q->wc,0,sizeof(myth_wscache));", "  q->top = q->base;")]},
    {'name': 'pop: fence between top store and base load removed', 'expect': 'C02.1',
     'edits': [(WSQ, "  q->top = top;\n  //Decrement and check top\n  myth_wsqueue_rwbarrier();\n  base = q->base;", "  q->top = top;\n  //Decrement and check top\n  base = q->base;")]},
    {'name': 'take: fence removed', 'expect': 'C02.1',
     'edits': [(WSQ, "  b = q->base;\n  q->base = b + 1;\n  myth_wsqueue_rwbarrier();\n  top = q->top;\n  if (b < top){\n    myth_wsqueue_rbarrier();\n    ret = q->ptr[b];\n    //q->ptr[b]=NULL;\n    myth_wsqueue_lock_unlock(&q->lock);",
                "  b = q->base;\n  q->base = b + 1;\n  top = q->top;\n  if (b < top){\n    myth_wsqueue_rbarrier();\n    ret = q->ptr[b];\n    //q->ptr[b]=NULL;\n    myth_wsqueue_lock_unlock(&q->lock);")]},
    {'name': 'wsapi_take: fence downgraded to a write barrier', 'expect': 'C02.1',
     'edits': [(NAT, "  b=q->base;\n  q->base=b+1;\n  myth_wsqueue_rwbarrier();\n  top=q->top;\n  if (b<top){\n    ret=q->ptr[b];", "  b=q->base;\n  q->base=b+1;\n  myth_wsqueue_wbarrier();\n  top=q->top;\n  if (b<top){\n    ret=q->ptr[b];")]},
    {'name': 'rwbarrier body emptied', 'expect': 'C02.1',
     'edits': [('src/myth_mem_barrier_func.h', 'static inline void myth_rbarrier() {\n  int x=0, y=0;\n  asm volatile("xchgl %0,%1":"=r"(x):"m"(y),"0"(x):"memory");\n}',
                'static inline void myth_rbarrier() {\n  asm volatile("":::"memory");\n}')]},
    {'name': 'pop reads base before publishing the decremented top', 'expect': 'C02.1',
     'edits': [(WSQ, "  top = q->top;\n  top--;\n  q->top = top;\n  //Decrement and check top\n  myth_wsqueue_rwbarrier();\n  base = q->base;", "  top = q->top;\n  top--;\n  base = q->base;\n  myth_wsqueue_rwbarrier();\n  q->top = top;")]},
    {'name': 'take returns NULL without unlocking when empty', 'expect': 'C02.2',
     'edits': [(WSQ, "  }else{\n    q->base = b;\n    myth_wsqueue_lock_unlock(&q->lock);\n#if USE_LOCK || USE_LOCK_TAKE\n    myth_spin_unlock_body(&q->m_lock);\n#endif\n    return NULL;\n  }\n  myth_unreachable();\n}\n\nstatic inline myth_thread_t myth_queue_peek",
                "  }else{\n    q->base = b;\n    return NULL;\n  }\n  myth_unreachable();\n}\n\nstatic inline myth_thread_t myth_queue_peek")]},
    {'name': 'pop slow path resets indices after unlocking', 'expect': 'C02.2',
     'edits': [(WSQ, "      q->top = q->size/2;\n      q->base = q->size/2;\n      myth_wsqueue_lock_unlock(&q->lock);", "      myth_wsqueue_lock_unlock(&q->lock);\n      q->top = q->size/2;\n      q->base = q->size/2;")]},
    {'name': 'put inserts at base without the lock', 'expect': 'C02.2',
     'edits': [(WSQ, "  int b = q->base;\n  myth_assert(b > 0);\n  b--;\n  q->ptr[b] = th;\n  q->base = b;\n  myth_wsqueue_lock_unlock(&q->lock);", "  int b = q->base;\n  myth_assert(b > 0);\n  b--;\n  q->ptr[b] = th;\n  myth_wsqueue_lock_unlock(&q->lock);\n  q->base = b;")]},
    {'name': 'push publishes top before writing the slot', 'expect': 'C02.3',
     'edits': [(WSQ, "  q->ptr[t] = th;\n  myth_wsqueue_wbarrier();//Guarantee W-W dependency\n  q->top = t + 1;", "  q->top = t + 1;\n  myth_wsqueue_wbarrier();//Guarantee W-W dependency\n  q->ptr[t] = th;")]},
    {'name': 'push drops the write barrier', 'expect': 'C02.3',
     'edits': [(WSQ, "  q->ptr[t] = th;\n  myth_wsqueue_wbarrier();//Guarantee W-W dependency\n  q->top = t + 1;", "  q->ptr[t] = th;\n  q->top = t + 1;")]},
    {'name': 'trypass writes slot b instead of b-1', 'expect': 'C02.3',
     'edits': [(WSQ, "    q->ptr[b-1] = th;", "    q->ptr[b] = th;")]},
    {'name': 'take forgets the rollback when empty', 'expect': 'C02.4',
     'edits': [(WSQ, "  }else{\n    q->base = b;\n    myth_wsqueue_lock_unlock(&q->lock);\n#if USE_LOCK || USE_LOCK_TAKE\n    myth_spin_unlock_body(&q->m_lock);\n#endif\n    return NULL;\n  }\n  myth_unreachable();\n}\n\nstatic inline myth_thread_t myth_queue_peek",
                "  }else{\n    myth_wsqueue_lock_unlock(&q->lock);\n    return NULL;\n  }\n  myth_unreachable();\n}\n\nstatic inline myth_thread_t myth_queue_peek")]},
    {'name': 'wsapi_take: declined candidate is not put back', 'expect': 'C02.4',
     'edits': [(NAT, "    myth_wsqueue_wbarrier();\n  }\n  q->base=b;\n  myth_wsqueue_lock_unlock(&q->lock);", "    myth_wsqueue_wbarrier();\n    myth_wsqueue_lock_unlock(&q->lock);\n    return NULL;\n  }\n  q->base=b;\n  myth_wsqueue_lock_unlock(&q->lock);")]},
    {'name': 'wsapi_take rolls back although it hands the thread out', 'expect': 'C02.4',
     'edits': [(NAT, "      wc->seq=s+2;\n      myth_wsqueue_lock_unlock(&q->lock);\n#if USE_LOCK || USE_LOCK_TAKE\n      myth_spin_unlock_body(&q->m_lock);\n#endif\n      return ret;", "      wc->seq=s+2;\n      q->base=b;\n      myth_wsqueue_lock_unlock(&q->lock);\n      return ret;")]},
    {'name': 'steal function pushes on the victim\'s queue', 'expect': 'C02.5',
     'edits': [('src/myth_worker.c', "    next_run = myth_queue_take(&busy_env->runnable_q);\n    if (next_run){", "    next_run = myth_queue_take(&busy_env->runnable_q);\n    if (next_run && next_run->status != MYTH_STATUS_READY){ myth_queue_push(&busy_env->runnable_q, next_run); next_run = NULL; }\n    if (next_run){")]},
    {'name': 'wake-up pushes on the woken thread\'s previous worker', 'expect': 'C02.5',
     'edits': [('src/myth_sync_func.h', "  /* put the thread that just woke up to the run queue */\n  myth_queue_push(&env->runnable_q, to_wake);\n  return 1;", "  /* put the thread that just woke up to the run queue */\n  myth_queue_push(&g_envs[to_wake->env->rank].runnable_q, to_wake);\n  return 1;")]},
    {'name': 'yield drops the popped thread when the steal also finds one', 'expect': 'C02.6',
     'edits': [(SCHED, "  case myth_yield_option_local_first: {\n    next = myth_queue_pop(&env->runnable_q);\n    if (!next) {\n      next = g_myth_steal_func(env->rank);\n    }\n    break;", "  case myth_yield_option_local_first: {\n    next = myth_queue_pop(&env->runnable_q);\n    if (next && next->status != MYTH_STATUS_READY) {\n      next = g_myth_steal_func(env->rank);\n    }\n    break;")]},
    {'name': 'yield forgets to switch to the thread it removed', 'expect': 'C02.6',
     'edits': [(SCHED, "  if (next) {\n    next->env=env;\n    //Switch context and push current thread to runqueue", "  if (next && opt != myth_yield_option_steal_only) {\n    next->env=env;\n    //Switch context and push current thread to runqueue")]},
    {'name': 'exit path resumes a popped thread without rebinding its env (original defect D13)', 'expect': 'C02.8',
     'edits': [(SCHED, "    next->env = env;\n    //Switch to the next thread\n    myth_set_context_withcall(&next->context, myth_entry_point_1,", "    //Switch to the next thread\n    myth_set_context_withcall(&next->context, myth_entry_point_1,")]},
    {'name': 'join resumes a popped thread without rebinding its env', 'expect': 'C02.8',
     'edits': [(SCHED, "    next->env=env;\n    //Switch to next runnable thread", "    //Switch to next runnable thread")]},
    {'name': 'trypass reports success when the queue lock was busy (seed C02/m3)', 'expect': 'C02.3',
     'edits': [(WSQ, "  int ret = 1;\n  if (!myth_wsqueue_lock_trylock(&q->lock)) return 0;\n  if (q->base == 0){\n    ret = 0;\n  }\n  else{", "  int ret = 1;\n  if (!myth_wsqueue_lock_trylock(&q->lock)) goto out;\n  if (q->base == 0){\n    ret = 0;\n  }\n  else{"),
               (WSQ, "  myth_wsqueue_lock_unlock(&q->lock);\n#if USE_LOCK || USE_LOCK_TRYPASS\n  myth_spin_unlock_body(&q->m_lock);\n#endif\n  return ret;\n}\n\nstatic inline void myth_queue_pass", "  myth_wsqueue_lock_unlock(&q->lock);\n out:\n  return ret;\n}\n\nstatic inline void myth_queue_pass")]},
    {'name': 'push uses the stale top after re-centring (seed C02/m2)', 'expect': 'C02.7',
     'edits': [(WSQ, "    t = q->top;\n    myth_assert(t < q->size);\n    myth_wsqueue_lock_unlock(&q->lock);", "    myth_assert(q->top < q->size);\n    myth_wsqueue_lock_unlock(&q->lock);")]},
    {'name': 'push re-centre shifts base by a different amount', 'expect': 'C02.7',
     'edits': [(WSQ, "      q->top += offset;\n      q->base += offset;\n    }\n    t = q->top;", "      q->top += offset;\n      q->base += offset + 1;\n    }\n    t = q->top;")]},
    {'name': 'put re-centre moves one slot too few', 'expect': 'C02.7',
     'edits': [(WSQ, "      memmove(&q->ptr[q->base + offset], &q->ptr[q->base],\n\t      sizeof(myth_thread_t) * (q->top - q->base));\n      q->top += offset;\n      q->base += offset;\n      myth_assert(q->base > 0);",
                "      memmove(&q->ptr[q->base + offset], &q->ptr[q->base],\n\t      sizeof(myth_thread_t) * (q->top - q->base - 1));\n      q->top += offset;\n      q->base += offset;\n      myth_assert(q->base > 0);")]},
]
