"""C03 - registers and stack survive every context switch.

The register/stack contract of every context-switch inline asm of the
configured (amd64, inline context) build is decided from its template and
constraint list; alignment of fresh contexts from known bits of the stored
stack pointer; and "publish the suspended thread only from the callback" from
the CFG of every function that contains a swap-type switch."""
import re

from .. import lib
from ..ir import asm_lines, classify_asm, asm_callback
from ..lib import switch_sites, parse_constraints, norm_reg, call_sites, same_value, describe

META = {
    'explanation': 'For each of the context-switch inline-asm sites (all TUs of the library): x86-64 template parsed '
                   'into a stack-effect trace; GPR accounting (pushed+popped, outputs, clobbers cover all 15 GPRs), '
                   'save/restore mirror symmetry, red-zone skip >= 128, 16-byte displacement, order '
                   'save->store rsp->load rsp->call->pop/jmp, callback existence/attributes/register binding; '
                   'known-bits alignment of the initial stack pointer of fresh contexts; no publication of the '
                   'suspended thread before its context is saved.',
    'not_decided': 'MXCSR/x87 control words (deliberately not saved), compiler caching of TLS addresses across a '
                   'migration (visible only in machine code), actual stack contents at run time',
    'assumptions': ['x86-64 SysV ABI; rsp is 16-byte aligned at the asm statement inside a compiled function body',
                    'only the configured amd64 MYTH_INLINE_CONTEXT build is covered'],
    'technique': 'static analysis: inline-asm template parsing (stack-effect trace) + constraint accounting + '
                 'KnownBits + CFG reachability over LLVM IR',
}
META['explanation'] += ' Every thread-side swap saves into the running thread\'s own context and resumes the scheduler or a different thread (C03.10).'

GPR15 = {'rax', 'rbx', 'rcx', 'rdx', 'rsi', 'rdi', 'rbp', 'r8', 'r9', 'r10', 'r11', 'r12', 'r13', 'r14', 'r15'}
CALLEE_SAVED = {'rbp', 'rbx', 'r12', 'r13', 'r14', 'r15'}


def parse_template(tmpl):
    """-> list of ops: ('sub',k) ('add',k) ('push',reg) ('pop',reg) ('lea_label',label,reg)
    ('save_rsp',operand) ('load_rsp',operand) ('call',sym) ('jmp_reg',reg) ('ret',) ('label',name) ('other',text)"""
    ops = []
    for l in asm_lines(tmpl):
        l = l.strip()
        m = re.match(r'^sub[q]?\s+\$\$?(-?\d+)\s*,\s*%rsp$', l)
        if m:
            ops.append(('sub', int(m.group(1))))
            continue
        m = re.match(r'^add[q]?\s+\$\$?(-?\d+)\s*,\s*%rsp$', l)
        if m:
            ops.append(('add', int(m.group(1))))
            continue
        m = re.match(r'^push[q]?\s+%(\w+)$', l)
        if m:
            ops.append(('push', norm_reg(m.group(1))))
            continue
        m = re.match(r'^pop[q]?\s+%(\w+)$', l)
        if m:
            ops.append(('pop', norm_reg(m.group(1))))
            continue
        m = re.match(r'^lea[q]?\s+(\w+)\(%rip\)\s*,\s*%(\w+)$', l)
        if m:
            ops.append(('lea_label', m.group(1), norm_reg(m.group(2))))
            continue
        m = re.match(r'^mov[q]?\s+%rsp\s*,\s*\(\s*\$\{?(\d+)(?::\w)?\}?\s*\)$', l)
        if m:
            ops.append(('save_rsp', int(m.group(1))))
            continue
        m = re.match(r'^mov[q]?\s+\(\s*\$\{?(\d+)(?::\w)?\}?\s*\)\s*,\s*%rsp$', l)
        if m:
            ops.append(('load_rsp', int(m.group(1))))
            continue
        m = re.match(r'^call[q]?\s+([A-Za-z_][\w]*)(@PLT)?$', l)
        if m:
            ops.append(('call', m.group(1)))
            continue
        m = re.match(r'^jmp[q]?\s+\*%(\w+)$', l)
        if m:
            ops.append(('jmp_reg', norm_reg(m.group(1))))
            continue
        if re.match(r'^ret[q]?$', l):
            ops.append(('ret',))
            continue
        m = re.match(r'^(\w+):$', l)
        if m:
            ops.append(('label', m.group(1)))
            continue
        ops.append(('other', l))
    return ops


def operand_reg(ins, n):
    outs, inputs, clob = parse_constraints(ins.constraints)
    allops = outs + inputs
    if n < len(allops):
        return allops[n].get('reg'), allops[n]
    return None, None


def site_key(fn, site):
    same = [x for x in switch_sites(fn) if (x.callback or x.kind) == (site.callback or site.kind)]
    k = '%s@%s' % (fn.name, site.callback or site.kind)
    if len(same) > 1:
        k += '#%d' % ([x.ins.id for x in same].index(site.ins.id) + 1)
    return k


def check_site(ctx, fn, site):
    ins = site.ins
    k = site_key(fn, site)
    ops = parse_template(ins.asm)
    outs, inputs, clob = parse_constraints(ins.constraints)
    loc = ins.loc
    others = [o for o in ops if o[0] == 'other']
    ctx.ob('C03.5', k + ': template understood', not others,
           'every instruction of the switch template is one the stack-effect parser models', loc=loc,
           detail='unmodelled: %s' % others if others else '')
    # --- operand classes
    bad = [e['raw'] for e in outs + inputs if e['kind'] not in ('reg', 'tied') or not e.get('reg')]
    ctx.ob('C03.1', k + ': register operands', not bad,
           'all asm operands are pinned registers (no m/g operand that could be rsp-relative after rsp changes)',
           loc=loc, detail='non-register operands: %s' % bad if bad else '')
    ctx.ob('C03.1', k + ': memory+cc clobber', 'memory' in clob and ('cc' in clob or 'flags' in clob),
           'the asm declares memory and condition codes clobbered', loc=loc)
    early = all(e.get('early') for e in outs)
    ctx.ob('C03.1', k + ': earlyclobber outputs', early or site.is_final,
           'dummy outputs are early-clobber so that no input shares a register with an unrelated output', loc=loc)

    if site.is_swap:
        # split at save_rsp / label
        idx_save = [i for i, o in enumerate(ops) if o[0] == 'save_rsp']
        idx_load = [i for i, o in enumerate(ops) if o[0] == 'load_rsp']
        idx_label = [i for i, o in enumerate(ops) if o[0] == 'label']
        shape = len(idx_save) == 1 and len(idx_load) == 1 and len(idx_label) == 1 and \
            idx_save[0] < idx_load[0] < idx_label[0]
        ctx.ob('C03.5', k + ': save/load/label shape', shape,
               'template has exactly one rsp save, one rsp load and one resume label, in that order', loc=loc)
        if not shape:
            return
        pre = ops[:idx_save[0]]
        mid = ops[idx_load[0] + 1:idx_label[0]]
        post = ops[idx_label[0] + 1:]
        between = ops[idx_save[0] + 1:idx_load[0]]
        ctx.ob('C03.5', k + ': nothing between save and load', not between,
               'the rsp load follows the rsp save immediately', loc=loc)
        # pushes
        pushed = [o[1] for o in pre if o[0] == 'push']
        # displacement and red zone
        disp = 0
        first_push_seen = False
        redzone_ok = True
        written = set()
        order_ok = True
        label_reg = None
        for o in pre:
            if o[0] == 'sub':
                disp += o[1]
            elif o[0] == 'add':
                disp -= o[1]
            elif o[0] == 'push':
                if not first_push_seen and disp < 128:
                    redzone_ok = False
                first_push_seen = True
                disp += 8
            elif o[0] == 'lea_label':
                label_reg = o[2]
                if o[2] in CALLEE_SAVED and o[2] not in pushed[:len([p for p in pre[:pre.index(o)] if p[0] == 'push'])]:
                    order_ok = False
                written.add(o[2])
            elif o[0] in ('pop', 'call', 'jmp_reg', 'ret', 'label'):
                order_ok = False
        ctx.ob('C03.3', k + ': red zone', redzone_ok and first_push_seen,
               'the first stack write is preceded by sub $k,%rsp with k >= 128 (red zone of the interrupted frame)',
               loc=loc)
        ctx.ob('C03.2', k + ': no clobber before save', order_ok,
               'no callee-saved register is overwritten before it has been pushed; only saves precede the rsp store',
               loc=loc)
        last_push = pushed[-1] if pushed else None
        ctx.ob('C03.5', k + ': resume label pushed last', label_reg is not None and last_push == label_reg and
               pre and pre[-1] == ('push', label_reg),
               'the last value pushed before rsp is stored is the address of the resume label', loc=loc)
        saved_regs = pushed[:-1] if last_push == label_reg else pushed
        ctx.ob('C03.2', k + ': callee-saved pushed', CALLEE_SAVED <= set(saved_regs),
               'rbp rbx r12-r15 are pushed (not merely clobbered): the resumed frame belongs to another function',
               loc=loc, detail='pushed: %s' % saved_regs)
        ctx.ob('C03.4', k + ': displacement mod 16', disp % 16 == 0,
               'rsp displacement between asm entry and the saved rsp is a multiple of 16 (callbacks and resumed '
               'threads see ABI alignment)', loc=loc, detail='displacement %d' % disp)
        # transfer part: optional call, then pop reg; jmp *reg  (or ret)
        t = list(mid)
        call = None
        if t and t[0][0] == 'call':
            call = t[0][1]
            t = t[1:]
        xfer = (len(t) == 2 and t[0][0] == 'pop' and t[1] == ('jmp_reg', t[0][1])) or (len(t) == 1 and t[0] == ('ret',))
        ctx.ob('C03.5', k + ': transfer', xfer,
               'after the rsp load: [call callback], then pop+jmp (or ret) to the resume address of the target',
               loc=loc, detail='sequence: %s' % mid)
        if xfer and t[0][0] == 'pop':
            # the scratch register used for the jump must not be callee-saved (it is never restored)
            ctx.ob('C03.2', k + ': jump scratch register', t[0][1] not in CALLEE_SAVED,
                   'the register used for the indirect jump is caller-saved', loc=loc)
        # restore mirror
        disp2 = 8  # the resume label has been popped by the switching side
        popped = []
        rest_ok = True
        for o in post:
            if o[0] == 'add':
                disp2 += o[1]
            elif o[0] == 'sub':
                disp2 -= o[1]
            elif o[0] == 'pop':
                popped.append(o[1])
                disp2 += 8
            else:
                rest_ok = False
        ctx.ob('C03.2', k + ': restore mirrors save', rest_ok and popped == saved_regs[::-1],
               'the pop sequence after the resume label is the exact mirror of the push sequence', loc=loc,
               detail='pushed %s popped %s' % (saved_regs, popped))
        ctx.ob('C03.2', k + ': net stack effect zero', disp2 == disp,
               'add/pop after resumption undo exactly the sub/push before suspension', loc=loc,
               detail='saved displacement %d, restored %d' % (disp, disp2))
        # sub/add pairing in mirrored order
        subs = [o[1] for o in pre if o[0] == 'sub']
        adds = [o[1] for o in post if o[0] == 'add']
        ctx.ob('C03.2', k + ': sub/add paired', subs == adds[::-1],
               'every sub $k,%rsp has its add $k,%rsp in mirrored order', loc=loc, detail='%s vs %s' % (subs, adds))
        covered = (set(saved_regs) & set(popped)) | set(e['reg'] for e in outs if e.get('reg')) | set(clob)
        missing = GPR15 - covered
        ctx.ob('C03.1', k + ': GPR accounting', not missing,
               'every GPR other than rsp is saved+restored by the template, an output operand, or clobbered',
               loc=loc, detail='unaccounted: %s' % sorted(missing) if missing else '')
        # operands used for rsp save/load are the from/to contexts
        r_from, _ = operand_reg(ins, ops[idx_save[0]][1])
        r_to, _ = operand_reg(ins, ops[idx_load[0]][1])
        ctx.ob('C03.5', k + ': from/to registers', r_from is not None and r_to is not None and r_from != r_to and
               r_from not in set(saved_regs) | {label_reg} and r_to not in set(saved_regs) | {label_reg},
               'the registers addressing the from/to contexts are distinct inputs not overwritten by the saves',
               loc=loc, detail='from=%s to=%s' % (r_from, r_to))
        site_from = site.regs.get(r_from)
        if site_from is not None:
            okf = bool(fn.ap(site_from).fields) and fn.ap(site_from).fields[-1].endswith('.context') or \
                'context' in describe(fn, site_from)
            ctx.ob('C03.5', k + ': saves into a context', okf,
                   'rsp is saved into the context field of the thread/scheduler being suspended', loc=loc,
                   detail=describe(fn, site_from))
    else:
        idx_load = [i for i, o in enumerate(ops) if o[0] == 'load_rsp']
        ok = len(idx_load) == 1 and idx_load[0] == 0
        t = ops[1:]
        call = None
        if t and t[0][0] == 'call':
            call = t[0][1]
            t = t[1:]
        xfer = (len(t) == 2 and t[0][0] == 'pop' and t[1] == ('jmp_reg', t[0][1])) or (len(t) == 1 and t[0] == ('ret',))
        ctx.ob('C03.5', k + ': final switch shape', ok and xfer,
               'final switch: load rsp, [call callback on the new stack], pop+jmp; nothing is pushed on the '
               'finished thread\'s stack', loc=loc, detail='%s' % ops)
        covered = set(e['reg'] for e in outs if e.get('reg')) | set(clob)
        # a final switch never returns: registers need no preservation, but inputs must be pinned
    # --- callback agreement
    if site.callback:
        cb = fn.mod.fn(site.callback)
        ctx.ob('C03.6', k + ': callback defined', cb is not None,
               'the function named in the template\'s call exists in this translation unit', loc=loc,
               detail=site.callback)
        if cb is not None:
            ctx.ob('C03.6', k + ': callback noinline+used', 'noinline' in cb.attrs and cb.used,
                   'callback is noinline and marked used (it is referenced only from asm text)', loc=cb.loc,
                   detail='attrs=%s used=%s' % (cb.attrs, cb.used))
            ctx.ob('C03.6', k + ': callback ABI', cb.cc in (0, 78) and len(cb.params) == 3 and
                   all(p['ty'].endswith('*') for p in cb.params),
                   'callback uses the SysV calling convention and takes three pointers', loc=cb.loc,
                   detail='cc=%s params=%s' % (cb.cc, [p['ty'] for p in cb.params]))
        regs = site.regs
        ctx.ob('C03.6', k + ': args in rdi,rsi,rdx', all(r in regs for r in ('rdi', 'rsi', 'rdx')),
               'the three callback arguments are bound to rdi, rsi, rdx', loc=loc, detail='bound: %s' % sorted(regs))
        # the registers carrying the args must not be overwritten before the call
        if site.is_swap:
            pre_all = ops[:[i for i, o in enumerate(ops) if o[0] == 'call'][0]] if any(o[0] == 'call' for o in ops) else ops
            wr = set(o[2] for o in pre_all if o[0] == 'lea_label') | set(o[1] for o in pre_all if o[0] == 'pop')
            ctx.ob('C03.6', k + ': args survive until call', not (wr & {'rdi', 'rsi', 'rdx'}),
                   'no instruction before the call overwrites an argument register', loc=loc)


def rule_make_context(ctx, mod):
    ctx.doc('C03.4', 'rsp displacement of a switch is 0 mod 16; the stack pointer stored by '
            'myth_make_context_empty/_voidcall has its low four bits known zero, and _voidcall stores the entry '
            'address exactly at that stack pointer')
    for name in ('myth_make_context_empty', 'myth_make_context_voidcall'):
        f = ctx.need_fn(mod, name)
        st = [s for s in f.stores_to('myth_context.rsp')]
        ctx.ob('C03.4', name + ': stores rsp', len(st) == 1, 'exactly one store to ctx->rsp', loc=f.loc)
        for s in st:
            kz = s.d.get('kz', 0)
            ctx.ob('C03.4', name + ': rsp 16-aligned', (kz & 0xF) == 0xF,
                   'the initial stack pointer of a fresh context has its low 4 bits provably zero', loc=s.loc,
                   detail='known-zero mask %#x' % kz)
            # derives from the stack parameter, moving down only
            stackp = f.param_named('stack')
            okd = stackp is not None and f.derives_from(s.ops[0], lambda x: x == stackp)
            ctx.ob('C03.4', name + ': rsp from stack arg', okd, 'the stack pointer derives from the stack argument',
                   loc=s.loc)
            if name.endswith('voidcall'):
                # the function pointer is stored through inttoptr(rsp value)
                fp = f.param_named('func')
                stores = [x for x in f.order if x.op == 'store' and x is not s]
                hit = [x for x in stores if fp is not None and f.derives_from(x.ops[0], lambda y: y == fp, through_arith=False)
                       and f.sources(x.ops[1]) == f.sources(s.ops[0])]
                ctx.ob('C03.4', name + ': entry address at rsp', bool(hit),
                       'the entry function address is stored at exactly the saved stack pointer (popped by the '
                       'first switch into the context)', loc=s.loc)
                # stack_tail -= 8 before masking: room for the return-address slot below the top
                ctx.ob('C03.4', name + ': below stack top', rsp_below_top(f, s.ops[0], stackp),
                       'the slot lies strictly below the stack top handed in (at least 8 bytes are reserved)', loc=s.loc)


def rsp_below_top(f, ref, stackp):
    """value = (stack - k) & mask with k >= 8"""
    ins = f.get(ref)
    seen = 0
    while ins is not None and seen < 10:
        seen += 1
        if ins.op == 'and':
            ins = f.get(ins.ops[0])
        elif ins.op in ('sub',):
            c = ins.ops[1].get('c') if isinstance(ins.ops[1], dict) else None
            return c is not None and c >= 8
        elif ins.op == 'add':
            c = ins.ops[1].get('c') if isinstance(ins.ops[1], dict) else None
            return c is not None and c <= -8
        elif ins.op in f.PASS_OPS:
            ins = f.get(ins.ops[0])
        else:
            return False
    return False


PUBLISH_FIELDS = ('myth_thread.join_thread', 'myth_uncond_t.th')
PUBLISH_CALLS = lib.RUNQ_INSERT + ('myth_sleep_queue_enq', 'myth_sleep_stack_push')


def rule_publish(ctx, mod, fname, stops):
    """C03.7 in the inlined view of function `fname`."""
    f = mod.fn(fname)
    if f is None:
        return
    # (field names are validated against the unit that defines all of them; other units may not mention every struct)
    mod.check_fields([x for x in PUBLISH_FIELDS if x.split('.')[0] in mod.structs])
    for s in switch_sites(f):
        if not s.is_swap:
            continue
        frm = s.from_ctx()
        if frm is None:
            continue
        ap = f.ap(frm)
        owner = ap.root  # the thread (or env for the scheduler context) being suspended
        k = site_key(f, s)
        sched = any(x.endswith('.sched') for x in ap.fields)
        offenders = []
        for c in call_sites(f, PUBLISH_CALLS):
            if not f.can_reach(c, s.ins):
                continue
            if len(c.args) >= 2 and f.sources(c.args[1]) & f.sources(owner):
                offenders.append(c)
        # a function called directly that publishes one of its parameters (e.g. a switch callback invoked as a plain call)
        for c in f.calls():
            g_ = mod.fn(c.callee) if c.callee else None
            if g_ is None or c.callee in PUBLISH_CALLS or not f.can_reach(c, s.ins) or c is s.ins:
                continue
            for i_, a_ in enumerate(c.args):
                if not (isinstance(a_, str) and f.sources(a_) & f.sources(owner)):
                    continue
                pid = 'a%d' % i_
                pub = [x for x in call_sites(g_, PUBLISH_CALLS) if len(x.args) >= 2 and pid in g_.sources(x.args[1])] + \
                      [x for x in g_.order if x.op == 'store' and g_.field(x) in PUBLISH_FIELDS and pid in g_.sources(x.ops[0])]
                if pub:
                    offenders.append(c)
        for st in f.order:
            if st.op == 'store' and f.field(st) in PUBLISH_FIELDS and \
                    f.can_reach(st, s.ins) and (f.sources(st.ops[0]) & f.sources(owner)):
                offenders.append(st)
        # C03.10: a swap saves the registers of the thread that is running into THAT thread's record and continues in a different
        # context (hand mutant r6: the two context arguments of the yield switch exchanged)
        to = s.to_ctx()
        # (myth_startpoint_init_ex_body adopts the calling OS thread: its save area is the record it has just allocated for it)
        if not sched and to is not None and fname != 'myth_startpoint_init_ex_body':
            osrc = f.sources(owner) if isinstance(owner, str) else set()
            running = bool(osrc) and all(
                (k_ not in f.insts and k_.startswith('a')) or
                (k_ in f.insts and f.insts[k_].op == 'load' and f.field(f.insts[k_]) == 'myth_running_env.this_thread') for k_ in osrc)
            tsrc = f.sources(f.ap(to).root) if isinstance(f.ap(to).root, str) else set()
            tsched = any(x.endswith('.sched') for x in f.ap(to).fields)
            ctx.ob('C03.10', k + ': saves the running thread, resumes another context', running and (tsched or not (tsrc & osrc)),
                   'the save area is the context of env->this_thread (or of the thread handed to the entry point) and the target is the '
                   'scheduler or a different thread: exchanged arguments overwrite the next thread\'s saved registers and jump into a '
                   'stale context', loc=s.ins.loc,
                   detail='' if running else 'save area belongs to %s' % ', '.join(describe(f, k_) for k_ in sorted(osrc)[:2]))
        ctx.ob('C03.7', k + ': no publication before save', not offenders or sched,
               'the thread being suspended is not made visible to other workers (run queue, sleep queue/stack, '
               'join_thread, uncond slot) before the switch has saved its context; only the callback publishes it',
               loc=(offenders[0].loc if offenders else s.ins.loc),
               detail='published early at %s' % [o.loc for o in offenders] if offenders else '')


HANDOVER_ROOTS = ['myth_wake_one_from_queue', 'myth_wake_many_from_queue', 'myth_wake_if_any_from_queue', 'myth_wake_many_from_stack',
                  'myth_uncond_signal_body', 'myth_uncond_wait_cb', 'myth_block_on_queue_cb', 'myth_block_on_stack_cb', 'myth_join_2',
                  'myth_join_3', 'myth_yield_ex_1', 'myth_create_1', 'myth_create_ex_body', 'myth_wsapi_runqueue_push']
THREAD_TY = '%struct.myth_thread*'


def rule_handover(ctx, fl, rule='C03.8', only=None):
    ctx.doc(rule, 'hand-over: once a thread has been published (run-queue push/put/pass, sleep-queue enqueue, sleep-stack push, store '
            'into a join_thread / uncond slot) the publisher does not read or write that thread\'s record any more: another worker '
            'may already be running it (stale-value dataflow per published pointer, loop-carried variables handled per edge)')
    from ..lib import StaleAnalysis
    v = ctx.view('myth_if_native.c', roots=HANDOVER_ROOTS, stops=PUBLISH_CALLS + ('myth_queue_pop', 'myth_sleep_queue_deq', 'myth_sleep_stack_pop',
                                                                               'myth_mutex_unlock_body', 'myth_entry_point_cleanup') + lib.SPIN_STOPS,
                 flavour=fl)
    v.check_fields(PUBLISH_FIELDS)
    n = 0
    for name in HANDOVER_ROOTS:
        if only is not None and name not in only:
            continue
        f = ctx.need_fn(v, name)
        events = {}
        for c in call_sites(f, PUBLISH_CALLS):
            if len(c.args) >= 2:
                events[c.id] = (c, c.args[1])
        for st in f.order:
            if st.op == 'store' and f.field(st) in PUBLISH_FIELDS and not (isinstance(st.ops[0], dict) and st.ops[0].get('null')):
                events[st.id] = (st, st.ops[0])
        if not events:
            continue
        n += 1

        def tracked(x):
            ty = x.get('ty') if isinstance(x, dict) else x.ty
            return ty == THREAD_TY or ty == '%struct.myth_sleep_queue_item*'

        def stale_at(ev, f=f, events=events):
            pub = f.strip(events[ev.id][1])
            out = set()
            for i in f.order:
                if not i.ty or not i.ty.endswith('*'):
                    continue
                if f.strip(i.id) == pub or f.strip(f.ap(i.id).root) == pub:
                    out.add(i.id)
            if isinstance(pub, str):
                out.add(pub)
            for p_ in f.params:
                if f.strip(p_['id']) == pub:
                    out.add(p_['id'])
            return out
        sa = StaleAnalysis(f, tracked, [e[0] for e in events.values()], stale_at=stale_at)
        uses = [(i, r) for i, r in sa.stale_uses if i.op in ('load', 'store', 'cmpxchg', 'atomicrmw') and i.id not in events and
                isinstance(i.ptr, str) and (i.ptr == r or r in f.sources(f.ap(i.ptr).root) or f.strip(i.ptr) == r)]
        ctx.ob(rule, '%s: no access to a thread after publishing it' % name, not uses,
               'after the hand-over point the thread belongs to whoever takes it from the queue; touching its record races with '
               'its new owner (e.g. clobbers the env binding it was given)', loc=(uses[0][0].loc if uses else f.loc),
               detail='' if not uses else 'access to %s at %s' % (describe(f, uses[0][1]), [u[0].loc for u in uses[:4]]))
    ctx.floor(rule, 12 if only is None else len(only))


SWAP_FUNCS = {  # function -> translation unit that contains it
    'myth_create_ex_body': 'myth_if_native.c', 'myth_join_body': 'myth_if_native.c',
    'myth_yield_ex_body': 'myth_if_native.c', 'myth_uncond_wait_body': 'myth_if_native.c',
    'myth_block_on_queue': 'myth_if_native.c', 'myth_block_on_stack': 'myth_if_native.c',
    'myth_startpoint_exit_ex_body': 'myth_init.c', 'myth_startpoint_init_ex_body': 'myth_init.c',
}


def run(ctx):
    ctx.doc('C03.1', 'GPR accounting per switch asm: pushed&popped + outputs + clobbers cover all 15 GPRs; '
            'memory and cc clobbered; all operands pinned registers')
    ctx.doc('C03.2', 'save/restore symmetry: pops mirror pushes, sub/add paired, callee-saved set pushed, net '
            'stack effect zero')
    ctx.doc('C03.3', 'red zone: first stack write preceded by sub >= 128')
    ctx.doc('C03.5', 'template order: saves -> store rsp -> load rsp -> [call] -> pop+jmp; resume label pushed last')
    ctx.doc('C03.6', 'callback agreement: defined, noinline+used, SysV, three pointers bound to rdi/rsi/rdx')
    ctx.doc('C03.7', 'publication of the suspended thread happens only in the callback (after the context save)')
    ctx.doc('C03.10', 'every thread-side swap saves into the context of the running thread (env->this_thread or the entry point\'s thread argument) '
            'and continues in the scheduler context or in the context of a different thread')
    fls = ['vanilla', 'ld', 'dl'] if ctx.tier == 'thorough' else ['vanilla']
    for fl in fls:
        ctx.unit = fl
        files = sorted(ctx.db['src'][fl])
        ctx.prefetch([(f, fl, 'src') for f in files])
        seen = set()
        nsites = 0
        for file in files:
            m = ctx.ssa(file, fl)
            for fn in m.functions.values():
                sites = switch_sites(fn)
                for s in sites:
                    key = (fn.name, s.ins.loc, s.kind, s.callback)
                    if key in seen:
                        continue
                    seen.add(key)
                    nsites += 1
                    ctx.fn_analysed.add(fn.name)
                    ctx.attempt(check_site, ctx, fn, s)
        if nsites < 14:
            from ..frontend import AnalysisBroken
            raise AnalysisBroken('only %d context-switch asm sites found in flavour %s (14 confirmed by hand)' % (nsites, fl))
        native = ctx.ssa('myth_if_native.c', fl)
        ctx.attempt(rule_make_context, ctx, native)
        stops = PUBLISH_CALLS + ('myth_queue_pop', 'myth_mutex_unlock_body') + lib.SPIN_STOPS
        for tu in sorted(set(SWAP_FUNCS.values())):
            names = [n for n, t in SWAP_FUNCS.items() if t == tu]
            v = ctx.view(tu, roots=names, stops=stops, flavour=fl)
            for fname in names:
                ctx.need_fn(v, fname)
                ctx.attempt(rule_publish, ctx, v, fname, stops)
        ctx.floor('C03.10', 7)
        ctx.attempt(rule_handover, ctx, fl)
        from . import c12
        with ctx.shared({'C12.4': 'C03.9'}, keep=lambda k: k.startswith(('create:', 'alloc:', 'free:', 'alloc and free')), floor=15,
                        doc='initial stack layout (shared with C12.4): the per-thread hint copied below the stack header and the initial '
                            'stack pointer handed to myth_make_context_* do not overlap (the first frames of the thread would '
                            'overwrite the hint, or an update of the hint a suspended thread\'s frames)'):
            v4 = ctx.view('myth_if_native.c', roots=['myth_create_ex_body'],
                          stops=('myth_queue_push', 'myth_queue_pop', 'get_new_myth_thread_struct_desc', 'get_new_myth_thread_struct_stack',
                                 'myth_init_ex_body', 'myth_make_context_empty', 'myth_make_context_voidcall') + lib.SPIN_STOPS, flavour=fl)
            ctx.attempt(c12.rule4_custom_data, ctx, v4)
            v2 = ctx.view('myth_if_native.c', roots=['get_new_myth_thread_struct_stack', c12.STACK_FREE, 'myth_flmalloc', 'myth_flfree'],
                          stops=('myth_freelist_pop', 'myth_freelist_push', 'myth_mmap'), flavour=fl)
            ctx.attempt(c12.rule4_affine, ctx, v2)
    ctx.floor('C03.1', 14 * 3)
    ctx.floor('C03.2', 11 * 5)
    ctx.floor('C03.3', 11)
    ctx.floor('C03.4', 11 + 5)
    ctx.floor('C03.5', 14)
    ctx.floor('C03.6', 12 * 4)
    ctx.floor('C03.7', 9)


CTXF = 'src/myth_context_func.h'
MUTANTS = [
    {'name': 'yield switch with its two context arguments exchanged (hand mutant r6)', 'expect': 'C03.10',
     'edits': [('src/myth_sched_func.h', "    myth_swap_context_withcall(&th->context, &next->context,\n\t\t\t       myth_yield_ex_1,", "    myth_swap_context_withcall(&next->context, &th->context,\n\t\t\t       myth_yield_ex_1,")]},
    {'name': 'fini hands the main thread over before its context is saved (seed3 C03/m3)', 'expect': 'C03.7',
     'edits': [('src/myth_worker_func.h', "    myth_swap_context_withcall(&th->context, &env->sched.context, \n\t\t\t       myth_startpoint_exit_ex_1,\n\t\t\t       (void*)th, (void*) rank_, NULL);", "    myth_startpoint_exit_ex_1((void*)th, (void*) rank_, NULL);\n    myth_swap_context(&th->context, &env->sched.context);")]},
    {'name': 'drop push/pop of r13', 'expect': ['C03.1', 'C03.2'],
     'edits': [(CTXF, '\t"push %%r13\\n"\\\n\t"push %%r14\\n"\\\n\t"push %%r15\\n"\\\n\tPUSH_FPCSR()\n#define POP_CALLEE_SAVED() \\\n\tPOP_FPCSR() \\\n\t"pop %%r15\\n"\\\n\t"pop %%r14\\n"\\\n\t"pop %%r13\\n"\\',
                '\t"push %%r14\\n"\\\n\t"push %%r15\\n"\\\n\tPUSH_FPCSR()\n#define POP_CALLEE_SAVED() \\\n\tPOP_FPCSR() \\\n\t"pop %%r15\\n"\\\n\t"pop %%r14\\n"\\')]},
    {'name': 'reorder two pops', 'expect': 'C03.2',
     'edits': [(CTXF, '\t"pop %%r15\\n"\\\n\t"pop %%r14\\n"\\\n\t"pop %%r13\\n"\\\n\t"pop %%r12\\n"\\\n\t"pop %%rbx\\n"\\\n\t"pop %%rbp\\n"\\\n\t"add $128,%%rsp\\n"\n\n#define DECLARE_DUMMY_VARIABLES int d0,d1,d2,d3,d4;\n#define DUMMY_VARIABLE_CONSTRAINTS \\\n"=&a"(d0),"=&c"(d1),"=&d"(d2),"=&S"(d3),"=&D"(d4)\n#define C0 "%5"\n#define C1 "%6"\n#define C2 "%7"\n#define C3 "%8"\n#define C4 "%9"\n#define R_A "0"\n#define R_C "1"\n#define R_D "2"\n#define R_SI "3"\n#define R_DI "4"\n#define CLOBBERED_CONSTRAINTS \\\n"%r8"',
                '\t"pop %%r15\\n"\\\n\t"pop %%r13\\n"\\\n\t"pop %%r14\\n"\\\n\t"pop %%r12\\n"\\\n\t"pop %%rbx\\n"\\\n\t"pop %%rbp\\n"\\\n\t"add $128,%%rsp\\n"\n\n#define DECLARE_DUMMY_VARIABLES int d0,d1,d2,d3,d4;\n#define DUMMY_VARIABLE_CONSTRAINTS \\\n"=&a"(d0),"=&c"(d1),"=&d"(d2),"=&S"(d3),"=&D"(d4)\n#define C0 "%5"\n#define C1 "%6"\n#define C2 "%7"\n#define C3 "%8"\n#define C4 "%9"\n#define R_A "0"\n#define R_C "1"\n#define R_D "2"\n#define R_SI "3"\n#define R_DI "4"\n#define CLOBBERED_CONSTRAINTS \\\n"%r8"')]},
    {'name': 'remove the 8-byte alignment pad', 'expect': 'C03.4',
     'edits': [(CTXF, '#define SUB_RSP_8() "sub $8,%%rsp\\n"\n#define ADD_RSP_8() "add $8,%%rsp\\n"',
                '#define SUB_RSP_8() ""\n#define ADD_RSP_8() ""')]},
    {'name': 'remove r10 from the clobber list', 'expect': 'C03.1',
     'edits': [(CTXF, '"%r8","%r9","%r10","%r11","cc","memory"\n\n#else', '"%r8","%r9","%r11","cc","memory"\n\n#else')]},
    {'name': 'shrink the red-zone skip to 64 bytes', 'expect': 'C03.3',
     'edits': [(CTXF, '#define PUSH_CALLEE_SAVED() \\\n\t"sub $128,%%rsp\\n"\\\n\t"push %%rbp\\n"\\\n\t"push %%rbx\\n"',
                '#define PUSH_CALLEE_SAVED() \\\n\t"sub $64,%%rsp\\n"\\\n\t"push %%rbp\\n"\\\n\t"push %%rbx\\n"'),
               (CTXF, '\t"pop %%rbx\\n"\\\n\t"pop %%rbp\\n"\\\n\t"add $128,%%rsp\\n"\n\n#define DECLARE_DUMMY_VARIABLES int d0,d1,d2,d3,d4;\n#define DUMMY_VARIABLE_CONSTRAINTS \\\n"=&a"(d0),"=&c"(d1),"=&d"(d2),"=&S"(d3),"=&D"(d4)\n#define C0 "%5"\n#define C1 "%6"\n#define C2 "%7"\n#define C3 "%8"\n#define C4 "%9"\n#define R_A "0"\n#define R_C "1"\n#define R_D "2"\n#define R_SI "3"\n#define R_DI "4"\n#define CLOBBERED_CONSTRAINTS \\\n"%r8"',
                '\t"pop %%rbx\\n"\\\n\t"pop %%rbp\\n"\\\n\t"add $64,%%rsp\\n"\n\n#define DECLARE_DUMMY_VARIABLES int d0,d1,d2,d3,d4;\n#define DUMMY_VARIABLE_CONSTRAINTS \\\n"=&a"(d0),"=&c"(d1),"=&d"(d2),"=&S"(d3),"=&D"(d4)\n#define C0 "%5"\n#define C1 "%6"\n#define C2 "%7"\n#define C3 "%8"\n#define C4 "%9"\n#define R_A "0"\n#define R_C "1"\n#define R_D "2"\n#define R_SI "3"\n#define R_DI "4"\n#define CLOBBERED_CONSTRAINTS \\\n"%r8"')]},
    {'name': 'call the callback before loading the target rsp', 'expect': 'C03.5',
     'edits': [(CTXF, '\t\t"mov %%rsp,("C0")\\n"\\\n\t\t"mov ("C1"),%%rsp\\n"\\\n\t\t"call " FUNC_PREFIX #f FUNC_SUFFIX "\\n"\\\n\t\tMY_RET_A \\',
                '\t\t"mov %%rsp,("C0")\\n"\\\n\t\t"call " FUNC_PREFIX #f FUNC_SUFFIX "\\n"\\\n\t\t"mov ("C1"),%%rsp\\n"\\\n\t\tMY_RET_A \\')]},
    {'name': 'mask F8 instead of F0 in myth_make_context_empty', 'expect': 'C03.4',
     'edits': [(CTXF, '  uint64_t stack_tail = (uint64_t) stack;\n  //Align\n  stack_tail &= 0xFFFFFFFFFFFFFFF0;\n  //Set stack pointer\n  ctx->rsp = stack_tail;',
                '  uint64_t stack_tail = (uint64_t) stack;\n  //Align\n  stack_tail &= 0xFFFFFFFFFFFFFFF8;\n  //Set stack pointer\n  ctx->rsp = stack_tail;')]},
    {'name': 'enqueue the current thread in myth_block_on_queue before the switch', 'expect': 'C03.7',
     'edits': [('src/myth_sync_func.h', '  /* now save the current context, myth_sleep_queue_enq_th(q, cur)\n     to put cur in the q, and jump to next_ctx */\n  myth_swap_context_withcall(&cur->context, next_ctx,\n\t\t\t     myth_block_on_queue_cb, q, cur, m);',
                '  myth_sleep_queue_enq_th(q, cur);\n  myth_swap_context_withcall(&cur->context, next_ctx,\n\t\t\t     myth_uncond_wait_cb, q, cur, m);')]},
    {'name': 'signal rebinds the waiter after pushing it (seed C08/m1)', 'expect': 'C03.8',
     'edits': [('src/myth_sync_func.h', "  to_wake->env = env;\n  u->th = 0;\n  myth_queue_push(&env->runnable_q, to_wake);\n  return 0;", "  u->th = 0;\n  myth_queue_push(&env->runnable_q, to_wake);\n  to_wake->env = env;\n  return 0;")]},
    {'name': 'wait callback touches the waiter after publishing it (seed C08/m3)', 'expect': 'C03.8',
     'edits': [('src/myth_sync_func.h', "  myth_thread_t cur = arg2;\n  u->th = cur;\n}", "  myth_thread_t cur = arg2;\n  u->th = cur;\n  cur->env = NULL;\n}")]},
    {'name': 'wake-many reads ->next of a thread it already pushed', 'expect': 'C03.8',
     'edits': [('src/myth_sync_func.h', "    myth_thread_t next = to_wake->next;\n    myth_queue_push(&env->runnable_q, to_wake);\n    to_wake = next;\n  }\n  return n;\n}\n\n/* ----------- once", "    myth_queue_push(&env->runnable_q, to_wake);\n    to_wake = to_wake->next;\n  }\n  return n;\n}\n\n/* ----------- once")]},
    {'name': 'swap rdi/rsi binding of callback arguments', 'expect': 'C03.6', 'broken_ok': True,
     'edits': [(CTXF, ':R_A((void*)(switch_from)),R_C((void*)(switch_to)),R_DI((void*)arg1),R_SI((void*)arg2),R_D((void*)arg3)\\',
                ':R_A((void*)(switch_from)),R_C((void*)(switch_to)),"r"((void*)arg1),R_SI((void*)arg2),R_D((void*)arg3)\\')]},
]
