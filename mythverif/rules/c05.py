"""C05 - condition variables: atomic release-and-wait, signal/broadcast reach waiters.

Decides the structural clauses: enqueue-before-unlock inside the switch
callback, cond_wait hands *its* mutex and *its* queue to that callback, never
releases the mutex itself before its context is saved, re-locks on every path,
signal pushes exactly the dequeued waiter only when there is one, broadcast
loops until the queue reported empty."""
from .. import lib
from ..lib import call_sites, switch_sites, null_tests, same_value, describe

META = {
    'explanation': 'Static obligations on the compiled IR of the condition-variable mechanism: ordering of '
                   'enqueue/unlock in the context-switch callbacks (dominance on the CFG), value flow of the '
                   'mutex/queue from myth_cond_wait_body into the callback registers of the switch asm, '
                   'must-pass-through of the re-lock, and shape of signal/broadcast (push only of the dequeued '
                   'thread, only on its non-null edge, loop exit only on the empty result).'
                   ' The initialiser writes every field the operations read (C05.4).',
    'not_decided': 'that a signal reaches "at least one thread blocked at that moment" under every interleaving '
                   '(schedule exploration), liveness of waiters',
    'assumptions': ['sleep-queue enq/deq are linearizable under their ilock (lock pairing checked in C04.5)',
                    'x86-64 inline-context configuration as built'],
}
META['explanation'] += ' The empty result of the dequeue never leads back to the dequeue (broadcast terminates, C05.3).'

NATIVE = 'myth_if_native.c'
ENQ = ('myth_sleep_queue_enq', 'myth_sleep_stack_push')
DEQ = ('myth_sleep_queue_deq',)
UNLOCKS = ('myth_mutex_unlock_body', 'myth_mutex_unlock')
LOCKS = ('myth_mutex_lock', 'myth_mutex_lock_body')


def flavours(ctx):
    return ['vanilla', 'ld', 'dl'] if ctx.tier == 'thorough' else ['vanilla']


def rule1_cb_order(ctx, fl):
    ctx.doc('C05.1', 'in myth_block_on_queue_cb / myth_block_on_stack_cb the enqueue of the suspended thread '
            '(callback arg2) on the queue (arg1) precedes, on every path, the unlock of the mutex (arg3)')
    v = ctx.view(NATIVE, roots=['myth_block_on_queue_cb', 'myth_block_on_stack_cb'],
                 stops=ENQ + UNLOCKS, flavour=fl)
    for name in ('myth_block_on_queue_cb', 'myth_block_on_stack_cb'):
        f = ctx.need_fn(v, name)
        enqs = call_sites(f, ENQ)
        unls = call_sites(f, UNLOCKS)
        key = '%s: enqueue(arg1,arg2)' % name
        good_enq = [e for e in enqs if same_value(f, e.args[0], 'a0') and same_value(f, e.args[1], 'a1')]
        ctx.ob('C05.1', key, bool(good_enq),
               'callback enqueues the suspended thread (arg2) on the queue (arg1)',
               loc=(enqs[0].loc if enqs else f.loc),
               detail='' if good_enq else 'no enqueue call with (arg1,arg2) found; calls: %s' %
               [(e.callee, [describe(f, a) for a in e.args]) for e in enqs])
        # enqueue happens on every path through the callback
        if good_enq:
            ok = f.always_passes(f.entry_inst(), good_enq) or f.entry_inst() in good_enq
            ctx.ob('C05.1', '%s: enqueue on every path' % name, ok,
                   'every path through the callback enqueues the thread', loc=good_enq[0].loc,
                   trace=[] if ok else lib.lines(f.witness_path(f.entry_inst(), f.exits(), blocked=good_enq)))
        for u in unls:
            ok = any(f.dominates_f(e, u) for e in good_enq)
            ctx.ob('C05.1', '%s: enqueue before %s' % (name, u.callee), ok,
                   'mutex unlock in the callback is dominated by the enqueue (no window in which a signaler '
                   'can take the mutex and find the queue empty)', loc=u.loc,
                   detail='' if ok else 'unlock at %s is reachable without passing the enqueue' % u.loc)
            okm = same_value(f, u.args[0], 'a2')
            ctx.ob('C05.1', '%s: unlocks arg3' % name, okm, 'the mutex unlocked is callback arg3', loc=u.loc,
                   detail='' if okm else 'unlock argument is %s' % describe(f, u.args[0]))
            # released exactly when a mutex was handed over: on the non-NULL edge of a test of arg3, and on no path
            # with a mutex is the release skipped
            nts = lib.null_tests(f, 'a2')
            okg = any(f.edge_dominates(br.block.id, nn, u) for br, nn, nl in nts)
            oka = bool(nts) and all(not [r for r in f.reachable_from(lib.first_inst(f, nn), blocked=unls, include_start=True) if r.op == 'ret']
                                    for br, nn, nl in nts)
            ctx.ob('C05.1', '%s: mutex released exactly when one was handed over' % name, okg and oka,
                   'if (m) unlock(m): a waiter that keeps the mutex while it sleeps blocks every signaler; a NULL mutex (lock / barrier '
                   'waiters) must not be unlocked', loc=u.loc)
        ctx.ob('C05.1', '%s: has unlock' % name, bool(unls), 'callback releases the mutex handed to it',
               loc=f.loc)
    ctx.floor('C05.1', 10)


def rule2_wait(ctx, fl):
    ctx.doc('C05.2', 'myth_cond_wait_body blocks through a context switch whose callback receives '
            '&cond->sleep_q (arg1) and the caller\'s mutex (arg3); the mutex is not released by the waiter '
            'itself before the switch; every path from the switch to return re-locks that mutex')
    v = ctx.view(NATIVE, roots=['myth_cond_wait_body'],
                 stops=LOCKS + UNLOCKS + ('myth_queue_pop',) + ENQ, flavour=fl)
    f = ctx.need_fn(v, 'myth_cond_wait_body')
    mutex = f.param_named('mutex') or 'a1'
    cond = f.param_named('cond') or 'a0'
    sw = [s for s in switch_sites(f) if s.is_swap]
    ctx.ob('C05.2', 'myth_cond_wait_body: switch present', len(sw) >= 1,
           'cond_wait suspends through a swap-type context switch', loc=f.loc)
    for s in sw:
        a1, a2, a3 = s.cb_args
        ok_cb = s.callback in ('myth_block_on_queue_cb',)
        ctx.ob('C05.2', 'myth_cond_wait_body: callback', ok_cb,
               'the switch calls myth_block_on_queue_cb on the next stack', loc=s.ins.loc,
               detail='callback is %s' % s.callback)
        ok3 = a3 is not None and same_value(f, a3, mutex)
        ctx.ob('C05.2', 'myth_cond_wait_body: arg3=mutex', ok3,
               'the mutex handed to the callback (rdx) is the caller\'s mutex parameter', loc=s.ins.loc,
               detail='' if ok3 else 'rdx carries %s' % (describe(f, a3) if a3 is not None else 'nothing'))
        ok1 = a1 is not None and lib.arg_is_field_of(f, a1, 'myth_cond.sleep_q') and \
            same_value(f, f.ap(a1).root, cond)
        ctx.ob('C05.2', 'myth_cond_wait_body: arg1=&cond->sleep_q', ok1,
               'the queue handed to the callback (rdi) is the condition variable\'s own sleep queue',
               loc=s.ins.loc, detail='' if ok1 else 'rdi carries %s' % (describe(f, a1) if a1 is not None else 'nothing'))
        # arg2 is the current thread (env->this_thread)
        ok2 = a2 is not None and f.derives_from(a2, lambda x: getattr(x, 'op', None) == 'load' and
                                                f.field(x) == 'myth_running_env.this_thread', through_arith=False)
        ctx.ob('C05.2', 'myth_cond_wait_body: arg2=current thread', ok2,
               'the thread handed to the callback (rsi) is env->this_thread read before the switch', loc=s.ins.loc)
        locks = [c for c in call_sites(f, LOCKS) if same_value(f, c.args[0], mutex)]
        okl = bool(locks) and f.always_passes(s.ins, locks)
        ctx.ob('C05.2', 'myth_cond_wait_body: relock', okl,
               'every path from the resume point to return passes myth_mutex_lock(mutex)', loc=s.ins.loc,
               trace=[] if okl else lib.lines(f.witness_path(s.ins, f.exits(), blocked=locks)))
        # no release / enqueue by the waiter itself before its context is saved
        early = [c for c in call_sites(f, UNLOCKS + ENQ) if f.can_reach(c, s.ins)]
        ctx.ob('C05.2', 'myth_cond_wait_body: no early release', not early,
               'the waiter neither unlocks the mutex nor enqueues itself before the switch '
               '(both happen in the callback, after its context is saved)', loc=(early[0].loc if early else s.ins.loc))
    # every call waits: no path returns without having passed the switch (a wait that refuses and returns - with the mutex still
    # held and no release - turns "wait for the condition" into a busy loop or an error the caller does not expect)
    if sw:
        rets = [r for r in f.order if r.op == 'ret']
        reach = f.reachable_from(f.entry_inst(), blocked=[x.ins for x in sw], include_start=True)
        ctx.ob('C05.2', 'myth_cond_wait_body: every call releases the mutex and waits', not [r for r in rets if r in reach],
               'no return is reachable without passing the release-and-wait switch', loc=f.loc)
    ctx.floor('C05.2', 7)


def rule3_signal(ctx, fl):
    ctx.doc('C05.3', 'signal: dequeue once; on the empty result return without touching a run queue; otherwise '
            'push exactly the dequeued thread once.  broadcast: after every push another dequeue precedes '
            'return, and return is reached only on the empty result')
    v = ctx.view(NATIVE, roots=['myth_cond_signal_body', 'myth_cond_broadcast_body'],
                 stops=DEQ + ('myth_queue_push',) + ENQ, flavour=fl)
    for name in ('myth_cond_signal_body', 'myth_cond_broadcast_body'):
        f = ctx.need_fn(v, name)
        cond = f.param_named('cond') or 'a0'
        deqs = call_sites(f, DEQ)
        pushes = call_sites(f, 'myth_queue_push')
        ctx.ob('C05.3', '%s: dequeues from &cond->sleep_q' % name,
               bool(deqs) and all(lib.arg_is_field_of(f, d.args[0], 'myth_cond.sleep_q') and
                                  same_value(f, f.ap(d.args[0]).root, cond) for d in deqs),
               'waiters are taken from the condition variable\'s own queue', loc=(deqs[0].loc if deqs else f.loc))
        ctx.ob('C05.3', '%s: has push' % name, bool(pushes), 'a dequeued waiter is made runnable', loc=f.loc)
        rets = [r for r in f.order if r.op == 'ret']
        reach = f.reachable_from(f.entry_inst(), blocked=deqs, include_start=True)
        # a return that skips the dequeue is acceptable only where the queue's head was just read as NULL (nobody is blocked)
        heads = [l for l in f.order if l.op == 'load' and f.field(l) == 'myth_sleep_queue_t.head' and
                 'myth_cond.sleep_q' in f.ap(l.ops[0]).fields and same_value(f, f.ap(l.ops[0]).root, cond)]
        cut = set((br.block.id, nl) for l in heads for br, nn, nl in lib.null_tests(f, l.id) if nn != nl)
        dq_blocks = set(d.block.id for d in deqs)
        seen_b, work, skipping = set(), [0], []
        while work:
            b = work.pop()
            if b in seen_b:
                continue
            seen_b.add(b)
            if b in dq_blocks:
                continue            # the dequeue attempt is on this path
            if any(x.op == 'ret' for x in f.blocks[b].insts):
                skipping.append(b)
            for s_ in f.succs(f.blocks[b]):
                if (b, s_) not in cut:
                    work.append(s_)
        ctx.ob('C05.3', '%s: every call looks at the queue' % name, bool(deqs) and not skipping,
               'no path returns without a dequeue attempt: a signal issued while a thread is blocked on the condition variable resumes '
               'one (a "somebody is already on the way" shortcut drops the signal for the remaining waiters)', loc=f.loc)
        for p in pushes:
            src = [d for d in deqs if same_value(f, p.args[1], d.id)]
            ok = bool(src)
            ctx.ob('C05.3', '%s: push(dequeued)' % name, ok,
                   'the thread pushed on the run queue is the one just dequeued', loc=p.loc,
                   detail='' if ok else 'pushed value is %s' % describe(f, p.args[1]))
            if src:
                okg = lib.guarded_by_nonnull(f, src[0].id, p)
                ctx.ob('C05.3', '%s: push only if non-null' % name, okg,
                       'push executes only on the non-null edge of the dequeue result', loc=p.loc)
            okq = lib.arg_is_field_of(f, p.args[0], 'myth_running_env.runnable_q')
            ctx.ob('C05.3', '%s: push on a run queue' % name, okq, 'push target is a worker run queue', loc=p.loc)
        for d in deqs:
            tests = null_tests(f, d.id)
            ctx.ob('C05.3', '%s: result tested' % name, bool(tests), 'dequeue result is tested for empty', loc=d.loc)
            for br, nn, nl in tests:
                # non-null edge: every path to return (or, for broadcast, to the next dequeue) pushes once
                start = lib.first_inst(f, nn)
                reach = f.reachable_from(start, blocked=pushes + deqs, include_start=True)
                leaks = [i for i in reach if i.op == 'ret']
                ctx.ob('C05.3', '%s: non-null => push' % name, not leaks,
                       'on the non-null edge no path reaches return (or the next dequeue) without a push',
                       loc=br.loc, trace=[] if not leaks else lib.lines(f.witness_path(br, leaks, blocked=pushes)))
                redeq = [i for i in reach if i in deqs]
                ctx.ob('C05.3', '%s: non-null => push before next dequeue' % name, not redeq,
                       'a dequeued waiter is pushed before another one is dequeued (none is dropped)', loc=br.loc)
                # null edge: no push reachable before return / next dequeue
                startn = lib.first_inst(f, nl)
                reachn = f.reachable_from(startn, blocked=deqs, include_start=True)
                stray = [i for i in reachn if i in pushes]
                ctx.ob('C05.3', '%s: empty => no push' % name, not stray,
                       'a signal with no waiter pushes nothing', loc=br.loc)
                # ... and comes back: the empty result ends the call (it does not lead to another dequeue attempt)
                again_ = [i for i in f.reachable_from(startn, include_start=True) if i in deqs]
                ctx.ob('C05.3', '%s: empty => return' % name, not again_,
                       'a signal / broadcast with no (more) waiter returns: the empty result never leads back to the dequeue '
                       '(a wrong "woke one" result on the empty queue makes broadcast spin forever)', loc=br.loc,
                       trace=[] if not again_ else lib.lines(f.witness_path(br, again_)))
        # at most one push per dequeue
        for p in pushes:
            again = [q for q in f.reachable_from(p, blocked=deqs) if q in pushes]
            ctx.ob('C05.3', '%s: one push per dequeue' % name, not again,
                   'no second push is reachable from a push without an intervening dequeue', loc=p.loc)
        if name == 'myth_cond_broadcast_body':
            for p in pushes:
                ok = f.always_passes(p, deqs)
                ctx.ob('C05.3', '%s: loops until empty' % name, ok,
                       'after waking a waiter broadcast dequeues again before it can return', loc=p.loc,
                       trace=[] if ok else lib.lines(f.witness_path(p, f.exits(), blocked=deqs)))
            for r in f.exits():
                # every ret is reached only through the null edge of a dequeue
                ok = any(any(nn != nl and f.edge_dominates(br.block.id, nl, r) for br, nn, nl in null_tests(f, d.id))
                         for d in deqs)
                ctx.ob('C05.3', '%s: returns only when empty' % name, ok,
                       'return is dominated by the empty-result edge of a dequeue', loc=r.loc)
        else:
            ctx.ob('C05.3', '%s: single dequeue' % name, len(deqs) == 1 and not f.in_loop(deqs[0]),
                   'signal dequeues at most one waiter', loc=(deqs[0].loc if deqs else f.loc))
    ctx.floor('C05.3', 20)


def rule_init_complete(ctx, fl):
    ctx.doc('C05.4', 'initialiser completeness: every field of the condition variable that myth_cond_wait_body / myth_cond_signal_body / myth_cond_broadcast_body read(s), directly or through an inlined helper, '
            'is written by myth_cond_init_body (an object placed in recycled memory must not depend on its previous contents)')
    vi = ctx.view(NATIVE, roots=['myth_cond_init_body', 'myth_cond_wait_body', 'myth_cond_signal_body', 'myth_cond_broadcast_body'], stops=('myth_queue_push', 'myth_queue_pop', 'myth_yield_ex_body', 'hr_gettime', 'fprintf', 'exit') + lib.SPIN_STOPS, flavour=fl)
    n = lib.init_covers(ctx, 'C05.4', vi, 'myth_cond_init_body', ['myth_cond_wait_body', 'myth_cond_signal_body', 'myth_cond_broadcast_body'], 'condition variable')
    lib.sleep_container_init_complete(ctx, 'C05.4', fl, 'queue')
    ctx.ob('C05.4', 'fields read by the operations enumerated', n >= 1, 'read set of the operations', loc='src/myth_sync_func.h', detail=str(n))
    ctx.floor('C05.4', 3)


def run(ctx):
    for fl in flavours(ctx):
        ctx.unit = fl
        ctx.doc('C05.5', 'native API forwarding: each public entry point of this property reaches the implementation of the same name with its parameters in order and returns its result (sibling slips such as trylock -> lock, signal -> broadcast, swapped arguments)')
        ctx.attempt(lib.native_forwarding, ctx, 'C05.5', fl, lambda n: n.startswith(('myth_cond_', 'myth_condattr_')), floor=6)
        ctx.attempt(rule_init_complete, ctx, fl)
        ctx.attempt(rule1_cb_order, ctx, fl)
        ctx.attempt(rule2_wait, ctx, fl)
        ctx.attempt(rule3_signal, ctx, fl)


SYNC = 'src/myth_sync_func.h'
MUTANTS = [
    {'name': 'wake_if_any reports a wake-up on the empty queue: broadcast never returns (hand mutant r6)', 'expect': 'C05.3',
     'edits': [(SYNC, "  if (!to_wake) return 0;\t/* I did not wake up any */", "  if (!to_wake) return 1;\t/* I did not wake up any */")]},
    {'name': 'cond_wait refuses a mutex other than the one it saw first (seed4 C05/m2)', 'expect': 'C05.2',
     'edits': [(SYNC, "static inline int myth_cond_wait_body(myth_cond_t * cond, myth_mutex_t * mutex) {\n  myth_block_on_queue(cond->sleep_q, mutex);", "static inline int myth_cond_wait_body(myth_cond_t * cond, myth_mutex_t * mutex) {\n  static myth_mutex_t * bound;\n  if (bound && bound != mutex) return EINVAL;\n  bound = mutex;\n  myth_block_on_queue(cond->sleep_q, mutex);")]},
    {'name': 'signal returns early on a pending-wake flag (seed3 C05/m3)', 'expect': 'C05.3',
     'edits': [(SYNC, "static inline int myth_cond_signal_body(myth_cond_t * cond) {\n  myth_wake_if_any_from_queue(cond->sleep_q, 0, 0);", "static inline int myth_cond_signal_body(myth_cond_t * cond) {\n  static volatile int wake_pending;\n  if (wake_pending) return 0;\n  myth_wake_if_any_from_queue(cond->sleep_q, 0, 0);")]},
    {'name': 'native myth_cond_signal forwards to broadcast', 'expect': 'C05.5',
     'edits': [('src/myth_if_native.c', "  return myth_cond_signal_body(cond);", "  return myth_cond_broadcast_body(cond);")]},
    {'name': 'callback releases the mutex only when none was handed over (sweep M0202)', 'expect': 'C05.1',
     'edits': [(SYNC, "  myth_sleep_queue_enq_th(q, cur);\n  if (m) {", "  myth_sleep_queue_enq_th(q, cur);\n  if (!(m)) {")]},
    {'name': 'cond_init forgets the sleep queue', 'expect': 'C05.4',
     'edits': [(SYNC, '  myth_sleep_queue_init(cond->sleep_q);\n  if (attr) {\n    cond->attr = *attr;', '  if (attr) {\n    cond->attr = *attr;')]},
    {'name': 'swap enqueue and unlock in myth_block_on_queue_cb', 'expect': 'C05.1',
     'edits': [(SYNC, """  myth_sleep_queue_enq_th(q, cur);
  if (m) {
    myth_mutex_unlock_body(m);
  }
}

/* block the current thread on sleep_queue q */""",
                """  if (m) {
    myth_mutex_unlock_body(m);
  }
  myth_sleep_queue_enq_th(q, cur);
}

/* block the current thread on sleep_queue q */""")]},
    {'name': 'cond_wait passes no mutex to the callback', 'expect': 'C05.2',
     'edits': [(SYNC, "  myth_block_on_queue(cond->sleep_q, mutex);\n  return myth_mutex_lock(mutex);\n}\n\nstatic inline int\nmyth_cond_timedwait_body",
                "  myth_mutex_unlock_body(mutex);\n  myth_block_on_queue(cond->sleep_q, 0);\n  return myth_mutex_lock(mutex);\n}\n\nstatic inline int\nmyth_cond_timedwait_body")]},
    {'name': 'cond_wait drops the re-lock', 'expect': 'C05.2',
     'edits': [(SYNC, "  myth_block_on_queue(cond->sleep_q, mutex);\n  return myth_mutex_lock(mutex);\n}\n\nstatic inline int\nmyth_cond_timedwait_body",
                "  myth_block_on_queue(cond->sleep_q, mutex);\n  return 0;\n}\n\nstatic inline int\nmyth_cond_timedwait_body")]},
    {'name': 'signal pushes without checking the dequeue result', 'expect': 'C05.3',
     'edits': [(SYNC, "  if (!to_wake) return 0;\t/* I did not wake up any */\n  to_wake->env = env;",
                "  if (!to_wake) to_wake = env->this_thread;\n  to_wake->env = env;")]},
    {'name': 'broadcast stops after the first waiter', 'expect': 'C05.3',
     'edits': [(SYNC, "    if (myth_wake_if_any_from_queue(q, callback, arg) == 0) {\n      break;\n    }\n    n++;",
                "    if (myth_wake_if_any_from_queue(q, callback, arg) == 0) {\n      break;\n    }\n    n++;\n    if (n > 0) break;")]},
    {'name': 'signal drops the dequeued waiter on a callback path', 'expect': 'C05.3',
     'edits': [(SYNC, "  /* put the thread that just woke up to the run queue */\n  myth_queue_push(&env->runnable_q, to_wake);\n  return 1;",
                "  /* put the thread that just woke up to the run queue */\n  if (to_wake->status != MYTH_STATUS_BLOCKED) myth_queue_push(&env->runnable_q, to_wake);\n  return 1;")]},
]
