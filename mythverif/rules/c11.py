"""C11 - thread-specific data destructors run exactly once, with the right value."""
import re

from .. import lib
from ..lib import (call_sites, same_value, describe, is_load_of, ret_cases, null_tests, switch_sites, expr_str)
from ..ir import const_int

META = {
    'explanation': 'Destructor-walk obligations: (1) the walks over children[] skip empty children (the null edge stays inside '
                   'the loop) because set/get create and tolerate holes; (2) the key base handed to the recursive call advances '
                   'per child by exactly the stride handed to that call; (3) strides are 1024 at the root and >>2 per level, i.e. '
                   '2^shift of the set/get decomposition (C10.2); (4) in a leaf the key index and the entry index advance in '
                   'lock-step on every path, the destructor is the table entry of that key, null-tested, the slot is cleared '
                   'before the call and the value passed is the slot\'s former content; a key created without a destructor gets a '
                   'NULL table entry; (5) every way of terminating a thread (return through both entry styles, exit, cancel) '
                   'runs the TLS teardown before the thread is marked finished.'
                   " Deleting a key clears its destructor inside the allocator's critical section (C11.4, defect D17).",
    'not_decided': 'exactly-once per (thread,key) at run time for arbitrary key subsets (follows structurally from the walk '
                   'visiting each slot once, not re-verified dynamically); destructors that re-set values',
    'assumptions': ['keys[] entries of live keys are not modified during the walk'],
}
NATIVE = 'myth_if_native.c'
K = 1024


def flavours(ctx):
    return ['vanilla', 'ld', 'dl'] if ctx.tier == 'thorough' else ['vanilla']


def children_loads(f):
    out = []
    for l in f.order:
        if l.op == 'load':
            g = f.get(f.strip(l.ops[0])) if isinstance(l.ops[0], str) else None
            if g is not None and g.op == 'getelementptr' and re.match(r'\[4 x %struct\.myth_tls_tree_node\*\]', g.d.get('srcty', '')):
                out.append((l, g))
    return out


def rule_clear_guard(ctx, v, rule):
    """the exit walk resets a value slot only for a key that has a destructor (POSIX: the value of a key without a destructor stays
    readable while the other destructors of the exiting thread run, e.g. a context key read by the destructor of a buffer key)"""
    f = ctx.need_fn(v, 'myth_tls_call_destructors_rec')
    clr = [st for st in f.stores_to('myth_tls_entry.value') if isinstance(st.ops[0], dict) and (st.ops[0].get('null') or st.ops[0].get('c') == 0)]
    dl = [l for l in f.order if l.op == 'load' and f.field(l) == 'myth_tls_key_entry.destructor']
    ctx.ob(rule, 'exit walk: reads the destructor of the key and resets the slot', len(clr) >= 1 and len(dl) >= 1,
           'value = 0 before destructor(value)', loc=f.loc)
    for st in clr:
        ctx.ob(rule, 'exit walk: a slot is reset only where its key has a destructor',
               any(lib.guarded_by_nonnull(f, l.id, st) for l in dl),
               'the store of NULL into the slot is on the destructor != NULL edge', loc=st.loc)


def rule123_walk(ctx, v):
    ctx.doc('C11.1', 'sparse traversal: in myth_tls_call_destructors_rec and myth_tls_tree_destroy_rec the loop over children[] '
            'continues on an empty child (null edge stays in the loop, reaches the latch) and visits all 4 children')
    ctx.doc('C11.2', 'stride agreement: the base argument of the recursive call is a loop-carried value that advances on every '
            'iteration by the value passed as the stride argument of the same call')
    ctx.doc('C11.3', 'level agreement: child stride = stride >> 2; the root call passes base 0 and stride 1024 (= number of keys); '
            'depth advances by 1; the leaf level is depth == 3')
    for name in ('myth_tls_call_destructors_rec', 'myth_tls_tree_destroy_rec'):
        f = ctx.need_fn(v, name)
        pidx = {p['name']: p['id'] for p in f.params}
        rec = call_sites(f, name)
        ctx.ob('C11.1', name + ': recursive call', len(rec) == 1, 'one recursive descent per child', loc=f.loc)
        cl = children_loads(f)
        ctx.ob('C11.1', name + ': reads children[i]', len(cl) == 1, 'children are read in one place', loc=f.loc)
        for l, g in cl:
            lp = lib.loop_containing(f, l)
            ctx.ob('C11.1', name + ': children read in a loop', lp is not None, 'children[] is iterated', loc=l.loc)
            if lp is None:
                continue
            hdr = [ic for ic in f.order if ic.op == 'icmp' and ic.pred == 'slt' and const_int(ic.ops[1]) == 4 and ic.block.id == lp['header']]
            ctx.ob('C11.1', name + ': loop runs over all 4 children', len(hdr) == 1 and
                   all(a == lp['header'] for a, b in lp['exits']),
                   'the only exit of the loop is the index bound i < 4 (no early exit)', loc=l.loc,
                   detail='exits %s' % lp['exits'])
            for br, nn, nl in null_tests(f, l.id):
                ok = nl in lp['blocks']
                ctx.ob('C11.1', name + ': empty child is skipped, not a stop', ok,
                       'set/get create sparse trees: an empty child must not end the walk (later children may hold values)', loc=br.loc)
                for r in rec:
                    ctx.ob('C11.1', name + ': descends only into existing children', f.edge_dominates(br.block.id, nn, r),
                           'recursion only on the non-null edge', loc=r.loc)
            # index of the children array is the loop counter {0,+,1}
            idx = g.d['path'][1].get('i')
            ii = f.get(f.strip(idx)) if isinstance(idx, str) else None
            ok = ii is not None and ii.op == 'phi' and ii.block.id == lp['header'] and counter_phi(f, ii, 0, 1)
            ctx.ob('C11.1', name + ': child index counts 0,1,2,3', ok, 'the child index is the loop counter', loc=g.loc)
        for r in rec:
            base, stride = r.args[2 if name.endswith('call_destructors_rec') else 3], r.args[3 if name.endswith('call_destructors_rec') else 4]
            depth = r.args[1 if name.endswith('call_destructors_rec') else 2]
            bp = f.get(f.strip(base)) if isinstance(base, str) else None
            okb = False
            det = ''
            if bp is not None and bp.op == 'phi':
                inc = [(val, b) for val, b in bp.d['incoming']]
                def carried(val):
                    # the value depends on the phi itself (loop-carried): walk the def chain without expanding the phi
                    seen, st = set(), [val]
                    while st:
                        x = st.pop()
                        if not isinstance(x, str) or x in seen:
                            continue
                        seen.add(x)
                        if x == bp.id:
                            return True
                        xi = f.insts.get(x)
                        if xi is None:
                            continue
                        if xi.op == 'phi':
                            st += [v_ for v_, _b in xi.d['incoming']]
                        else:
                            st += [o for o in xi.ops if isinstance(o, str)]
                    return False
                init = [val for val, b in inc if not carried(val)]
                step = [val for val, b in inc if carried(val)]
                okstep = bool(step)
                for sv in step:
                    a = f.get(f.strip(sv))
                    # every latch value must be phi + stride (no path that skips or differs)
                    if not (a is not None and a.op == 'add' and
                            ((f.strip(a.ops[0]) == bp.id and same_value(f, a.ops[1], stride)) or
                             (f.strip(a.ops[1]) == bp.id and same_value(f, a.ops[0], stride)))):
                        okstep = False
                        det = 'advance is %s, stride passed is %s' % (expr_str(f, sv), expr_str(f, stride))
                okb = okstep and len(init) == 1 and same_value(f, init[0], pidx.get('base'))
            ctx.ob('C11.2', name + ': child base advances by the child stride', okb,
                   'child i covers keys [base + i*c_stride, base + (i+1)*c_stride): the base must advance by exactly the stride '
                   'given to the child', loc=r.loc, detail=det)
            s = f.get(f.strip(stride)) if isinstance(stride, str) else None
            oks = s is not None and s.op in ('ashr', 'lshr') and const_int(s.ops[1]) == 2 and same_value(f, s.ops[0], pidx.get('stride'))
            ctx.ob('C11.3', name + ': child stride = stride >> 2', oks, 'four children split the parent\'s key range', loc=r.loc,
                   detail=expr_str(f, stride))
            d = f.get(f.strip(depth)) if isinstance(depth, str) else None
            okd = d is not None and d.op == 'add' and const_int(d.ops[1]) == 1 and same_value(f, d.ops[0], pidx.get('depth'))
            ctx.ob('C11.3', name + ': depth + 1', okd, 'the child is one level deeper', loc=r.loc)
        dt = [ic for ic in f.order if ic.op == 'icmp' and same_value(f, ic.ops[0], pidx.get('depth')) and const_int(ic.ops[1]) == 3]
        ctx.ob('C11.3', name + ': leaf level is depth 3', len(dt) >= 1, 'leaves are at depth 3 (three internal levels)', loc=f.loc)
    for name, callee in (('myth_tls_call_destructors', 'myth_tls_call_destructors_rec'), ('myth_tls_tree_destroy', 'myth_tls_tree_destroy_rec')):
        f = ctx.need_fn(v, name)
        cs = call_sites(f, callee)
        off = 0 if callee.endswith('destructors_rec') else 1
        ok = len(cs) == 1 and const_int(cs[0].args[1 + off]) == 0 and const_int(cs[0].args[2 + off]) == 0 and const_int(cs[0].args[3 + off]) == K and \
            is_load_of(f, cs[0].args[0 + off], 'myth_tls_tree_t.root')
        ctx.ob('C11.3', name + ': root call (root, depth 0, base 0, stride 1024)', ok, 'the walk starts at the root covering keys [0,1024)',
               loc=f.loc)
    ctx.floor('C11.1', 12)
    ctx.floor('C11.2', 2)
    ctx.floor('C11.3', 8)


def counter_phi(f, phi, init, step):
    ok_init = ok_step = False
    for val, b in phi.d['incoming']:
        if const_int(val) == init:
            ok_init = True
        else:
            a = f.get(f.strip(val)) if isinstance(val, str) else None
            if a is not None and a.op == 'add' and f.strip(a.ops[0]) == phi.id and const_int(a.ops[1]) == step:
                ok_step = True
            else:
                return False
    return ok_init and ok_step


def rule4_leaf(ctx, v):
    ctx.doc('C11.4', 'leaf loop of myth_tls_call_destructors_rec: i = {0,+,1} < 16 and k = {base,+,1} advance together on every '
            'path; destructor = ka->keys[k].destructor, null-tested; entries[i].value is loaded, the slot cleared, then the '
            'destructor called with the loaded value; myth_tls_key_allocator_alloc stores the given destructor (possibly NULL) '
            'on every allocation')
    f = ctx.need_fn(v, 'myth_tls_call_destructors_rec')
    pidx = {p['name']: p['id'] for p in f.params}
    ic = [c for c in f.order if c.op == 'call' and 'callee_ref' in c.d]
    ctx.ob('C11.4', 'one destructor call site', len(ic) == 1, 'destructors are invoked in one place', loc=f.loc)
    for c in ic:
        dl = [f.insts[k] for k in f.sources(c.d['callee_ref']) if k in f.insts]
        okd = len(dl) == 1 and dl[0].op == 'load' and f.field(dl[0]) == 'myth_tls_key_entry.destructor'
        ctx.ob('C11.4', 'destructor comes from the key table', okd, 'destructor = ka->keys[k].destructor', loc=c.loc)
        lp = lib.loop_containing(f, c)
        ctx.ob('C11.4', 'call is inside the leaf loop', lp is not None, 'per-slot call', loc=c.loc)
        if not okd or lp is None:
            continue
        kap = f.ap(dl[0].ops[0])
        ctx.ob('C11.4', 'table is the allocator argument', same_value(f, kap.root, pidx.get('ka')), 'keys[] of the ka parameter', loc=dl[0].loc)
        kidx = [s for s in kap.steps if s[0] == 'i']
        kphi = f.get(f.strip(kidx[0][1])) if kidx and isinstance(kidx[0][1], str) else None
        okk = kphi is not None and kphi.op == 'phi' and kphi.block.id == lp['header']
        slot_of_key = None
        if okk:
            vals = [val for val, b in kphi.d['incoming']]
            init = [val for val in vals if same_value(f, val, pidx.get('base'))]
            steps = [val for val in vals if val not in init]
            okk = len(init) == 1 and bool(steps)
            for sv in steps:
                a = f.get(f.strip(sv)) if isinstance(sv, str) else None
                if not (a is not None and a.op == 'add' and f.strip(a.ops[0]) == kphi.id and const_int(a.ops[1]) == 1):
                    okk = False
        if not okk and kidx:
            # the other spelling: k = base + i with i the slot counter {0,+,1} of the same loop
            ka_ = lib.affine(f, kidx[0][1])
            bs = [k for k in ka_ if same_value(f, k, pidx.get('base'))]
            ph = [k for k in ka_ if k in f.insts and f.insts[k].op == 'phi' and f.insts[k].block.id == lp['header']]
            okk = len(bs) == 1 and ka_[bs[0]] == 1 and len(ph) == 1 and ka_[ph[0]] == 1 and counter_phi(f, f.insts[ph[0]], 0, 1) and \
                len([k for k, c in ka_.items() if c != 0]) == 2
            if okk:
                slot_of_key = ph[0]
        ctx.ob('C11.4', 'key index is {base,+,1} on every path', okk,
               'the key index advances by one on every iteration, whether or not the key has a destructor (otherwise later '
               'slots are matched with the wrong key)', loc=dl[0].loc, detail=expr_str(f, kidx[0][1]) if kidx else '')
        # slot
        arg = c.args[0] if c.args else None
        vl = [f.insts[k] for k in f.sources(arg) if k in f.insts] if arg is not None else []
        okv = len(vl) == 1 and vl[0].op == 'load' and f.field(vl[0]) == 'myth_tls_entry.value'
        ctx.ob('C11.4', 'value passed is the slot content', okv, 'destructor(val) with val = n->entries[i].value', loc=c.loc)
        if okv:
            sap = f.ap(vl[0].ops[0])
            sidx = [s for s in sap.steps if s[0] == 'i']
            iphi = f.get(f.strip(sidx[0][1])) if sidx and isinstance(sidx[0][1], str) else None
            ctx.ob('C11.4', 'slot index is {0,+,1} < 16', iphi is not None and iphi.op == 'phi' and iphi.block.id == lp['header'] and
                   counter_phi(f, iphi, 0, 1) and any(x.op == 'icmp' and x.pred == 'slt' and const_int(x.ops[1]) == 16 and
                                                      x.block.id == lp['header'] and f.strip(x.ops[0]) == iphi.id for x in f.order),
                   'all 16 slots of the leaf are visited in order', loc=vl[0].loc)
            if slot_of_key is not None:
                ctx.ob('C11.4', 'key index is base + the slot index', iphi is not None and slot_of_key == iphi.id,
                       'key k = base + i is matched with slot i', loc=vl[0].loc)
            ctx.ob('C11.4', 'slot belongs to the node walked', same_value(f, sap.root, pidx.get('n')), 'slots of node n', loc=vl[0].loc)
            clr = [s for s in f.order if s.op == 'store' and f.field(s) == 'myth_tls_entry.value' and
                   isinstance(s.ops[0], dict) and s.ops[0].get('null') and lib.same_addr(f, s.ops[1], vl[0].ops[0])]
            ctx.ob('C11.4', 'slot cleared before the call', len(clr) >= 1 and any(f.dominates_f(s, c) for s in clr) and
                   all(f.dominates_f(vl[0], s) for s in clr), 'the slot is emptied after its value was read and before the '
                   'destructor runs (a destructor is called at most once per stored value)', loc=c.loc)
        nt = null_tests(f, dl[0].id)
        ctx.ob('C11.4', 'destructor null-tested', any(f.edge_dominates(br.block.id, nn, c) for br, nn, nl in nt),
               'keys registered without a destructor are skipped', loc=c.loc)
    a = ctx.need_fn(v, 'myth_tls_key_allocator_alloc')
    dp = a.param_named('destructor') or 'a1'
    ds = [s for s in a.stores_to('myth_tls_key_entry.destructor') if same_value(a, s.ops[0], dp)]
    ctx.ob('C11.4', 'alloc stores the given destructor', len(ds) == 1, 'the table entry of a new key holds the destructor given at creation',
           loc=a.loc)
    heads = a.loads_of('myth_tls_key_allocator.free')
    for val, anchor in ret_cases(a):
        if isinstance(val, str):
            # on the non-empty edge of the free-list test every path to a return passes the store
            leaks = []
            for h in heads:
                for br, nn, nl in null_tests(a, h.id):
                    if lib.reaches_point(a, lib.first_inst(a, nn), anchor, blocked=ds, include_start=True):
                        leaks.append(anchor)
            ok2 = bool(ds) and bool(heads) and not leaks
            ctx.ob('C11.4', 'destructor entry (re)written on every allocation', ok2,
                   'a recycled key index must not inherit the destructor of the deleted key: the entry is overwritten even when '
                   'the new destructor is NULL', loc=anchor.loc)
    ctx.floor('C11.4', 10)


def rule5_terminations(ctx, fl):
    ctx.doc('C11.5', 'all terminations run the teardown: in myth_create_1, myth_entry_point, myth_exit_body and myth_testcancel_body '
            '(cleanup inlined) every final context switch is dominated by myth_tls_tree_fini(th->tls, g_myth_tls_key_allocator) of '
            'the terminating thread, before its lock is taken; myth_tls_tree_fini calls the destructor walk before the destroy walk')
    roots = ['myth_create_1', 'myth_entry_point', 'myth_exit_body', 'myth_testcancel_body']
    v = ctx.view(NATIVE, roots=roots + ['myth_tls_tree_fini'],
                 stops=('myth_tls_tree_fini', 'myth_tls_call_destructors', 'myth_tls_tree_destroy', 'myth_queue_push', 'myth_queue_pop',
                        'myth_is_canceled') + lib.SPIN_STOPS, flavour=fl)
    for name in roots:
        f = ctx.need_fn(v, name)
        finals = [s for s in switch_sites(f) if s.is_final]
        fin = call_sites(f, 'myth_tls_tree_fini')
        ctx.ob('C11.5', name + ': ends in final switches', len(finals) == 3, 'the function terminates the thread', loc=f.loc)
        for n, s in enumerate(finals):
            th = s.cb_args[1]
            good = [c for c in fin if f.ap(c.args[0]).fields[:1] == ['myth_thread.tls'] and th is not None and
                    f.sources(f.ap(c.args[0]).root) == f.sources(th) and isinstance(c.args[1], dict) and
                    'g_myth_tls_key_allocator' in str(c.args[1])]
            ok = any(f.dominates_f(c, s.ins) for c in good)
            ctx.ob('C11.5', '%s: TLS teardown before final switch #%d' % (name, n + 1), ok,
                   'destructors of the terminating thread run on every path before it switches away for good', loc=s.ins.loc)
        locks = call_sites(f, lib.SPIN_LOCK)
        for c in fin:
            ctx.ob('C11.5', name + ': teardown before the thread lock is taken', all(f.dominates_f(c, l) for l in locks if
                                                                                 f.ap(l.args[0]).fields[-1:] == ['myth_thread.lock']),
                   'destructors (user code, may block) run before the finisher takes its spinlock', loc=c.loc)
    t = ctx.need_fn(v, 'myth_tls_tree_fini')
    cd = call_sites(t, 'myth_tls_call_destructors')
    de = call_sites(t, 'myth_tls_tree_destroy')
    ctx.ob('C11.5', 'fini: destructors then destroy', len(cd) == 1 and len(de) == 1 and t.dominates_f(cd[0], de[0]) and
           same_value(t, cd[0].args[0], 'a0') and same_value(t, cd[0].args[1], 'a1') and same_value(t, de[0].args[0], 'a0'),
           'values are handed to destructors before the nodes holding them are freed', loc=t.loc)
    rl = t.loads_of('myth_tls_tree_t.root')
    ctx.ob('C11.5', 'fini: only for a non-empty tree', bool(rl) and all(lib.guarded_by_nonnull(t, rl[0].id, c) for c in cd + de),
           'a thread that never stored anything has no tree to walk', loc=t.loc)
    ctx.floor('C11.5', 16)


def rule1_free(ctx, v):
    """the destroy walk gives every node back (threads are created and reaped in bounded memory, C13)"""
    f = ctx.need_fn(v, 'myth_tls_tree_destroy_rec')
    fr = call_sites(f, 'myth_tls_tree_node_free')
    np_ = f.param_named('n') or 'a1'
    rec = call_sites(f, 'myth_tls_tree_destroy_rec')
    ok = len(fr) == 1 and same_value(f, fr[0].args[1], np_) and f.always_passes(f.entry_inst(), fr) and \
        not [c for c in rec if c in f.reachable_from(fr[0])]
    ctx.ob('C11.1', 'myth_tls_tree_destroy_rec: the node is freed on every path, after its children', ok,
           'myth_tls_tree_node_free(t, n) once the subtrees are gone: nodes beyond the embedded pool come from the heap, a walk that '
           'forgets them leaks per thread', loc=f.loc)


def rule4_delete(ctx, fl):
    """a deleted key is not live: its destructor must not survive in the table the exit walk consults"""
    v = ctx.view(NATIVE, roots=['myth_tls_key_allocator_dealloc'], stops=lib.SPIN_STOPS, flavour=fl)
    d = ctx.need_fn(v, 'myth_tls_key_allocator_dealloc')
    pushes = [st for st in d.stores_to('myth_tls_key_allocator.free')]
    clr = [st for st in d.stores_to('myth_tls_key_entry.destructor') if isinstance(st.ops[0], dict) and st.ops[0].get('null')]
    ctx.ob('C11.4', 'delete returns the key to the free list', len(pushes) == 1, 's->free = ke', loc=d.loc)
    unl = call_sites(d, lib.SPIN_UNLOCK)
    for p_ in pushes:
        # the cleared cell is the cell being freed, and it is cleared whenever it is freed, inside the critical section
        okc = False
        for c in clr:
            g = d.get(d.strip(c.ops[1])) if isinstance(c.ops[1], str) else None
            cell = g.d['base'] if g is not None and g.op == 'getelementptr' else None
            same_cell = cell is not None and (lib.same_addr(d, cell, p_.ops[0]) or d.sources(cell) == d.sources(p_.ops[0]))
            before_unlock = all(not (d.dominates_f(p_, u_) and d.dominates_f(u_, c)) for u_ in unl)
            if same_cell and (d.dominates_f(c, p_) or d.dominates_f(p_, c)) and before_unlock:
                okc = True
        ctx.ob('C11.4', 'delete clears the destructor of the freed key', okc,
               'the exit walk calls ka->keys[k].destructor for every slot it finds: a thread still holding a value under a deleted key '
               'must not have it destructed (the key is no longer live)', loc=p_.loc)


def run(ctx):
    for fl in flavours(ctx):
        ctx.unit = fl
        ctx.doc('C11.7', 'native API forwarding: each public entry point of this property reaches the implementation of the same name with its parameters in order and returns its result (sibling slips such as trylock -> lock, signal -> broadcast, swapped arguments)')
        ctx.attempt(lib.native_forwarding, ctx, 'C11.7', fl, lambda n: n in ('myth_key_create', 'myth_key_delete', 'myth_setspecific', 'myth_getspecific'), floor=6)
        v = ctx.view(NATIVE, roots=['myth_tls_call_destructors_rec', 'myth_tls_tree_destroy_rec', 'myth_tls_call_destructors',
                                    'myth_tls_tree_destroy', 'myth_tls_key_allocator_alloc'],
                     stops=('myth_tls_tree_node_free', 'myth_free') + lib.SPIN_STOPS, flavour=fl)
        ctx.attempt(rule123_walk, ctx, v)
        ctx.attempt(rule1_free, ctx, v)
        ctx.attempt(rule4_leaf, ctx, v)
        ctx.attempt(rule_clear_guard, ctx, v, 'C11.4')
        ctx.attempt(rule4_delete, ctx, fl)
        ctx.attempt(rule5_terminations, ctx, fl)
        from . import c01
        with ctx.shared({'C01.6': 'C11.9'}, keep=lambda k: 'TLS' in k or 'destructor' in k, floor=1,
                        doc='the finish sequence runs the key destructors first (shared with C01.6): after the hand-over to a waiting '
                            'joiner the finishing thread never runs again, so destructors placed behind it are skipped whenever a joiner '
                            'is already waiting'):
            stops01 = ('myth_queue_push', 'myth_queue_pop', 'get_new_myth_thread_struct_desc', 'get_new_myth_thread_struct_stack',
                       'free_myth_thread_struct_desc', 'free_myth_thread_struct_stack', 'myth_get_current_env_noinline', 'myth_tls_tree_fini',
                       'myth_init_ex_body', 'myth_entry_point_cleanup') + lib.SPIN_STOPS
            v01 = ctx.view(NATIVE, roots=['myth_create_ex_body', 'myth_create_1', 'myth_entry_point', 'myth_exit_body', 'myth_testcancel_body',
                                          'myth_join_body', 'myth_tryjoin_body', 'myth_join_2', 'myth_join_3', 'myth_entry_point_cleanup',
                                          'myth_entry_point_1', 'myth_entry_point_2'], stops=stops01, flavour=fl)
            ctx.attempt(c01.rule6_finish, ctx, v01)
        from . import c10
        with ctx.shared({'C10.4': 'C11.10', 'C10.5': 'C11.10'}, floor=10,
                        doc='a live key is never handed out twice (shared with C10.4 / C10.5): creation and deletion update the key free list '
                            'in one lock region each, with the liveness mark tested and set inside it - a key index that two owners hold '
                            'has one destructor slot, so one owner\'s values are destructed by the other\'s function or not at all'):
            v10k = ctx.view(NATIVE, roots=['myth_tls_tree_get', 'myth_tls_tree_set', 'myth_tls_key_allocator_alloc',
                                           'myth_tls_key_allocator_dealloc', 'myth_tls_tree_node_alloc_leaf', 'myth_tls_tree_node_alloc_node'],
                            stops=('myth_tls_tree_node_alloc', 'myth_malloc') + lib.SPIN_STOPS, flavour=fl)
            ctx.attempt(c10.rule45_alloc, ctx, fl, v10k)
        with ctx.shared({'C10.3': 'C11.8'}, floor=2,
                        doc='a new thread starts with an empty thread-specific tree on both creation paths (shared with C10.3): a recycled '
                            'record that keeps its previous owner\'s tree makes the exit walk call destructors on values this thread never '
                            'stored'):
            ctx.attempt(c10.rule3_follows, ctx, fl)
        with ctx.shared({'C10.2': 'C11.6'}, floor=4,
                        doc='the exit walk visits the slots set/get use (shared with C10.2): both descend by the same bit groups of the '
                            'key, and a fresh leaf has all 16 value slots cleared - otherwise a destructor runs on a value the exiting '
                            'thread never stored, or not on the one it did'):
            v10 = ctx.view(NATIVE, roots=['myth_tls_tree_get', 'myth_tls_tree_set', 'myth_tls_key_allocator_alloc',
                                          'myth_tls_key_allocator_dealloc', 'myth_tls_tree_node_alloc_leaf', 'myth_tls_tree_node_alloc_node'],
                           stops=('myth_tls_tree_node_alloc', 'myth_malloc') + lib.SPIN_STOPS, flavour=fl)
            ctx.attempt(c10.rule2_decomp, ctx, v10)
            ctx.attempt(c10.rule2_levels, ctx, v10)


TLS = 'src/myth_tls_func.h'
SCHED = 'src/myth_sched_func.h'
MUTANTS = [
    {'name': 'destroy walk never frees the nodes (sweep M0576)', 'expect': 'C11.1',
     'edits': [(TLS, "      c_base += c_stride;\n    }\n  }\n  myth_tls_tree_node_free(t, n);\n  return 0;", "      c_base += c_stride;\n    }\n  }\n  return 0;")]},
    {'name': 'deleted key keeps its destructor (original defect D17)', 'expect': 'C11.4',
     'edits': [(TLS, "  ke->destructor = 0;\n  /* push the cell to the free list */", "  /* push the cell to the free list */")]},
    {'name': 'destructor walk stops at the first empty child (original defect D4a)', 'expect': 'C11.1',
     'edits': [(TLS, "      if (c) {\n\ts += myth_tls_call_destructors_rec(c, depth + 1, c_base, c_stride, ka);\n      }\n      c_base += c_stride;",
                "      if (!c) break;\n      s += myth_tls_call_destructors_rec(c, depth + 1, c_base, c_stride, ka);\n      c_base += c_stride;")]},
    {'name': 'destroy walk stops at the first empty child', 'expect': 'C11.1',
     'edits': [(TLS, "      if (c) {\n\tmyth_tls_tree_destroy_rec(t, c, depth + 1, c_base, c_stride);\n      }\n      c_base += c_stride;",
                "      if (!c) break;\n      myth_tls_tree_destroy_rec(t, c, depth + 1, c_base, c_stride);\n      c_base += c_stride;")]},
    {'name': 'child base advances by the parent stride (original defect D4b)', 'expect': 'C11.2',
     'edits': [(TLS, "\ts += myth_tls_call_destructors_rec(c, depth + 1, c_base, c_stride, ka);\n      }\n      c_base += c_stride;", "\ts += myth_tls_call_destructors_rec(c, depth + 1, c_base, c_stride, ka);\n      }\n      c_base += stride;")]},
    {'name': 'base advances only for existing children', 'expect': 'C11.2',
     'edits': [(TLS, "\ts += myth_tls_call_destructors_rec(c, depth + 1, c_base, c_stride, ka);\n      }\n      c_base += c_stride;", "\ts += myth_tls_call_destructors_rec(c, depth + 1, c_base, c_stride, ka);\n\tc_base += c_stride;\n      }")]},
    {'name': 'child stride divides by 2 instead of 4', 'expect': 'C11.3',
     'edits': [(TLS, "    int c_stride = stride >> myth_tls_tree_node_log_n_children;\n    int c_base = base;\n    for (i = 0; i < myth_tls_tree_node_n_children; i++) {\n      myth_tls_tree_node_t * c = n->children[i];\n      if (c) {\n\ts +=",
                "    int c_stride = stride >> 1;\n    int c_base = base;\n    for (i = 0; i < myth_tls_tree_node_n_children; i++) {\n      myth_tls_tree_node_t * c = n->children[i];\n      if (c) {\n\ts +=")]},
    {'name': 'key index not advanced for keys without destructor (seed C11/m1)', 'expect': 'C11.4',
     'edits': [(TLS, "    for (i = 0; i < myth_tls_tree_node_n_entries_in_leaf; i++, k++) {\n      void * val = n->entries[i].value;\n      void (*destructor)(void *) = ka->keys[k].destructor;\n      if (destructor) {\n\tn->entries[i].value = 0;\n\tdestructor(val);\n\ts++;\n      }\n    }",
                "    for (i = 0; i < myth_tls_tree_node_n_entries_in_leaf; i++) {\n      void (*destructor)(void *) = ka->keys[k].destructor;\n      if (!destructor) continue;\n      void * val = n->entries[i].value;\n      n->entries[i].value = 0;\n      destructor(val);\n      s++;\n      k++;\n    }")]},
    {'name': 'destructor called before the slot is cleared', 'expect': 'C11.4',
     'edits': [(TLS, "\tn->entries[i].value = 0;\n\tdestructor(val);\n\ts++;", "\tdestructor(val);\n\tn->entries[i].value = 0;\n\ts++;")]},
    {'name': 'destructor called with the neighbouring slot\'s value', 'expect': 'C11.4',
     'edits': [(TLS, "      void * val = n->entries[i].value;\n      void (*destructor)(void *) = ka->keys[k].destructor;", "      void * val = n->entries[(i + 1) & 15].value;\n      void (*destructor)(void *) = ka->keys[k].destructor;")]},
    {'name': 'recycled key keeps the old destructor (seed C11/m2)', 'expect': 'C11.4',
     'edits': [(TLS, "    ke->destructor = destructor;\n  }\n  myth_spin_unlock_body(&s->lock);", "    if (destructor) {\n      ke->destructor = destructor;\n    }\n  }\n  myth_spin_unlock_body(&s->lock);")]},
    {'name': 'cancel path skips the TLS teardown (seed C11/m3)', 'expect': 'C11.5',
     'edits': [(SCHED, "static inline void myth_entry_point_cleanup(myth_thread_t this_thread) {\n  myth_tls_tree_fini(this_thread->tls, g_myth_tls_key_allocator);", "static inline void myth_entry_point_cleanup(myth_thread_t this_thread) {"),
               (SCHED, "  new_thread->result = (*fn)(new_thread->result);\n  //myth_log_add(new_thread->env,MYTH_LOG_INT);\n  myth_entry_point_cleanup(new_thread);", "  new_thread->result = (*fn)(new_thread->result);\n  myth_tls_tree_fini(new_thread->tls, g_myth_tls_key_allocator);\n  myth_entry_point_cleanup(new_thread);"),
               (SCHED, "  th->result = ret;\n  myth_entry_point_cleanup(th);", "  th->result = ret;\n  myth_tls_tree_fini(th->tls, g_myth_tls_key_allocator);\n  myth_entry_point_cleanup(th);"),
               (SCHED, "  this_thread->result=(*(this_thread->entry_func))(this_thread->result);\n  myth_entry_point_cleanup(this_thread);", "  this_thread->result=(*(this_thread->entry_func))(this_thread->result);\n  myth_tls_tree_fini(this_thread->tls, g_myth_tls_key_allocator);\n  myth_entry_point_cleanup(this_thread);")]},
    {'name': 'nodes destroyed before destructors run', 'expect': 'C11.5',
     'edits': [(TLS, "    myth_tls_call_destructors(t, ka);\n    myth_tls_tree_destroy(t);", "    myth_tls_tree_destroy(t);\n    myth_tls_call_destructors(t, ka);")]},
]
