"""C18 - DAG Recorder totals do not depend on how the DAG was contracted (partial, structural clauses only)."""
from .. import lib
from ..lib import (call_sites, same_value, describe, expr_str, affine, is_load_of)
from ..ir import const_int

META = {
    'explanation': 'Only the structural necessary conditions of contraction-independence are decided: (1) who-may-write over all libdr '
                   'translation units: the summary fields t_1, t_inf, logical_node_counts[], logical_edge_counts[] of a DAG node are '
                   'stored only by dr_accumulate_stats and the leaf initialiser dr_end_interval_, never by the contraction code '
                   '(dr_collapse_subgraph, dr_prune_nodes*, dr_free_dag); (2) in dr_summarize_section_or_task the accumulation call '
                   'dominates every contraction call and nothing accumulates after a contraction; (3) in dr_accumulate_stats the set '
                   'of summary fields accumulated from a chain element equals the set accumulated from a created child task, t_1 and '
                   'the counts by addition, and t_inf is the one field combined with max over children.'
                   ' (4) writer/reader agreement on edges by kind: every edge kind dr_pi_dag_enum_edges emits for an uncontracted subgraph is counted by dr_accumulate_stats for a contracted one, by exactly one, at the nesting level at which the enumerator descends, with the summary node carrying the in-edge kind of its first element, and dr_calc_edges sums over contracted nodes and explicit edges; (5) section typestate: sections are opened only by begin_section and the create/wait entry points and summarised only when a wait returns or the task ends, and each dr_return_from_X marks the successor with the kind the accumulator counts for X.',
    'not_decided': 'every numerical claim: that the totals equal the sums over the uncontracted interval sequence, that t_inf <= t_1, '
                   'that contraction options do not change the report (values of run-time data; no sound static argument in reach)',
    'assumptions': ['instrumentation entry points are called in a well-nested way'],
    'technique': 'static analysis: who-may-write field rule + call dominance + sibling field-set agreement + writer/reader (accumulator vs enumerator) agreement on edge kinds over LLVM IR',
}
META['explanation'] += " The candidate critical path through a child is chain prefix + child path, the section's path the maximum of that and the chain, and every counter accumulation loop spans the whole array (C18.3)."
INFO = 'dr_dag_node_info.'
SUMMARY = ['t_1', 't_inf', 'logical_node_counts', 'logical_edge_counts']
WRITERS = {'dr_accumulate_stats', 'dr_end_interval_'}
CONTRACT = ('dr_collapse_subgraph', 'dr_prune_nodes', 'dr_prune_nodes_norec', 'dr_free_dag')


def run(ctx):
    ctx.doc('C18.1', 'who-may-write: stores to dr_dag_node_info.{t_1,t_inf,logical_node_counts,logical_edge_counts} occur only in '
            'dr_accumulate_stats and dr_end_interval_ (all libdr TUs)')
    ctx.doc('C18.2', 'dr_summarize_section_or_task: dr_accumulate_stats(s) dominates every call of dr_collapse_subgraph / dr_prune_nodes, '
            'is applied to the node being summarised, and no accumulation is reachable from a contraction')
    ctx.doc('C18.3', 'dr_accumulate_stats: fields added from a chain element x = fields added from a created child c = {t_1, '
            'logical_node_counts, logical_edge_counts, ...}; t_inf: += along the chain, max(.., chain + child) for children')
    ctx.doc('C18.4', 'writer/reader agreement on edges by kind: every edge kind dr_pi_dag_enum_edges can emit for an uncontracted subgraph '
            'is counted by dr_accumulate_stats for a contracted one and vice versa; kinds emitted once per create_task node are counted by '
            'exactly 1 in the create_task case (the level at which the enumerator descends), successor edges by exactly 1 per chain '
            'element of the kind that produces them and only when a successor exists; dr_pi_dag_count_edges_uncollapsed adds per create '
            'the number of edges the enumerator emits per create')
    files = sorted(ctx.db['profiler'])
    ctx.prefetch([(f, 'vanilla', 'profiler') for f in files])
    ctx.unit = 'libdr'
    seen = set()
    nw = 0
    for file in files:
        m = ctx.ssa(file, area='profiler')
        if 'dr_dag_node_info' not in m.structs:
            continue
        for fn in m.functions.values():
            for st in fn.order:
                if st.op != 'store':
                    continue
                fld = fn.field(st)
                if fld.startswith(INFO) and fld[len(INFO):] in SUMMARY:
                    key = (fn.name, fld)
                    if key in seen:
                        continue
                    seen.add(key)
                    nw += 1
                    ctx.fn_analysed.add(fn.name)
                    ctx.ob('C18.1', '%s writes %s' % (fn.name, fld[len(INFO):]), fn.name in WRITERS,
                           'summary totals are produced only by the bottom-up accumulation and the leaf initialiser; contraction '
                           'code must not touch them (otherwise the report depends on the contraction options)', loc=st.loc)
            if fn.name in CONTRACT:
                for c in fn.calls():
                    if c.callee in WRITERS:
                        ctx.ob('C18.1', '%s calls %s' % (fn.name, c.callee), False, 'contraction code re-accumulates', loc=c.loc)
    ctx.ob('C18.1', 'summary writers enumerated', nw >= 8, 'stores to the four summary fields found in both writers', loc='src/profiler/dag_recorder_inl.h')
    ctx.floor('C18.1', 9)
    m = ctx.ssa('dag_recorder.c', area='profiler')
    f = ctx.need_fn(m, 'dr_summarize_section_or_task')
    acc = call_sites(f, 'dr_accumulate_stats')
    con = call_sites(f, CONTRACT)
    sp = f.param_named('s')
    ctx.ob('C18.2', 'one accumulation of the summarised node', len(acc) == 1 and same_value(f, acc[0].args[0], sp), 'dr_accumulate_stats(s)', loc=f.loc)
    ctx.ob('C18.2', 'contraction sites', len(con) >= 2, 'collapse and prune calls present', loc=f.loc)
    for c in con:
        ctx.ob('C18.2', 'accumulate before %s' % c.callee, any(f.dominates_f(a, c) for a in acc),
               'totals are taken from the uncontracted subgraph: accumulation precedes contraction on every path', loc=c.loc)
        sarg = [a for a in c.args if same_value(f, a, sp)]
        ctx.ob('C18.2', '%s applied to the same node' % c.callee, len(sarg) == 1, 'the node contracted is the node just summarised', loc=c.loc)
        ctx.ob('C18.2', 'no accumulation after %s' % c.callee, not [a for a in acc if a in f.reachable_from(c)],
               'nothing is accumulated from an already contracted subgraph', loc=c.loc)
    ctx.floor('C18.2', 8)
    a = ctx.need_fn(m, 'dr_accumulate_stats')
    s = a.param_named('s') or 'a0'
    # classify the source of each accumulating store to s->info.F: F(s) = F(s) (+|max) F(other)
    from_x, from_c = {}, {}
    for st in a.order:
        if st.op != 'store':
            continue
        fld = a.field(st)
        if not fld.startswith(INFO):
            continue
        ap = a.ap(st.ops[1])
        if not same_value(a, ap.root, s):
            continue
        name = fld[len(INFO):]
        # loads of the same field from other nodes feeding this store
        for k in deps(a, st.ops[0]):
            l = a.insts.get(k)
            if l is None or l.op != 'load' or a.field(l) != fld:
                continue
            r = a.ap(l.ops[0]).root
            if same_value(a, r, s):
                continue
            ri = a.get(a.strip(r)) if isinstance(r, str) else None
            kind = None
            # the created child task hangs off the chain element through the anonymous union member (x->child);
            # chain elements are the loop-carried head/next pointer
            if ri is not None and ri.op == 'load' and a.field(ri) == 'dr_dag_node.child':
                kind = 'c'
            elif ri is not None and (ri.op == 'phi' or (ri.op == 'load' and a.field(ri) in ('dr_dag_node.next', 'dr_dag_node_list.head'))):
                kind = 'x'
            if kind:
                op = combine_op(a, st.ops[0])
                (from_c if kind == 'c' else from_x).setdefault(name, set()).add(op)
    for name in SUMMARY:
        ctx.ob('C18.3', '%s accumulated from chain elements' % name, name in from_x, 'serial composition', loc=a.loc, detail=str(from_x.get(name)))
        ctx.ob('C18.3', '%s accumulated from created children' % name, name in from_c, 'parallel composition', loc=a.loc, detail=str(from_c.get(name)))
    sx = set(k for k in from_x if k in SUMMARY + ['counters_1', 'cur_node_count', 'min_node_count', 't_ready'])
    sc = set(k for k in from_c if k in SUMMARY + ['counters_1', 'cur_node_count', 'min_node_count', 't_ready'])
    ctx.ob('C18.3', 'same field set from chain elements and from children', sx == sc and len(sx) >= 4,
           'whatever is summed over the intervals of a task is also summed over the tasks it creates', loc=a.loc,
           detail='chain %s / children %s' % (sorted(sx), sorted(sc)))
    for name in ('t_1', 'logical_node_counts', 'logical_edge_counts'):
        ctx.ob('C18.3', '%s combined by addition only' % name, from_x.get(name) == {'add'} and from_c.get(name) == {'add'},
               'work and counts are sums', loc=a.loc, detail='%s / %s' % (from_x.get(name), from_c.get(name)))
    ctx.ob('C18.3', 't_inf: sum along the chain, max over children', from_x.get('t_inf') == {'add'} and 'max' in (from_c.get('t_inf') or set()),
           'the critical path is the longest chain: children are combined with max', loc=a.loc,
           detail='%s / %s' % (from_x.get('t_inf'), from_c.get('t_inf')))
    # the loop-carried accumulator of the parallel part must itself be updated by max (a running maximum), never by +
    tinf_st = [st for st in a.stores_to(INFO + 't_inf') if same_value(a, a.ap(st.ops[1]).root, s) and const_int(st.ops[0]) is None]
    phis = set()
    for st in tinf_st:
        stack, seen = [st.ops[0]], set()
        while stack:
            r = stack.pop()
            if not isinstance(r, str) or r in seen:
                continue
            seen.add(r)
            i = a.insts.get(r)
            if i is None:
                continue
            if i.op == 'phi' and any(l['header'] == i.block.id for l in a.loops) and i.ty == 'i64':
                phis.add(i.id)
            if i.op == 'call' and i.callee in ('dr_max_clock', 'dr_max_count'):
                stack += list(i.args)
            elif i.op in ('phi',):
                stack += [v for v, b in i.d['incoming']]
            elif i.op in ('add', 'select', 'zext', 'sext'):
                stack += list(i.ops)
    kinds = {}
    for pid in phis:
        for u in a.users(pid):
            if u.op == 'call' and u.callee in ('dr_max_clock', 'dr_max_count'):
                kinds.setdefault(pid, set()).add('max')
            elif u.op in ('add', 'sub'):
                kinds.setdefault(pid, set()).add('add')
            elif u.op == 'select' or u.op == 'icmp':
                kinds.setdefault(pid, set()).add('max')
    ctx.ob('C18.3', 'running critical path over children is a running maximum', bool(phis) and all(k == {'max'} for k in kinds.values()) and bool(kinds),
           'the loop-carried candidate for the critical path is only ever combined with max (adding children\'s paths would make the '
           'critical path exceed the work)', loc=a.loc, detail=str(kinds))
    # shape of the two max combinations (hand mutants r6): a path through a created child is the chain prefix PLUS the child's own
    # critical path, and the section's critical path is the larger of the best such path and the whole chain
    def _who(ref):
        l_ = a.insts.get(a.strip(ref)) if isinstance(ref, str) else None
        if l_ is None or l_.op != 'load' or a.field(l_) != INFO + 't_inf':
            return None
        r_ = a.ap(l_.ops[0]).root
        if same_value(a, r_, s):
            return 's'
        ri_ = a.get(a.strip(r_)) if isinstance(r_, str) else None
        if ri_ is not None and ri_.op == 'load' and a.field(ri_) == 'dr_dag_node.child':
            return 'c'
        return 'x'
    through = []
    for mc in a.calls():
        if mc.callee != 'dr_max_clock':
            continue
        for arg in mc.args:
            ai = a.insts.get(a.strip(arg)) if isinstance(arg, str) else None
            if ai is not None and ai.op == 'add' and sorted(str(_who(o)) for o in ai.ops) == ['c', 's']:
                through.append(mc)
    bare = [mc for mc in a.calls() if mc.callee == 'dr_max_clock' and any(_who(arg) == 'c' for arg in mc.args)]
    ctx.ob('C18.3', 'a path through a created child = chain prefix + the child\'s critical path', bool(through) and not bare,
           'the candidate fed to the running maximum is s->info.t_inf (the chain up to the create) + c->info.t_inf; the child\'s path '
           'alone forgets everything that ran before the task was created', loc=((bare or through or [a])[0].loc))
    finals = [st for st in tinf_st if lib.loop_containing(a, st) is None]
    okf = False
    for st in finals:
        vi = a.insts.get(a.strip(st.ops[0])) if isinstance(st.ops[0], str) else None
        if vi is not None and vi.op == 'call' and vi.callee == 'dr_max_clock' and len(vi.args) == 2:
            whos = [_who(x) for x in vi.args]
            run_ = [x for x in vi.args if isinstance(x, str) and a.strip(x) in phis or
                    (isinstance(x, str) and set(a.sources(x)) & phis)]
            if 's' in whos and run_:
                okf = True
    ctx.ob('C18.3', 'section critical path = max(best path through a child, the whole chain)', okf,
           'after the loop s->info.t_inf = dr_max_clock(running maximum, s->info.t_inf): either side alone under-reports sections '
           'whose serial chain (or whose child) dominates', loc=(finals[0].loc if finals else a.loc))
    # every accumulating loop over a counter array covers the whole array (the zeroing loops are checked below)
    for name in ('logical_node_counts', 'logical_edge_counts'):
        alen = (m.struct_field('dr_dag_node_info', name) or {}).get('nelem')
        adds_ = [st for st in a.stores_to(INFO + name) if same_value(a, a.ap(st.ops[1]).root, s) and const_int(st.ops[0]) is None]
        nloop = 0
        for st in adds_:
            ix = [x for x in a.ap(st.ops[1]).steps if x[0] == 'i']
            lp_ = lib.loop_containing(a, st)
            if not ix or not isinstance(ix[-1][1], str) or lp_ is None:
                continue
            ph = a.get(a.strip(ix[-1][1]))
            if ph is None or ph.op != 'phi':
                iv = [a.get(k_) for k_ in a.sources(ix[-1][1]) if a.get(k_) is not None and a.get(k_).op == 'phi']
                ph = iv[0] if len(iv) == 1 else None
            if ph is None:
                continue
            # the innermost loop whose header holds the induction variable
            okb_ = False
            for ic in a.order:
                if ic.op == 'icmp' and ic.pred in ('slt', 'ult') and ic.block.id == ph.block.id and const_int(ic.ops[1]) == alen and \
                        lib.same_expr(a, ic.ops[0], ph.id) and any(const_int(v_) == 0 for v_, b_ in ph.d['incoming']):
                    okb_ = True
            nloop += 1
            ctx.ob('C18.3', '%s: accumulation loop covers all %s entries' % (name, alen), okb_,
                   'a loop that adds a subgraph\'s counters into the summary runs from 0 to the array length: stopping one short '
                   'drops a whole kind from every contracted subgraph', loc=st.loc)
        ctx.ob('C18.3', '%s: accumulation loops found' % name, nloop >= 2, 'chain and child accumulation loops', loc=a.loc, detail=str(nloop))
    # the accumulation starts from zero: a summary node is recycled, so whatever it held before must not enter the sums
    chain_loads = [l for l in a.loads_of('dr_dag_node_list.head')]
    for name in ('t_1', 't_inf'):
        z = [st for st in a.stores_to(INFO + name) if same_value(a, a.ap(st.ops[1]).root, s) and const_int(st.ops[0]) == 0]
        adds = [st for st in a.stores_to(INFO + name) if same_value(a, a.ap(st.ops[1]).root, s) and const_int(st.ops[0]) is None]
        ctx.ob('C18.3', '%s starts from zero' % name, len(z) >= 1 and bool(adds) and all(any(a.dominates_f(zz, st) for zz in z) for st in adds),
               'the sum over the subgraphs starts at 0 (summary nodes are recycled)', loc=(z[0].loc if z else a.loc))
    for name in ('logical_node_counts', 'logical_edge_counts'):
        z = [st for st in a.stores_to(INFO + name) if same_value(a, a.ap(st.ops[1]).root, s) and const_int(st.ops[0]) == 0 and
             lib.loop_containing(a, st) is not None]
        adds = [st for st in a.stores_to(INFO + name) if same_value(a, a.ap(st.ops[1]).root, s) and const_int(st.ops[0]) is None]
        okz = len(z) >= 1 and bool(adds) and all(z[0] not in a.reachable_from(st) for st in adds)
        # the zeroing loop runs over the whole array: its bound is the array length
        okb = False
        if z:
            lpz = lib.loop_containing(a, z[0])
            alen = (m.struct_field('dr_dag_node_info', name) or {}).get('nelem')
            for ic in a.order:
                if ic.op == 'icmp' and ic.pred in ('slt', 'ult') and ic.block.id == lpz['header'] and const_int(ic.ops[1]) == alen:
                    okb = True
        if not (okz and okb):
            # the other spelling: memset(s->info.<name>, 0, sizeof(s->info.<name>))
            alen = (m.struct_field('dr_dag_node_info', name) or {}).get('nelem')
            for mc in a.calls():
                if (mc.callee or '').startswith('llvm.memset') and a.ap(mc.args[0]).fields[-1:] == [INFO + name] and \
                        same_value(a, a.ap(mc.args[0]).root, s) and const_int(mc.args[1]) == 0 and alen and const_int(mc.args[2]) == 8 * alen and \
                        all(mc not in a.reachable_from(st) for st in adds) and bool(adds):
                    okz = okb = True
        ctx.ob('C18.3', '%s zeroed over its whole length before accumulating' % name, okz and okb,
               'every counter of the summary starts at 0', loc=(z[0].loc if z else a.loc))
    # a store through an index that is not known to stay inside its own counter array (logical_node_counts[s->info.kind] with
    # kind >= section lands in the neighbouring array) must not come after the neighbour was zeroed
    arrays = ('logical_node_counts', 'logical_edge_counts')
    for name in arrays:
        zs = [st for st in a.stores_to(INFO + name) if same_value(a, a.ap(st.ops[1]).root, s) and const_int(st.ops[0]) == 0]
        stray = []
        for other in arrays:
            if other == name:
                continue
            olen = (m.struct_field('dr_dag_node_info', other) or {}).get('nelem')
            for st in a.stores_to(INFO + other):
                if not same_value(a, a.ap(st.ops[1]).root, s) or a.in_loop(st):
                    continue
                idx = [x for x in a.ap(st.ops[1]).steps if x[0] in ('i', 'p') and isinstance(x[1], str)]
                if not idx:
                    continue
                lo, hi = lib.guard_interval(a, idx[-1][1], st)
                if olen and lo is not None and hi is not None and 0 <= lo and hi < olen:
                    continue
                if any(st in a.reachable_from(z) for z in zs):
                    stray.append(st)
        ctx.ob('C18.3', 'no possibly out-of-range counter store after %s was zeroed' % name, not stray,
               'the kind-indexed store of the summary node itself is not confined to its 4-entry array; executed after the '
               'neighbouring array was cleared it leaves a 1 in it that every contraction then adds to the totals',
               loc=(stray[0].loc if stray else a.loc))
    # the leaf initialiser clears the same counters over their whole length (nodes are recycled)
    ei = ctx.need_fn(m, 'dr_end_interval_')
    dn = ei.params[0]['id']
    for name in ('logical_node_counts', 'logical_edge_counts'):
        alen = (m.struct_field('dr_dag_node_info', name) or {}).get('nelem')
        z = [st for st in ei.stores_to(INFO + name) if same_value(ei, ei.ap(st.ops[1]).root, dn) and const_int(st.ops[0]) == 0]
        okb = False
        for st in z:
            lpz = lib.loop_containing(ei, st)
            ix = [x for x in ei.ap(st.ops[1]).steps if x[0] == 'i']
            if lpz is None or not ix or not isinstance(ix[-1][1], str):
                continue
            for ic in ei.order:
                if ic.op == 'icmp' and ic.pred in ('slt', 'ult') and ic.block.id == lpz['header'] and const_int(ic.ops[1]) == alen and \
                        lib.same_expr(ei, ic.ops[0], ix[-1][1]):
                    ph = ei.get(ei.strip(ic.ops[0]))
                    if ph is not None and ph.op == 'phi' and any(const_int(v_) == 0 for v_, b_ in ph.d['incoming']):
                        okb = True
        for mc in ei.calls():
            if (mc.callee or '').startswith('llvm.memset') and ei.ap(mc.args[0]).fields[-1:] == [INFO + name] and \
                    same_value(ei, ei.ap(mc.args[0]).root, dn) and const_int(mc.args[1]) == 0 and alen and const_int(mc.args[2]) == 8 * alen:
                okb = True
        ctx.ob('C18.3', 'leaf initialiser clears %s over its whole length (%s entries)' % (name, alen), okb,
               'a recycled node that keeps one stale counter carries it into every total it is later summed into', loc=ei.loc)
    ctx.floor('C18.3', 18)
    ctx.attempt(rule4_edges, ctx, m, a, s)


# which kind of chain element is the source of each successor edge (dag_recorder_inl.h: the interval opened by
# dr_return_from_create_task_ / dr_return_from_wait_tasks_ / dr_return_from_other_ gets this in_edge_kind)
PRED = {'create_cont': 'create_task', 'wait_cont': 'section', 'other_cont': 'other'}


def rule4_edges(ctx, m, a, s):
    en = ctx.enumerators('dag_recorder.c', area='profiler')
    EK = {k[len('dr_dag_edge_kind_'):]: v for k, v in en.items() if k.startswith('dr_dag_edge_kind_') and k != 'dr_dag_edge_kind_max'}
    NK = {k[len('dr_dag_node_kind_'):]: v for k, v in en.items() if k.startswith('dr_dag_node_kind_')}
    for need in ('end', 'create', 'create_cont', 'wait_cont', 'other_cont'):
        ctx.need_enum(en, 'dr_dag_edge_kind_' + need)
    for need in ('create_task', 'section', 'other'):
        ctx.need_enum(en, 'dr_dag_node_kind_' + need)
    ekn = {v: k for k, v in EK.items()}
    nkn = {v: k for k, v in NK.items()}
    # ---- accumulator: K -> [(node kind of the chain element, increment, store)]
    sws = [i for i in a.order if i.op == 'switch' and isinstance(i.d.get('cond'), str) and a.get(a.strip(i.d['cond'])) is not None and
           a.get(a.strip(i.d['cond'])).op == 'load' and a.field(a.get(a.strip(i.d['cond']))) == INFO + 'kind']
    ctx.ob('C18.4', 'accumulator dispatches on the kind of the chain element', len(sws) == 1, 'switch (x->info.kind)', loc=a.loc)
    acc = {}
    if len(sws) == 1:
        sw = sws[0]
        xroot = a.ap(a.get(a.strip(sw.d['cond'])).ops[0]).root
        for st in a.stores_to(INFO + 'logical_edge_counts'):
            ap = a.ap(st.ops[1])
            if not same_value(a, ap.root, s):
                continue
            idx = [x for x in ap.steps if x[0] == 'i']
            if not idx or not isinstance(idx[-1][1], int):
                continue            # the element-wise loops (zeroing, += x / += c) are rule C18.3
            K = idx[-1][1]
            av = lib.affine(a, st.ops[0])
            lds = [k for k in av if k in a.insts and a.insts[k].op == 'load' and lib.same_addr(a, a.insts[k].ops[0], st.ops[1])]
            inc = None
            if len(lds) == 1 and av[lds[0]] == 1:
                rest = {k: c for k, c in av.items() if k != lds[0] and c != 0}
                inc = rest.get('', 0) if set(rest) <= {''} else 'variable'
                vt = [k for k in rest if k != '']
                if len(vt) == 1 and rest[vt[0]] == 1 and rest.get('', 0) == 0 and vt[0] in a.insts and a.insts[vt[0]].op == 'load' and \
                        a.field(a.insts[vt[0]]) == INFO + 'n_child_create_tasks' and same_value(a, a.ap(a.insts[vt[0]].ops[0]).root, s):
                    inc = 'creates(s)'     # the node's own number of create_task elements, added once
            cases = sorted(set(nkn.get(v, str(v)) for v, t in sw.d['cases'] if a.edge_dominates(sw.block.id, t, st)))
            nxt = any(a.edge_dominates(br.block.id, nn, st) for l in a.loads_of('dr_dag_node.next')
                      if a.strip(a.ap(l.ops[0]).root) == a.strip(xroot) for br, nn, nl in lib.null_tests(a, l.id))
            acc.setdefault(ekn.get(K, str(K)), []).append((cases, inc, nxt, st))
    # ---- enumerator
    d = ctx.ssa('dr_dump.c', area='profiler')
    e = ctx.need_fn(d, 'dr_pi_dag_enum_edges')
    calls = call_sites(e, 'dr_pi_dag_add_edge')
    ctx.ob('C18.4', 'enumerator emits edges', len(calls) >= 3, 'calls of dr_pi_dag_add_edge', loc=e.loc)
    per_create, seq = {}, {}
    for c in calls:
        kinds = set()
        karg = c.args[2]
        if const_int(karg) is not None:
            kinds.add(ekn.get(const_int(karg), str(const_int(karg))))
        else:
            ki = e.get(e.strip(karg)) if isinstance(karg, str) else None
            if ki is not None and ki.op == 'load' and e.field(ki) == INFO + 'in_edge_kind':
                for sw in [i for i in e.order if i.op == 'switch']:
                    ci = e.get(e.strip(sw.d['cond'])) if isinstance(sw.d.get('cond'), str) else None
                    if ci is not None and ci.op == 'load' and lib.same_addr(e, ci.ops[0], ki.ops[0]):
                        for v, t in sw.d['cases']:
                            if e.edge_dominates(sw.block.id, t, c):
                                kinds.add(ekn.get(v, str(v)))
        ctx.ob('C18.4', 'edge kind of enumerator call resolved', bool(kinds), 'constant kind, or in_edge_kind under a switch on it',
               loc=c.loc, detail=expr_str(e, karg))
        is_create = False
        for ic in e.order:
            if ic.op == 'icmp' and ic.pred == 'eq' and const_int(ic.ops[1]) == NK['create_task']:
                li = e.get(e.strip(ic.ops[0])) if isinstance(ic.ops[0], str) else None
                if li is not None and li.op == 'load' and e.field(li) == INFO + 'kind':
                    for br in e.users(ic.id):
                        if br.op == 'br' and 'cond' in br.d and e.edge_dominates(br.block.id, br.d['t'], c):
                            is_create = True
        for k in kinds:
            (per_create if is_create else seq).setdefault(k, []).append(c)
    # successor edges connect the last leaf of child x with the first leaf of child x+1, and the output cursor moves on
    # after every edge
    lasts = call_sites(e, 'dr_pi_dag_node_last')
    firsts = call_sites(e, 'dr_pi_dag_node_first')
    esz = (d.structs.get('dr_pi_dag_node') or {}).get('size')
    nb = False
    for la in lasts:
        for fi in firsts:
            dd = lib.affine_diff(e, fi.args[0], la.args[0])
            if dd == {'': esz} and la.block.id == fi.block.id:
                nb = True
    ctx.ob('C18.4', 'successor edge runs from last(x) to first(x + 1)', nb and bool(esz), 'adjacent children of the same subgraph', loc=e.loc,
           detail='node size %s' % esz)
    edsz = (d.structs.get('dr_pi_dag_edge') or {}).get('size')
    for c in calls:
        nxt = [g_ for g_ in e.order if g_.op == 'getelementptr' and g_.d.get('coff') == edsz and lib.same_expr(e, g_.d['base'], c.args[0])]
        others = [x for x in calls if x is not c]
        pre = [g_ for g_ in nxt if g_.block.id == c.block.id and e.dominates_f(g_, c)]       # add_edge(e++, ..): advanced just before the call
        ctx.ob('C18.4', 'output cursor advances after the edge', bool(nxt) and (bool(pre) or e.always_passes(c, nxt, to=others + [c] + e.exits())),
               'e++ after every dr_pi_dag_add_edge: an edge written over the previous one loses it', loc=c.loc)
    emitted = set(per_create) | set(seq)
    counted = set(acc)
    for k in sorted(emitted | counted):
        site = (per_create.get(k) or seq.get(k) or [None])[0]
        loc = site.loc if site is not None else acc[k][0][3].loc
        ctx.ob('C18.4', 'edge kind %s: emitted for uncontracted subgraphs <=> counted for contracted ones' % k,
               k in emitted and k in counted,
               'an edge kind handled on one side only makes its total depend on how much of the DAG is contracted', loc=loc,
               detail='emitted by dr_pi_dag_enum_edges: %s; counted by dr_accumulate_stats: %s' % (k in emitted, k in counted))
    for k, lst in sorted(acc.items()):
        for cases, inc, nxt, st in lst:
            bulk = inc == 'creates(s)' and k in per_create and not cases and lib.loop_containing(a, st) is None
            ctx.ob('C18.4', 'count of %s edges grows by exactly one per edge' % k, inc == 1 or bulk,
                   'one enumerated edge corresponds to one counted edge', loc=st.loc, detail='increment %s under case %s' % (inc, cases))
            if k in per_create:
                ctx.ob('C18.4', '%s edges are counted where the create is' % k, cases == ['create_task'] or bulk,
                       'the enumerator emits this edge while descending into the section that holds the create_task node, so the '
                       'section itself must carry the count (a contracted section inside an uncontracted one keeps it)',
                       loc=st.loc, detail='counted under case %s' % cases)
            elif k in PRED:
                ctx.ob('C18.4', '%s edges are counted per %s element' % (k, PRED[k]), cases == [PRED[k]],
                       'one successor edge per chain element of the kind that produces it', loc=st.loc, detail='counted under case %s' % cases)
                if PRED[k] != 'create_task':
                    ctx.ob('C18.4', '%s edge counted only when a successor exists' % k, nxt, 'x->next tested', loc=st.loc)
    for k in sorted(seq):
        ctx.ob('C18.4', 'successor edges are emitted with a successor kind (%s)' % k, k in PRED and k not in per_create,
               'the edge between adjacent chain elements carries the kind of the element it leaves (an end edge here would be counted '
               'twice by the reader and not at all by the accumulator)', loc=seq[k][0].loc)
    for k in sorted(per_create):
        ctx.ob('C18.4', 'one %s edge per create in the enumerator' % k, len(per_create[k]) == 1, 'per create_task node', loc=per_create[k][0].loc)
    # the pre-pass that sizes the edge array
    cnt = ctx.need_fn(d, 'dr_pi_dag_count_edges_uncollapsed')
    adds = []
    for ic in cnt.order:
        if ic.op == 'icmp' and ic.pred == 'eq' and const_int(ic.ops[1]) == NK['create_task']:
            for br in cnt.users(ic.id):
                if br.op != 'br' or 'cond' not in br.d:
                    continue
                for x in cnt.order:
                    if x.op == 'add' and const_int(x.ops[1]) is not None and cnt.edge_dominates(br.block.id, br.d['t'], x) and \
                            lib.loop_containing(cnt, x) is not None and x.block.id == br.d['t']:
                        adds.append(x)
    n_per_create = sum(len(v) for v in per_create.values())
    ctx.ob('C18.4', 'edge array sized for the per-create edges', len(adds) == 1 and const_int(adds[0].ops[1]) == n_per_create,
           'dr_pi_dag_count_edges_uncollapsed adds, per create_task node, the number of edges dr_pi_dag_enum_edges emits per create',
           loc=adds[0].loc if adds else cnt.loc, detail='adds %s, enumerator emits %d' % ([const_int(x.ops[1]) for x in adds], n_per_create))
    # the contracted node must look to the enumerator like its first leaf: dr_pi_dag_node_first(x+1) is x+1 itself once contracted
    iek = [st for st in a.stores_to(INFO + 'in_edge_kind') if same_value(a, a.ap(st.ops[1]).root, s)]
    ctx.ob('C18.4', 'summary node takes an in-edge kind', len(iek) == 1, 's->info.in_edge_kind is set by the accumulation', loc=a.loc)
    for st in iek:
        li = a.get(a.strip(st.ops[0])) if isinstance(st.ops[0], str) else None
        okf = li is not None and li.op == 'load' and a.field(li) == INFO + 'in_edge_kind'
        if okf:
            r = a.get(a.strip(a.ap(li.ops[0]).root))
            okf = r is not None and r.op == 'call' and r.callee == 'dr_dag_node_list_first'
            if okf:
                okf = same_value(a, a.ap(r.args[0]).root, s)      # the list embedded in s (s->subgraphs)
        ctx.ob('C18.4', 'in-edge kind of a summary node is that of its first element', okf,
               'the enumerator classifies the edge into a subgraph by the in_edge_kind of its first leaf, or of the subgraph node itself '
               'once contracted; the two must be the same value', loc=st.loc, detail=expr_str(a, st.ops[0]))
    # reader: per-kind totals are sums over contracted nodes and explicit edges
    g = ctx.ssa('gen_stat.c', area='profiler')
    ce = ctx.need_fn(g, 'dr_calc_edges')
    arr = [c for c in ce.calls() if c.callee == 'dr_malloc']
    ctx.ob('C18.4', 'edge-count table allocated once in dr_calc_edges', len(arr) == 1, 'C_ = dr_malloc(...)', loc=ce.loc)
    n_acc = 0
    if len(arr) == 1:
        for st in ce.order:
            if st.op != 'store' or ce.strip(ce.ap(st.ops[1]).root) != arr[0].id:
                continue
            if const_int(st.ops[0]) == 0:
                continue
            av = lib.affine(ce, st.ops[0])
            own = [k for k in av if k in ce.insts and ce.insts[k].op == 'load' and lib.same_addr(ce, ce.insts[k].ops[0], st.ops[1])]
            okacc = len(own) == 1 and av[own[0]] == 1
            n_acc += 1
            src = [k for k in av if k in ce.insts and ce.insts[k].op == 'load' and ce.field(ce.insts[k]) == INFO + 'logical_edge_counts']
            what = 'the logical edge counts of a contracted node' if src else 'one explicit edge'
            ctx.ob('C18.4', 'dr_calc_edges adds %s to the running total' % what, okacc and (bool(src) or av.get('', 0) == 1),
                   'totals by kind are sums over all contracted nodes plus the explicit edges (an assignment keeps only the last node)',
                   loc=st.loc, detail=expr_str(ce, st.ops[0]))
    ctx.ob('C18.4', 'dr_calc_edges accumulates from contracted nodes and explicit edges', n_acc >= 3, 'three accumulation sites', loc=ce.loc)
    if len(arr) == 1:
        rngt = [ic for ic in ce.order if ic.op == 'icmp' and ic.pred in ('eq', 'ne') and
                sorted(ce.field(x) if (x is not None and x.op == 'load') else '' for x in (ce.get(ce.strip(o)) for o in ic.ops)) ==
                ['dr_pi_dag_node.subgraphs_begin_offset', 'dr_pi_dag_node.subgraphs_end_offset']]
        for st in ce.order:
            if st.op != 'store' or ce.strip(ce.ap(st.ops[1]).root) != arr[0].id or const_int(st.ops[0]) == 0:
                continue
            av = lib.affine(ce, st.ops[0])
            if not [k for k in av if k in ce.insts and ce.insts[k].op == 'load' and ce.field(ce.insts[k]) == INFO + 'logical_edge_counts']:
                continue
            ctx.ob('C18.4', 'dr_calc_edges takes the logical counts of exactly the nodes whose subgraph range is empty',
                   any(ce.on_edge(c_, (ic.pred == 'eq') == p_, st) for ic in rngt for c_, p_ in lib.cond_chain(ce, ic.id)),
                   'a contracted section / task is one whose range [begin, end) is empty - the test the work total uses and the only '
                   'mark every contraction (at record time and by the shrinking conversion) maintains', loc=st.loc)
    if len(arr) == 1:
        accs = [st for st in ce.order if st.op == 'store' and ce.strip(ce.ap(st.ops[1]).root) == arr[0].id and const_int(st.ops[0]) != 0]
        raw = [l for l in ce.order if l.op == 'load' and ce.field(l) == INFO + 'worker']
        ctx.ob('C18.4', 'dr_calc_edges reads the worker of contracted nodes and of both edge ends', len(raw) >= 3,
               'worker loads found', loc=ce.loc)
        badw = lib.unnormalised_index_uses(ce, accs, lambda i: i.op == 'load' and ce.field(i) == INFO + 'worker', -1)
        ctx.ob('C18.4', 'dr_calc_edges maps worker -1 to the extra row / column before indexing', not badw,
               'a contracted subgraph that ran on several workers has worker == -1; each coordinate of the table index is that '
               'very value replaced by nw on its == -1 edge (a coordinate left at -1 charges another cell or writes before the '
               'table, so the totals change with the contraction policy)',
               loc=(badw[0][0].loc if badw else ce.loc),
               detail='; '.join('worker read at line %s reaches the index at line %s unreplaced' % (r.line, a.line) for a, r in badw[:3]))
    # the report prints the whole table as well
    wr = ctx.need_fn(g, 'dr_write_edge_counts')
    rl = [l for l in wr.order if l.op == 'load' and l.ty == 'i64' and is_load_of_field(wr, wr.ap(l.ops[0]).root, 'dr_basic_stat.edge_counts')]
    okw, det = False, ''
    if len(rl) == 1:
        li = wr.loop_of_block(rl[0].block.id)
        bounds = []
        while li is not None and li >= 0:
            L = wr.loops[li]
            for ic in wr.order:
                if ic.op == 'icmp' and ic.pred in ('slt', 'ult') and ic.block.id == L['header']:
                    c_ = const_int(ic.ops[1])
                    if c_ is not None:
                        bounds.append(('const', c_))
                    else:
                        dd = lib.affine_diff(wr, ic.ops[1], {'c': 0, 'w': 64})
                        nwl = lib.load_terms(wr, dd, 'dr_basic_stat.n_workers')
                        if len(nwl) == 1 and dd[nwl[0]] == 1 and len(dd) <= 2:
                            bounds.append(('nw', dd.get('', 0)))
            li = L['parent']
        okw = sorted(bounds, key=str) == sorted([('const', ctx.need_enum(en, 'dr_dag_edge_kind_max')), ('nw', 1), ('nw', 1)], key=str)
        det = str(bounds)
    ctx.ob('C18.4', 'dr_write_edge_counts prints the whole kinds x (nw+1) x (nw+1) table', okw,
           'the extra row and column hold the edges of subgraphs that were run by more than one worker and then contracted: leaving them '
           'out makes the per-kind totals depend on the contraction policy', loc=wr.loc, detail=det)
    # the table the sums start from is cleared in full: kinds x (workers + 1) x (workers + 1), the extra row/column being the
    # "more than one worker" bucket every multi-worker contracted node is charged to
    if len(arr) == 1:
        zs = [st for st in ce.order if st.op == 'store' and ce.strip(ce.ap(st.ops[1]).root) == arr[0].id and const_int(st.ops[0]) == 0]
        okz = False
        detail = ''
        for mc_ in ce.calls():
            if (mc_.callee or '').startswith('llvm.memset') and ce.strip(ce.ap(mc_.args[0]).root) == arr[0].id and const_int(mc_.args[1]) == 0 and \
                    lib.same_expr(ce, mc_.args[2], arr[0].args[0]) and not ce.ap(mc_.args[0]).steps:
                okz, detail = True, 'memset over the allocated size'
        if len(zs) == 1 and not okz:
            li = ce.loop_of_block(zs[0].block.id)
            bounds = []
            while li is not None and li >= 0:
                L = ce.loops[li]
                for ic in ce.order:
                    if ic.op == 'icmp' and ic.pred in ('slt', 'ult') and ic.block.id == L['header']:
                        c_ = const_int(ic.ops[1])
                        if c_ is not None:
                            bounds.append(('const', c_))
                        else:
                            dd = lib.affine_diff(ce, ic.ops[1], {'c': 0, 'w': 64})
                            nwl = lib.load_terms(ce, dd, 'dr_pi_dag.num_workers')
                            if len(nwl) == 1 and dd[nwl[0]] == 1 and len(dd) <= 2:
                                bounds.append(('nw', dd.get('', 0)))
                li = L['parent']
            kmax = ctx.need_enum(en, 'dr_dag_edge_kind_max')
            okz = sorted(bounds, key=str) == sorted([('const', kmax), ('nw', 1), ('nw', 1)], key=str)
            detail = str(bounds)
        ctx.ob('C18.4', 'dr_calc_edges clears the whole kinds x (nw+1) x (nw+1) table', okz,
               'a row or column left uncleared adds whatever the allocator returned to the totals of the multi-worker bucket', loc=ce.loc,
               detail=detail)
    ctx.floor('C18.4', 30)
    rule5_sections(ctx)
    rule7_report(ctx)
    if not getattr(ctx, '_in_c19_share', False):
        from . import c19
        with ctx.shared({'C19.9': 'C18.6'}, floor=4,
                        doc='union discriminant discipline (shared with C19.9): the subgraph range and the child offset of a node share '
                            'storage; statistics that classify a node as a contracted leaf by its range read it only under the kind that '
                            'selects the range (otherwise the delay / edge statistics change with the contraction policy)'):
            c19.rule9_union(ctx)
        with ctx.shared({'C19.3': 'C18.8'}, floor=8,
                        doc='re-contraction of a stored DAG keeps the totals (shared with C19.3): the shrinking copy marks children for '
                            'copying only below a node it copies, and rewrites ranges only for non-empty source ranges - nodes kept below a '
                            'dropped node are summed a second time by the report'):
            c19.rule3_shrink(ctx, ctx.ssa('dr_dump.c', area='profiler'))


OPENERS = {'dr_push_back_section': {'dr_task_ensure_section', 'dr_begin_section__'},
           # only create and wait intervals lie inside a section that a later wait closes; 'other' and 'end' attach to whatever is active
           'dr_task_ensure_section': {'dr_enter_create_task__', 'dr_enter_wait_tasks__', 'dr_enter_create_cilk_proc_task__'},
           'dr_summarize_section_or_task': {'dr_return_from_wait_tasks__', 'dr_end_task__'}}
ENTRY = {'create_task': ('dr_enter_create_task__', 'dr_return_from_create_task__', {'create_cont'}),
         'wait_tasks': ('dr_enter_wait_tasks__', 'dr_return_from_wait_tasks__', {'wait_cont', 'end'}),
         'other': ('dr_enter_other__', 'dr_return_from_other__', {'other_cont'})}


def rule7_report(ctx):
    ctx.doc('C18.7', 'what the report prints: work is the sum of info.t_1 over exactly the leaves of the (possibly contracted) DAG - interval '
            'nodes and sections / tasks whose subgraph range is empty - accumulated over all n nodes (dr_calc_inner_delay); the lines '
            'create_task / wait_tasks / end_task print the root\'s logical node count of that kind, "work (T1)" that sum and '
            '"critical_path (T_inf)" the root\'s t_inf')
    g = ctx.ssa('gen_stat.c', area='profiler')
    en = ctx.enumerators('gen_stat.c', area='profiler')
    SEC = ctx.need_enum(en, 'dr_dag_node_kind_section')
    nz = lambda d: {k: v for k, v in d.items() if v != 0}
    f = ctx.need_fn(g, 'dr_calc_inner_delay')
    st = [x for x in f.stores_to('dr_basic_stat.total_t_1')]
    ctx.ob('C18.7', 'calc_inner_delay: publishes the work total', len(st) == 1 and len(f.loops) == 1, 'bs->total_t_1 = total_t_1', loc=f.loc)
    if len(st) == 1 and len(f.loops) == 1:
        L = f.loops[0]
        H = f.get(f.strip(st[0].ops[0]))
        okH = H is not None and H.op == 'phi' and H.block.id == L['header'] and len(H.d['incoming']) == 2
        init = [v for v, b in H.d['incoming'] if b not in L['blocks']] if okH else []
        back = [v for v, b in H.d['incoming'] if b in L['blocks']] if okH else []
        okH = okH and len(init) == 1 and const_int(init[0]) == 0 and len(back) == 1
        ctx.ob('C18.7', 'calc_inner_delay: the total starts at 0 and is carried round the loop over the nodes', okH, 'accumulator', loc=st[0].loc)
        if okH:
            # loop counter: 0 .. G->n step 1, node = &T[i]
            iv = [ph for ph in f.blocks[L['header']].insts if ph.op == 'phi' and ph.id != H.id and len(ph.d['incoming']) == 2 and
                  any(const_int(v) == 0 for v, b in ph.d['incoming'] if b not in L['blocks']) and
                  any(nz(lib.affine_diff(f, v, ph.id)) == {'': 1} for v, b in ph.d['incoming'] if b in L['blocks'])]
            bound = [ic for ic in f.blocks[L['header']].insts if ic.op == 'icmp' and ic.pred in ('slt', 'ult') and iv and
                     f.strip(ic.ops[0]) == iv[0].id and lib.load_terms(f, affine(f, ic.ops[1]), 'dr_pi_dag.n')]
            ctx.ob('C18.7', 'calc_inner_delay: visits every node, i = 0 .. G->n - 1', len(iv) >= 1 and len(bound) == 1, 'for (i = 0; i < n; i++)', loc=f.loc)
            m = f.get(f.strip(back[0]))
            alts = [(v, b) for v, b in m.d['incoming']] if m is not None and m.op == 'phi' and m.id != H.id else [(back[0], None)]
            adds, skips = [], []
            okacc = True
            for v, b in alts:
                d = nz(lib.affine_diff(f, v, H.id))
                if d == {}:
                    skips.append((v, b))
                    continue
                ks = list(d)
                l = f.insts.get(ks[0]) if len(ks) == 1 else None
                if l is not None and d[ks[0]] == 1 and l.op == 'load' and f.field(l) == INFO + 't_1' and \
                        l.block.id in L['blocks']:
                    adds.append((v, b, l))
                else:
                    okacc = False
            ctx.ob('C18.7', 'calc_inner_delay: each visited leaf adds its own t_1, once', okacc and len(adds) >= 1,
                   'total_t_1 += t->info.t_1 (an assignment or a different field changes the reported work)', loc=st[0].loc)
            # the node whose t_1 is added is T[i]
            for v, b, l in adds:
                ap_ = f.ap(l.ops[0])
                okn = bool(iv) and is_load_of(f, ap_.root, 'dr_pi_dag.T') and ap_.steps[:1] and ap_.steps[0][0] == 'p' and \
                    isinstance(ap_.steps[0][1], str) and f.strip(ap_.steps[0][1]) == iv[0].id and len(ap_.steps) == 3
                ctx.ob('C18.7', 'calc_inner_delay: the node read is T[i]', okn, 't = &T[i]', loc=l.loc)
            # leaf condition: skipped exactly when kind >= section and the range is not empty
            kinds = [ic for ic in f.order if ic.op == 'icmp' and const_int(ic.ops[1]) is not None and
                     (lambda l_: l_ is not None and l_.op == 'load' and f.field(l_) == INFO + 'kind')(f.get(f.strip(ic.ops[0])))]
            rng = [ic for ic in f.order if ic.op == 'icmp' and ic.pred in ('eq', 'ne') and
                   sorted(f.field(x) if (x is not None and x.op == 'load') else '' for x in (f.get(f.strip(o)) for o in ic.ops)) ==
                   ['dr_pi_dag_node.subgraphs_begin_offset', 'dr_pi_dag_node.subgraphs_end_offset']]

            def is_section(ic, truth):
                k = const_int(ic.ops[1])
                return (ic.pred in ('ult', 'slt') and k == SEC and not truth) or (ic.pred in ('uge', 'sge') and k == SEC and truth) or \
                    (ic.pred in ('ugt', 'sgt') and k == SEC - 1 and truth) or (ic.pred in ('ule', 'sle') and k == SEC - 1 and not truth)
            from ..ir import EdgePoint
            okleaf = bool(skips) and bool(kinds) and bool(rng) and m is not None and m.op == 'phi'
            for v, b in skips:
                if b is None:
                    okleaf = False
                    continue
                ep = EdgePoint(f, b, m.block.id)
                s1 = any(f.on_edge(c_, t_ == p_, ep) and is_section(ic, t_) for ic in kinds for c_, p_ in lib.cond_chain(f, ic.id) for t_ in (True, False))
                s2 = any(f.on_edge(c_, (ic.pred == 'ne') == p_, ep) for ic in rng for c_, p_ in lib.cond_chain(f, ic.id))
                okleaf = okleaf and s1 and s2
            ctx.ob('C18.7', 'calc_inner_delay: a node is skipped only if it is a section / task with a non-empty subgraph range', okleaf,
                   'interval nodes and contracted sections / tasks are the leaves whose t_1 make up the work; inner nodes would be counted '
                   'twice', loc=st[0].loc)
    w = ctx.need_fn(g, 'dr_basic_stat_write_to_file')
    CRE, WAI, END = (ctx.need_enum(en, 'dr_dag_node_kind_' + k) for k in ('create_task', 'wait_tasks', 'end_task'))
    want = {'create_task': ('count', CRE), 'wait_tasks': ('count', WAI), 'end_task': ('count', END),
            'work (T1)': ('field', 'dr_basic_stat.total_t_1'), 'critical_path (T_inf)': ('root', INFO + 't_inf')}
    found = {}
    for c in w.calls():
        if c.callee != 'fprintf' or len(c.args) < 3 or not isinstance(c.args[1], dict):
            continue
        gl = (c.args[1].get('ops') or [{}])[0].get('g') if c.args[1].get('ce') else c.args[1].get('g')
        txt = g.globals.get(gl, {}).get('init', {}).get('str') if gl else None
        if not txt or '=' not in txt:
            continue
        label = txt.split('=')[0].strip()
        if label in want:
            found.setdefault(label, []).append(c)
    for label, (kind, what) in sorted(want.items()):
        cs = found.get(label, [])
        if len(cs) != 1:
            from ..frontend import AnalysisBroken
            raise AnalysisBroken('report line "%s" not found once in dr_basic_stat_write_to_file (format changed? update C18.7)' % label)
        c = cs[0]
        l = w.get(w.strip(c.args[2]))
        ok = l is not None and l.op == 'load'
        if ok:
            ap = w.ap(l.ops[0])
            r = w.get(w.strip(ap.root)) if isinstance(ap.root, str) else None
            at_root = r is not None and r.op == 'load' and w.field(r) == 'dr_pi_dag.T' and ap.steps[:1] == [('f', 'dr_pi_dag_node.info')]
            if kind == 'count':
                idx = sum(s_[1] for s_ in ap.steps[2:] if s_[0] in ('i', 'p') and isinstance(s_[1], int))
                ok = at_root and ap.fields[-1:] == [INFO + 'logical_node_counts'] and idx == what and \
                    all(isinstance(s_[1], int) for s_ in ap.steps[2:])
            elif kind == 'root':
                ok = at_root and ap.fields[-1:] == [what] and len(ap.steps) == 2
            else:
                ok = ap.fields == [what] and w.strip(ap.root) == 'a0'
        ctx.ob('C18.7', 'report line "%s" prints %s' % (label, ('the root count of kind %d' % what) if kind == 'count' else what.split('.')[1]), ok,
               'the printed total is the quantity the label names', loc=c.loc)
    ctx.floor('C18.7', 10)


def rule5_sections(ctx):
    ctx.doc('C18.5', 'section typestate over the instrumentation entry points (dag_recorder_no_inl.c): sections are opened only by '
            'dr_begin_section__ and, through dr_task_ensure_section, by the create/wait entry points; they are summarised only when a '
            'wait returns or the task ends; each dr_enter_X__ closes its interval with node kind X and the matching dr_return_from_X__ '
            'opens the next interval with the successor-edge kind the accumulator counts for X')
    m = ctx.ssa('dag_recorder_no_inl.c', area='profiler')
    en = ctx.enumerators('dag_recorder_no_inl.c', area='profiler')
    for callee, allowed in sorted(OPENERS.items()):
        ctx.need_fn(m, callee)
        callers = sorted(set(fn.name for fn in m.functions.values() for c in fn.calls() if c.callee == callee))
        ctx.ob('C18.5', 'callers of %s enumerated' % callee, bool(callers), 'call sites found', loc=m.functions[callee].loc)
        for fn in m.functions.values():
            for c in fn.calls():
                if c.callee == callee:
                    ctx.ob('C18.5', '%s may call %s' % (fn.name, callee), fn.name in allowed,
                           'a section opened by an interval that no wait closes is never accumulated into the totals; summaries are '
                           'taken exactly when a section or task closes', loc=c.loc)
    for x, (enter, ret, kinds) in sorted(ENTRY.items()):
        fe_, fr = ctx.need_fn(m, enter), ctx.need_fn(m, ret)
        ends = call_sites(fe_, 'dr_end_interval_')
        nk = ctx.need_enum(en, 'dr_dag_node_kind_' + x)
        okk = len(ends) >= 1 and all(any(const_int(a_) == nk for a_ in c.args[1:]) for c in ends)
        ctx.ob('C18.5', '%s closes an interval of kind %s' % (enter, x), okk, 'dr_end_interval_(..., kind)', loc=fe_.loc)
        sts = fr.stores_to(INFO + 'in_edge_kind')
        vals = set()
        for st in sts:
            for k in fr.sources(st.ops[0]):
                try:
                    vals.add(const_int(__import__('json').loads(k)) if k.startswith('{') else None)
                except ValueError:
                    vals.add(None)
        want = set(ctx.need_enum(en, 'dr_dag_edge_kind_' + k) for k in kinds)
        ctx.ob('C18.5', '%s opens the next interval with in-edge kind in %s' % (ret, sorted(kinds)), bool(sts) and vals == want,
               'the kind recorded on the successor interval is the kind the accumulator counts for a %s element' % x, loc=fr.loc,
               detail=str(sorted(str(v) for v in vals)))
    # dr_task_ensure_section opens a section exactly when the task has none open, and hands back the open one
    es = ctx.need_fn(m, 'dr_task_ensure_section')
    pb = call_sites(es, 'dr_push_back_section')
    act = call_sites(es, 'dr_task_active_node')
    tpar = es.params[0]['id']
    okg = False
    for ic in es.order:
        if ic.op == 'icmp' and ic.pred in ('eq', 'ne') and not lib.affine_diff(es, ic.ops[0], ic.ops[1]) == {} :
            d_ = set(es.sources(ic.ops[0])) | set(es.sources(ic.ops[1]))
            if tpar in d_ and any(c.id in d_ for c in act):
                for br in es.users(ic.id):
                    if br.op == 'br' and 'cond' in br.d and pb:
                        yes, no = (br.d['t'], br.d['f']) if ic.pred == 'eq' else (br.d['f'], br.d['t'])
                        if es.edge_dominates(br.block.id, yes, pb[0]) and pb[0] not in es.reachable_from(lib.first_inst(es, no), include_start=True):
                            okg = True
    ctx.ob('C18.5', 'ensure_section opens a section exactly when the active node is the task itself', len(pb) == 1 and okg,
           'if (active == t) s = push_back_section(t, t)', loc=es.loc)
    rets = [r for r in es.exits() if r.ops]
    ctx.ob('C18.5', 'ensure_section returns the open section', bool(rets) and all(
        set(k for k in es.sources(r.ops[0]) if not k.startswith('{')) <= set([c.id for c in act] + [c.id for c in pb]) for r in rets),
        'the freshly opened section or the one already active', loc=es.loc)
    ps = ctx.need_fn(m, 'dr_push_back_section')
    news = call_sites(ps, 'dr_dag_node_list_push_back')
    inits = call_sites(ps, 'dr_dag_node_init_section_or_task')
    sec = ctx.need_enum(en, 'dr_dag_node_kind_section')
    okn = len(news) == 1 and len(inits) == 1 and same_value(ps, inits[0].args[0], news[0].id) and const_int(inits[0].args[1]) == sec and \
        same_value(ps, inits[0].args[2], ps.params[1]['id'])
    ctx.ob('C18.5', 'push_back_section initialises the new node as a section under its parent', okn,
           'dr_dag_node_init_section_or_task(new_s, section, s)', loc=ps.loc)
    acts = [st for st in ps.stores_to('dr_dag_node.parent_section|active_section') if news and same_value(ps, st.ops[0], news[0].id) and
            same_value(ps, ps.ap(st.ops[1]).root, ps.params[0]['id'])]
    ctx.ob('C18.5', 'push_back_section makes the new section the active one', len(acts) == 1, 't->active_section = new_s', loc=ps.loc)
    # every resumption point re-establishes the worker's current task
    for ret in ('dr_return_from_create_task__', 'dr_return_from_wait_tasks__', 'dr_return_from_other__'):
        fr = ctx.need_fn(m, ret)
        sc = call_sites(fr, 'dr_set_cur_task_')
        oks = len(sc) == 1 and same_value(fr, sc[0].args[1], fr.params[0]['id'])
        ctx.ob('C18.5', '%s makes the resumed task the worker\'s current task' % ret, oks,
               'the task may resume on another worker: dr_set_cur_task_(wss, t) with the task handed in', loc=fr.loc)
    # work is the sum of (end - start) over the intervals: every entry point that opens an interval stamps its start, and the leaf
    # initialiser computes the length from that stamp
    for op in ('dr_start_task__', 'dr_return_from_create_task__', 'dr_return_from_wait_tasks__', 'dr_return_from_other__'):
        fo = ctx.need_fn(m, op)
        ss = call_sites(fo, 'dr_set_start_info')
        oks = len(ss) == 1 and fo.ap(ss[0].args[0]).fields[-1:] == [INFO + 'start']
        if oks:
            # stamped on every path on which the recorder is active (the call that makes the task current is on the same paths)
            cur = call_sites(fo, 'dr_set_cur_task_')
            oks = bool(cur) and all(ss[0] in fo.reachable_from(c_) or fo.dominates_f(ss[0], c_) for c_ in cur) and \
                not [r for c_ in cur for r in fo.reachable_from(c_, blocked=ss) if r.op == 'ret']
        ctx.ob('C18.5', '%s stamps the start of the interval it opens' % op, oks,
               'dr_set_start_info(&t->info.start, ..): the length of the interval, hence the work total, is measured from this stamp', loc=fo.loc)
    ei = ctx.need_fn(m, 'dr_end_interval_')
    t1s = [st for st in ei.stores_to(INFO + 't_1')]
    okl = False
    for st in t1s:
        d_ = lib.affine(ei, st.ops[0])
        pos = [k for k, v_ in d_.items() if v_ == 1 and k != '']
        neg = [k for k, v_ in d_.items() if v_ == -1 and k != '']
        if len(pos) == 1 and len(neg) == 1 and len(d_) - ('' in d_) == 2 and d_.get('', 0) == 0:
            endp = ei.param_named('end_t')
            okl = (endp is None or pos[0] == endp) and ('start' in lib.expr_str(ei, neg[0]) or ei.param_named('start') in (neg[0],))
    ctx.ob('C18.5', 'leaf interval: work = end - start', okl, 'dn->info.t_1 = end_t - start.t', loc=ei.loc)
    # Cilk flavour: the create_task interval waits in wss->parent for the procedure it spawns; whoever takes it empties the slot
    sp = ctx.need_fn(m, 'dr_start_cilk_proc__')
    PAR = 'dr_worker_specific_state.parent'
    pl = sp.loads_of(PAR)
    stt = call_sites(sp, 'dr_start_task__')
    clr = [st for st in sp.stores_to(PAR) if isinstance(st.ops[0], dict) and st.ops[0].get('null')]
    nts = [t_ for l in pl for t_ in lib.null_tests(sp, l.id)]
    okc = len(stt) == 1 and bool(nts) and any(sp.edge_dominates(br.block.id, nn, stt[0]) for br, nn, nl in nts) and len(clr) >= 1 and \
        all(not [r for r in sp.reachable_from(lib.first_inst(sp, nn), blocked=clr, include_start=True) if r.op == 'ret'] for br, nn, nl in nts)
    ctx.ob('C18.5', 'start_cilk_proc consumes the pending parent exactly once', okc,
           'if (wss->parent) { start_task(wss->parent); wss->parent = 0; }: a slot left filled turns the next plain call on this worker into '
           'a task under a create_task node that already has its child', loc=sp.loc)
    setters = set(fn.name for fn in m.functions.values() for st in fn.stores_to(PAR) if not (isinstance(st.ops[0], dict) and st.ops[0].get('null')))
    for fn in m.functions.values():
        for c_ in fn.calls():
            if any(isinstance(a_, str) and fn.ap(a_).fields[-1:] == [PAR] and fn.get(fn.strip(a_)) is not None and
                   fn.get(fn.strip(a_)).op == 'getelementptr' for a_ in c_.args):
                setters.add(fn.name)          # the slot's address is handed to the create entry point, which fills it
    setters = sorted(setters)
    ctx.ob('C18.5', 'pending parent is set only by the Cilk create entry point', setters == ['dr_enter_create_cilk_proc_task__'],
           'who-may-write wss->parent', loc=sp.loc, detail=str(setters))
    ctx.floor('C18.5', 26)


def is_load_of_field(f, ref, field):
    i = f.get(f.strip(ref)) if isinstance(ref, str) else None
    return i is not None and i.op == 'load' and f.field(i) == field


def deps(f, ref):
    """values the stored value is computed from: through arithmetic, phi/select, casts and the max helpers"""
    out, seen, st = set(), set(), [ref]
    while st:
        r = st.pop()
        if not isinstance(r, str) or r in seen:
            continue
        seen.add(r)
        i = f.insts.get(r)
        if i is None:
            out.add(r)
            continue
        if i.op == 'call' and i.callee in ('dr_max_clock', 'dr_max_count'):
            st += list(i.args)
        elif i.op == 'phi':
            st += [v for v, b in i.d['incoming']]
        elif i.op in ('add', 'sub', 'select', 'zext', 'sext', 'trunc'):
            st += list(i.ops)
        else:
            out.add(r)
    return out


def combine_op(f, ref):
    """'add' if the stored value is a sum; 'max' if it comes through dr_max_clock/dr_max_count or a select on a comparison"""
    seen = set()
    st = [ref]
    ops = set()
    while st:
        r = st.pop()
        if not isinstance(r, str) or r in seen:
            continue
        seen.add(r)
        i = f.insts.get(r)
        if i is None:
            continue
        if i.op == 'call' and i.callee in ('dr_max_clock', 'dr_max_count'):
            ops.add('max')
            st += [x for x in i.args]
        elif i.op == 'select':
            ops.add('max')
            st += list(i.ops[1:])
        elif i.op == 'add':
            ops.add('add')
            st += list(i.ops)
        elif i.op in ('phi',):
            st += [v for v, b in i.d['incoming']]
        elif i.op in ('zext', 'sext', 'trunc'):
            st.append(i.ops[0])
    return 'max' if 'max' in ops else ('add' if 'add' in ops else 'copy')


INL = 'src/profiler/dag_recorder_inl.h'
MUTANTS = [
    {'name': 'path through a created child forgets the chain prefix (hand mutant r6)', 'expect': 'C18.3',
     'edits': [(INL, "            t_inf = dr_max_clock(s->info.t_inf + c->info.t_inf, t_inf);", "            t_inf = dr_max_clock(c->info.t_inf, t_inf);")]},
    {'name': 'section critical path ignores the chain when a child exists (hand mutant r6)', 'expect': 'C18.3',
     'edits': [(INL, "        s->info.t_inf = dr_max_clock(t_inf, s->info.t_inf);", "        s->info.t_inf = t_inf ? t_inf : s->info.t_inf;")]},
    {'name': 'node counts of chain elements summed one kind short (hand mutant r6)', 'expect': 'C18.3',
     'edits': [(INL, "          for (k = 0; k < dr_dag_node_kind_section; k++) {\n            s->info.logical_node_counts[k] += x->info.logical_node_counts[k];", "          for (k = 0; k < dr_dag_node_kind_section - 1; k++) {\n            s->info.logical_node_counts[k] += x->info.logical_node_counts[k];")]},
    {'name': 'edge report recognises contracted nodes by cur_node_count (seed5 C18/m1)', 'expect': 'C18.4',
     'edits': [('src/profiler/gen_stat.c', "    if (t->info.kind >= dr_dag_node_kind_section\n\t&& t->subgraphs_begin_offset == t->subgraphs_end_offset) {\n      for (k = 0; k < dr_dag_edge_kind_max; k++) {", "    if (t->info.kind >= dr_dag_node_kind_section\n\t&& t->info.cur_node_count == 1) {\n      for (k = 0; k < dr_dag_edge_kind_max; k++) {")]},
    {'name': 'edge counts zeroed before the kind-indexed node-count store (seed4 C18/m1)', 'expect': 'C18.3',
     'edits': [('src/profiler/dag_recorder_inl.h', "        s->info.t_ready[i] = 0;\n      }", "        s->info.t_ready[i] = 0;\n        s->info.logical_edge_counts[i] = 0;\n      }"),
               ('src/profiler/dag_recorder_inl.h', "      s->info.logical_node_counts[s->info.kind] = 1;\n      for (i = 0; i < dr_dag_edge_kind_max; i++) {\n        s->info.logical_edge_counts[i] = 0;\n      }", "      s->info.logical_node_counts[s->info.kind] = 1;")]},
    {'name': 'report: work counts inner nodes as well', 'expect': 'C18.7',
     'edits': [('src/profiler/gen_stat.c', "    if (t->info.kind < dr_dag_node_kind_section\n\t|| t->subgraphs_begin_offset == t->subgraphs_end_offset) {\n      total_elapsed += elapsed;", "    if (1) {\n      total_elapsed += elapsed;")]},
    {'name': 'report: work keeps only the last leaf', 'expect': 'C18.7',
     'edits': [('src/profiler/gen_stat.c', "      total_t_1 += t_1;", "      total_t_1 = t_1;")]},
    {'name': 'report: wait_tasks line prints the end_task count', 'expect': 'C18.7',
     'edits': [('src/profiler/gen_stat.c', "  fprintf(wp, \"wait_tasks            = %ld\\n\", n_waits);", "  fprintf(wp, \"wait_tasks            = %ld\\n\", n_ends);")]},
    {'name': 'report: critical path line prints the work', 'expect': 'C18.7',
     'edits': [('src/profiler/gen_stat.c', "  dr_clock_t t_inf = G->T[0].info.t_inf;", "  dr_clock_t t_inf = G->T[0].info.t_1;")]},
    {'name': 'report: work skips contracted sections', 'expect': 'C18.7',
     'edits': [('src/profiler/gen_stat.c', "\t|| t->subgraphs_begin_offset == t->subgraphs_end_offset) {\n      total_elapsed += elapsed;", "\t&& t->subgraphs_begin_offset == t->subgraphs_end_offset) {\n      total_elapsed += elapsed;")]},
    {'name': 'dr_calc_edges replaces the wrong coordinate of a multi-worker source (seed3 C19/m3)', 'expect': 'C18.4',
     'edits': [('src/profiler/gen_stat.c', "#endif\n      uw = nw;\n    }", "#endif\n      vw = nw;\n    }")]},
    {'name': 'collapse zeroes the work of the collapsed node', 'expect': 'C18.1',
     'edits': [(INL, "    dr_free_dag(s, 0, fl);\n    s->info.cur_node_count = 1;", "    dr_free_dag(s, 0, fl);\n    s->info.t_1 = s->info.end.t - s->info.start.t;\n    s->info.cur_node_count = 1;")]},
    {'name': 'collapse before accumulate', 'expect': 'C18.2',
     'edits': [(INL, "    /* accumulate t_1, t_inf, number of nodes, etc. */\n    dr_accumulate_stats(s);\n", "    if (GS.opts.collapse_max_count) dr_collapse_subgraph(s, fl);\n    dr_accumulate_stats(s);\n")]},
    {'name': 'children\'s work not added', 'expect': 'C18.3',
     'edits': [(INL, "            s->info.t_1     += c->info.t_1;\n", "")]},
    {'name': 'critical path sums the children instead of max', 'expect': 'C18.3',
     'edits': [(INL, "            t_inf = dr_max_clock(s->info.t_inf + c->info.t_inf, t_inf);", "            t_inf = t_inf + c->info.t_inf;")]},
    {'name': 'other-cont edges not counted (defect D14 reverted)', 'expect': 'C18.4',
     'edits': [(INL, "              s->info.logical_edge_counts[dr_dag_edge_kind_other_cont]++;\n", "")]},
    {'name': 'end edges counted one level up (defect D15 reverted)', 'expect': 'C18.4',
     'edits': [(INL, "            s->info.logical_edge_counts[dr_dag_edge_kind_end]++;\n", ""),
               (INL, "              s->info.logical_edge_counts[dr_dag_edge_kind_wait_cont]++;\n",
                "              s->info.logical_edge_counts[dr_dag_edge_kind_wait_cont]++;\n              s->info.logical_edge_counts[dr_dag_edge_kind_end] += x->info.n_child_create_tasks;\n")]},
    {'name': 'enumerator emits the end kind between chain elements (seed C18/m2)', 'expect': 'C18.4',
     'edits': [('src/profiler/dr_dump.c', "\tcase dr_dag_edge_kind_other_cont:\n\t  dr_pi_dag_add_edge(e, E_lim, t->info.in_edge_kind, ",
                "\tcase dr_dag_edge_kind_other_cont:\n\tcase dr_dag_edge_kind_end:\n\t  dr_pi_dag_add_edge(e, E_lim, t->info.in_edge_kind, "),
               ('src/profiler/dr_dump.c', "\tcase dr_dag_edge_kind_end:\n\t  dr_pi_dag_add_edge(e, E_lim, dr_dag_edge_kind_wait_cont, \n\t\t\t     s - T, t - T);\n\t  break;\n", "")]},
    {'name': 'wait-cont counted twice per section', 'expect': 'C18.4',
     'edits': [(INL, "              s->info.logical_edge_counts[dr_dag_edge_kind_wait_cont]++;", "              s->info.logical_edge_counts[dr_dag_edge_kind_wait_cont] += 2;")]},
    {'name': 'summary takes the in-edge kind of its last element (seed C18/m1)', 'expect': 'C18.4',
     'edits': [(INL, "s->info.in_edge_kind = first->info.in_edge_kind;", "s->info.in_edge_kind = last->info.in_edge_kind;")]},
    {'name': 'dr_calc_edges assigns instead of adding', 'expect': 'C18.4',
     'edits': [('src/profiler/gen_stat.c', "EDGE_COUNTS(k, nw, nw) += t->info.logical_edge_counts[k];", "EDGE_COUNTS(k, nw, nw) = t->info.logical_edge_counts[k];")]},
    {'name': 'other interval opens a section (seed C18/m3)', 'expect': 'C18.5',
     'edits': [(INL, "      /* ensure t has a session */\n      dr_dag_node * s = dr_task_active_node(t);\n      /* add a new node as a child of s */\n      dr_dag_node * i\n",
                "      /* ensure t has a session */\n      dr_dag_node * s = dr_task_ensure_section(t, wss->freelist);\n      /* add a new node as a child of s */\n      dr_dag_node * i\n")]},
    {'name': 'return from other marks the successor as create-cont', 'expect': 'C18.5',
     'edits': [(INL, "t->info.in_edge_kind = dr_dag_edge_kind_other_cont;", "t->info.in_edge_kind = dr_dag_edge_kind_create_cont;")]},
    {'name': 'work accumulator not reset (sweep M0008)', 'expect': 'C18.3',
     'edits': [(INL, "      s->info.t_1     = 0;\n      s->info.t_inf   = 0;", "      s->info.t_inf   = 0;")]},
    {'name': 'ensure_section never opens a section (sweep M0151)', 'expect': 'C18.5',
     'edits': [(INL, "      s = dr_push_back_section(t, s, fl);\n    }\n    (void)dr_check(s->info.kind == dr_dag_node_kind_section);", "      ;\n    }\n    (void)dr_check(s->info.kind == dr_dag_node_kind_section);")]},
    {'name': 'push_back_section does not make the section active (sweep M0109)', 'expect': 'C18.5',
     'edits': [(INL, "      t->active_section = new_s;\n      (void)dr_check(dr_task_active_node(t) == t->active_section);\n      return new_s;", "      return new_s;")]},
    {'name': 'resumed task not made current (sweep M0125)', 'expect': 'C18.5',
     'edits': [(INL, "      (void)dr_check(rt->info.kind == dr_dag_node_kind_other);\n      /* set this worker's current task */\n      dr_set_cur_task_(wss, t);", "      (void)dr_check(rt->info.kind == dr_dag_node_kind_other);")]},
    {'name': 'successor edge targets the same child (sweep M0088)', 'expect': 'C18.4',
     'edits': [('src/profiler/dr_dump.c', "dr_pi_dag_node * t = dr_pi_dag_node_first(x + 1, G);", "dr_pi_dag_node * t = dr_pi_dag_node_first(x, G);")]},
    {'name': 'end edge overwritten by the next edge (sweep M0090)', 'expect': 'C18.4',
     'edits': [('src/profiler/dr_dump.c', "\t      dr_pi_dag_add_edge(e, E_lim, dr_dag_edge_kind_end, w - T, t - T);\n\t      e++;", "\t      dr_pi_dag_add_edge(e, E_lim, dr_dag_edge_kind_end, w - T, t - T);")]},
    {'name': 'edge table cleared for nw instead of nw + 1 workers (sweep M0009)', 'expect': 'C18.4',
     'edits': [('src/profiler/gen_stat.c', "    for (i = 0; i < nw + 1; i++) {\n      for (j = 0; j < nw + 1; j++) {\n\tEDGE_COUNTS(k,i,j) = 0;", "    for (i = 0; i < nw; i++) {\n      for (j = 0; j < nw + 1; j++) {\n\tEDGE_COUNTS(k,i,j) = 0;")]},
    {'name': 'report prints only the per-worker part of the edge table (seed2 C18/m2)', 'expect': 'C18.4',
     'edits': [('src/profiler/gen_stat.c', "    for (i = 0; i < nw + 1; i++) {\n      for (j = 0; j < nw + 1; j++) {\n\tlong c = EDGE_COUNTS(k,i,j);", "    for (i = 0; i < nw; i++) {\n      for (j = 0; j < nw; j++) {\n\tlong c = EDGE_COUNTS(k,i,j);")]},
    {'name': 'Cilk procedure start leaves the pending parent in place (seed2 C18/m1)', 'expect': 'C18.5',
     'edits': [(INL, "        dr_start_task__(wss->parent, file, line, worker);\n        wss->parent = 0;\n        return 1;", "        dr_start_task__(wss->parent, file, line, worker);\n        return 1;")]},
    {'name': 'interval after an other-interval has no start stamp (sweep M0124)', 'expect': 'C18.5',
     'edits': [(INL, "      /* record an interval just started */\n      dr_set_start_info(&t->info.start, wss->worker, file, line);\n    }\n  }\n\n  /* \n     called when a program ends a task", "    }\n  }\n\n  /* \n     called when a program ends a task")]},
    {'name': 'leaf initialiser clears the edge counts with the node-count bound (seed3 C18/m1)', 'expect': 'C18.3',
     'edits': [(INL, "    for (ek = 0; ek < dr_dag_edge_kind_max; ek++) {\n      dn->info.logical_edge_counts[ek] = 0;", "    for (ek = 0; ek < dr_dag_node_kind_section; ek++) {\n      dn->info.logical_edge_counts[ek] = 0;")]},
    {'name': 'edge counts of created tasks dropped', 'expect': 'C18.3',
     'edits': [(INL, "            for (k = 0; k < dr_dag_edge_kind_max; k++) {\n              s->info.logical_edge_counts[k] += c->info.logical_edge_counts[k];\n            }\n", "")]},
]
