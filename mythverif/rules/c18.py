"""C18 - DAG Recorder totals do not depend on how the DAG was contracted (partial, structural clauses only)."""
from .. import lib
from ..lib import (call_sites, same_value, describe, expr_str)
from ..ir import const_int

META = {
    'explanation': 'Only the structural necessary conditions of contraction-independence are decided: (1) who-may-write over all libdr '
                   'translation units: the summary fields t_1, t_inf, logical_node_counts[], logical_edge_counts[] of a DAG node are '
                   'stored only by dr_accumulate_stats and the leaf initialiser dr_end_interval_, never by the contraction code '
                   '(dr_collapse_subgraph, dr_prune_nodes*, dr_free_dag); (2) in dr_summarize_section_or_task the accumulation call '
                   'dominates every contraction call and nothing accumulates after a contraction; (3) in dr_accumulate_stats the set '
                   'of summary fields accumulated from a chain element equals the set accumulated from a created child task, t_1 and '
                   'the counts by addition, and t_inf is the one field combined with max over children.',
    'not_decided': 'every numerical claim: that the totals equal the sums over the uncontracted interval sequence, that t_inf <= t_1, '
                   'that contraction options do not change the report (values of run-time data; no sound static argument in reach)',
    'assumptions': ['instrumentation entry points are called in a well-nested way'],
    'technique': 'static analysis: who-may-write field rule + call dominance + sibling field-set agreement over LLVM IR',
}
INFO = 'dr_dag_node_info.'
SUMMARY = ['t_1', 't_inf', 'logical_node_counts', 'logical_edge_counts']
WRITERS = {'dr_accumulate_stats', 'dr_end_interval_'}
CONTRACT = ('dr_collapse_subgraph', 'dr_prune_nodes', 'dr_prune_nodes_norec', 'dr_free_dag')


def run(ctx):
    ctx.doc('C18.1', 'who-may-write: stores to dr_dag_node_info.{t_1,t_inf,logical_node_counts,logical_edge_counts} occur only in '
            'dr_accumulate_stats and dr_end_interval_ (all libdr TUs)')
    ctx.doc('C18.2', 'dr_summarize_section_or_task: dr_accumulate_stats(s) dominates every call of dr_collapse_subgraph / dr_prune_nodes, '
            'is applied to the node being summarised, and no accumulation is reachable from a contraction')
    ctx.doc('C18.3', 'dr_accumulate_stats: fields added from a chain element x = fields added from a created child c = {t_1, '
            'logical_node_counts, logical_edge_counts, ...}; t_inf: += along the chain, max(.., chain + child) for children')
    files = sorted(ctx.db['profiler'])
    ctx.prefetch([(f, 'vanilla', 'profiler') for f in files])
    ctx.unit = 'libdr'
    seen = set()
    nw = 0
    for file in files:
        m = ctx.ssa(file, area='profiler')
        if 'dr_dag_node_info' not in m.structs:
            continue
        for fn in m.functions.values():
            for st in fn.order:
                if st.op != 'store':
                    continue
                fld = fn.field(st)
                if fld.startswith(INFO) and fld[len(INFO):] in SUMMARY:
                    key = (fn.name, fld)
                    if key in seen:
                        continue
                    seen.add(key)
                    nw += 1
                    ctx.fn_analysed.add(fn.name)
                    ctx.ob('C18.1', '%s writes %s' % (fn.name, fld[len(INFO):]), fn.name in WRITERS,
                           'summary totals are produced only by the bottom-up accumulation and the leaf initialiser; contraction '
                           'code must not touch them (otherwise the report depends on the contraction options)', loc=st.loc)
            if fn.name in CONTRACT:
                for c in fn.calls():
                    if c.callee in WRITERS:
                        ctx.ob('C18.1', '%s calls %s' % (fn.name, c.callee), False, 'contraction code re-accumulates', loc=c.loc)
    ctx.ob('C18.1', 'summary writers enumerated', nw >= 8, 'stores to the four summary fields found in both writers', loc='src/profiler/dag_recorder_inl.h')
    ctx.floor('C18.1', 9)
    m = ctx.ssa('dag_recorder.c', area='profiler')
    f = ctx.need_fn(m, 'dr_summarize_section_or_task')
    acc = call_sites(f, 'dr_accumulate_stats')
    con = call_sites(f, CONTRACT)
    sp = f.param_named('s')
    ctx.ob('C18.2', 'one accumulation of the summarised node', len(acc) == 1 and same_value(f, acc[0].args[0], sp), 'dr_accumulate_stats(s)', loc=f.loc)
    ctx.ob('C18.2', 'contraction sites', len(con) >= 2, 'collapse and prune calls present', loc=f.loc)
    for c in con:
        ctx.ob('C18.2', 'accumulate before %s' % c.callee, any(f.dominates_f(a, c) for a in acc),
               'totals are taken from the uncontracted subgraph: accumulation precedes contraction on every path', loc=c.loc)
        sarg = [a for a in c.args if same_value(f, a, sp)]
        ctx.ob('C18.2', '%s applied to the same node' % c.callee, len(sarg) == 1, 'the node contracted is the node just summarised', loc=c.loc)
        ctx.ob('C18.2', 'no accumulation after %s' % c.callee, not [a for a in acc if a in f.reachable_from(c)],
               'nothing is accumulated from an already contracted subgraph', loc=c.loc)
    ctx.floor('C18.2', 8)
    a = ctx.need_fn(m, 'dr_accumulate_stats')
    s = a.param_named('s') or 'a0'
    # classify the source of each accumulating store to s->info.F: F(s) = F(s) (+|max) F(other)
    from_x, from_c = {}, {}
    for st in a.order:
        if st.op != 'store':
            continue
        fld = a.field(st)
        if not fld.startswith(INFO):
            continue
        ap = a.ap(st.ops[1])
        if not same_value(a, ap.root, s):
            continue
        name = fld[len(INFO):]
        # loads of the same field from other nodes feeding this store
        for k in deps(a, st.ops[0]):
            l = a.insts.get(k)
            if l is None or l.op != 'load' or a.field(l) != fld:
                continue
            r = a.ap(l.ops[0]).root
            if same_value(a, r, s):
                continue
            ri = a.get(a.strip(r)) if isinstance(r, str) else None
            kind = None
            # the created child task hangs off the chain element through the anonymous union member (x->child);
            # chain elements are the loop-carried head/next pointer
            if ri is not None and ri.op == 'load' and a.field(ri) == 'dr_dag_node.<anon>':
                kind = 'c'
            elif ri is not None and (ri.op == 'phi' or (ri.op == 'load' and a.field(ri) in ('dr_dag_node.next', 'dr_dag_node_list.head'))):
                kind = 'x'
            if kind:
                op = combine_op(a, st.ops[0])
                (from_c if kind == 'c' else from_x).setdefault(name, set()).add(op)
    for name in SUMMARY:
        ctx.ob('C18.3', '%s accumulated from chain elements' % name, name in from_x, 'serial composition', loc=a.loc, detail=str(from_x.get(name)))
        ctx.ob('C18.3', '%s accumulated from created children' % name, name in from_c, 'parallel composition', loc=a.loc, detail=str(from_c.get(name)))
    sx = set(k for k in from_x if k in SUMMARY + ['counters_1', 'cur_node_count', 'min_node_count', 't_ready'])
    sc = set(k for k in from_c if k in SUMMARY + ['counters_1', 'cur_node_count', 'min_node_count', 't_ready'])
    ctx.ob('C18.3', 'same field set from chain elements and from children', sx == sc and len(sx) >= 4,
           'whatever is summed over the intervals of a task is also summed over the tasks it creates', loc=a.loc,
           detail='chain %s / children %s' % (sorted(sx), sorted(sc)))
    for name in ('t_1', 'logical_node_counts', 'logical_edge_counts'):
        ctx.ob('C18.3', '%s combined by addition only' % name, from_x.get(name) == {'add'} and from_c.get(name) == {'add'},
               'work and counts are sums', loc=a.loc, detail='%s / %s' % (from_x.get(name), from_c.get(name)))
    ctx.ob('C18.3', 't_inf: sum along the chain, max over children', from_x.get('t_inf') == {'add'} and 'max' in (from_c.get('t_inf') or set()),
           'the critical path is the longest chain: children are combined with max', loc=a.loc,
           detail='%s / %s' % (from_x.get('t_inf'), from_c.get('t_inf')))
    # the loop-carried accumulator of the parallel part must itself be updated by max (a running maximum), never by +
    tinf_st = [st for st in a.stores_to(INFO + 't_inf') if same_value(a, a.ap(st.ops[1]).root, s) and const_int(st.ops[0]) is None]
    phis = set()
    for st in tinf_st:
        stack, seen = [st.ops[0]], set()
        while stack:
            r = stack.pop()
            if not isinstance(r, str) or r in seen:
                continue
            seen.add(r)
            i = a.insts.get(r)
            if i is None:
                continue
            if i.op == 'phi' and any(l['header'] == i.block.id for l in a.loops) and i.ty == 'i64':
                phis.add(i.id)
            if i.op == 'call' and i.callee in ('dr_max_clock', 'dr_max_count'):
                stack += list(i.args)
            elif i.op in ('phi',):
                stack += [v for v, b in i.d['incoming']]
            elif i.op in ('add', 'select', 'zext', 'sext'):
                stack += list(i.ops)
    kinds = {}
    for pid in phis:
        for u in a.users(pid):
            if u.op == 'call' and u.callee in ('dr_max_clock', 'dr_max_count'):
                kinds.setdefault(pid, set()).add('max')
            elif u.op in ('add', 'sub'):
                kinds.setdefault(pid, set()).add('add')
            elif u.op == 'select' or u.op == 'icmp':
                kinds.setdefault(pid, set()).add('max')
    ctx.ob('C18.3', 'running critical path over children is a running maximum', bool(phis) and all(k == {'max'} for k in kinds.values()) and bool(kinds),
           'the loop-carried candidate for the critical path is only ever combined with max (adding children\'s paths would make the '
           'critical path exceed the work)', loc=a.loc, detail=str(kinds))
    ctx.floor('C18.3', 12)


def deps(f, ref):
    """values the stored value is computed from: through arithmetic, phi/select, casts and the max helpers"""
    out, seen, st = set(), set(), [ref]
    while st:
        r = st.pop()
        if not isinstance(r, str) or r in seen:
            continue
        seen.add(r)
        i = f.insts.get(r)
        if i is None:
            out.add(r)
            continue
        if i.op == 'call' and i.callee in ('dr_max_clock', 'dr_max_count'):
            st += list(i.args)
        elif i.op == 'phi':
            st += [v for v, b in i.d['incoming']]
        elif i.op in ('add', 'sub', 'select', 'zext', 'sext', 'trunc'):
            st += list(i.ops)
        else:
            out.add(r)
    return out


def combine_op(f, ref):
    """'add' if the stored value is a sum; 'max' if it comes through dr_max_clock/dr_max_count or a select on a comparison"""
    seen = set()
    st = [ref]
    ops = set()
    while st:
        r = st.pop()
        if not isinstance(r, str) or r in seen:
            continue
        seen.add(r)
        i = f.insts.get(r)
        if i is None:
            continue
        if i.op == 'call' and i.callee in ('dr_max_clock', 'dr_max_count'):
            ops.add('max')
            st += [x for x in i.args]
        elif i.op == 'select':
            ops.add('max')
            st += list(i.ops[1:])
        elif i.op == 'add':
            ops.add('add')
            st += list(i.ops)
        elif i.op in ('phi',):
            st += [v for v, b in i.d['incoming']]
        elif i.op in ('zext', 'sext', 'trunc'):
            st.append(i.ops[0])
    return 'max' if 'max' in ops else ('add' if 'add' in ops else 'copy')


INL = 'src/profiler/dag_recorder_inl.h'
MUTANTS = [
    {'name': 'collapse zeroes the work of the collapsed node', 'expect': 'C18.1',
     'edits': [(INL, "    dr_free_dag(s, 0, fl);\n    s->info.cur_node_count = 1;", "    dr_free_dag(s, 0, fl);\n    s->info.t_1 = s->info.end.t - s->info.start.t;\n    s->info.cur_node_count = 1;")]},
    {'name': 'collapse before accumulate', 'expect': 'C18.2',
     'edits': [(INL, "    /* accumulate t_1, t_inf, number of nodes, etc. */\n    dr_accumulate_stats(s);\n", "    if (GS.opts.collapse_max_count) dr_collapse_subgraph(s, fl);\n    dr_accumulate_stats(s);\n")]},
    {'name': 'children\'s work not added', 'expect': 'C18.3',
     'edits': [(INL, "            s->info.t_1     += c->info.t_1;\n", "")]},
    {'name': 'critical path sums the children instead of max', 'expect': 'C18.3',
     'edits': [(INL, "            t_inf = dr_max_clock(s->info.t_inf + c->info.t_inf, t_inf);", "            t_inf = t_inf + c->info.t_inf;")]},
    {'name': 'edge counts of created tasks dropped', 'expect': 'C18.3',
     'edits': [(INL, "            for (k = 0; k < dr_dag_edge_kind_max; k++) {\n              s->info.logical_edge_counts[k] += c->info.logical_edge_counts[k];\n            }\n", "")]},
]
