"""C12 - stacks and thread records are never reused or released while in use."""
from .. import lib
from ..lib import (call_sites, switch_sites, same_value, describe, LockAnalysis, StaleAnalysis, affine, affine_str,
                   expr_str, is_load_of, null_tests)
from ..ir import const_int, EdgePoint
from ..frontend import AnalysisBroken

META = {
    'explanation': 'Release discipline obligations: (1) who-may-call: the stack release is reachable only from the '
                   'final-switch callbacks (which run on the next context\'s stack) and the record release only from '
                   'join/detach/finisher-if-detached/worker cleanup (call graph over all library TUs); (2) in the '
                   'callbacks the record is released only on the detached edge, after the stack release and after the '
                   'unlock; detach decides under the record\'s lock and releases only after FREE_READY2; (3) no worker-env '
                   'pointer obtained before a context switch (or a call that may switch) is used after it (stale-value '
                   'dataflow over every public entry point with callees inlined); (4) the custom-stack release undoes the '
                   'allocation arithmetic (affine forms: size word, offset and allocator size are one SSA value; '
                   'ptr - size + 16 inverts base + size - 16), default stacks are tagged 0, and alloc/free map a size to '
                   'its class by the same expression; (5) the size-class index is bounded by the free-list table.'
                   ' Fresh blocks of the size-class allocator are mapped with the class size (or carved from one page in class-size chunks pushed on the same class); the per-thread hint region ends at or below th->stack, i.e. below the two header words the release reads, and the initial stack pointer lies at or below the hint (C12.4).',
    'not_decided': 'timing of reuse and non-overlap of live stacks at run time; compiler-level caching of the TLS '
                   'worker rank across a migration',
    'assumptions': ['scheduler contexts never migrate between workers (named exemption of myth_sched_loop)',
                    'mmap returns fresh page-aligned memory'],
}
META['explanation'] += ' The finisher makes no access to its record after the unlock that follows FREE_READY2 (C12.2); a timed join reports busy only after an examined, unsuccessful try (C12.9).'

NATIVE = 'myth_if_native.c'
TH = 'myth_thread.'
STACK_FREE = 'free_myth_thread_struct_stack'
DESC_FREE = 'free_myth_thread_struct_desc'
ALLOWED_STACK_FREE = {'myth_entry_point_1', 'myth_entry_point_2'}
ALLOWED_DESC_FREE = {'myth_join_1', 'myth_detach_body', 'myth_entry_point_1', 'myth_entry_point_2', 'myth_cleanup_worker'}
FREE_LIST_NUM = 31


def flavours(ctx):
    return ['vanilla', 'ld', 'dl'] if ctx.tier == 'thorough' else ['vanilla']


RESULT_WRITERS = ('myth_create_ex_body', 'myth_create_1', 'myth_entry_point', 'myth_exit_body', 'myth_testcancel_body')


def rule1_who(ctx, fl):
    ctx.doc('C12.1', 'call graph over all TUs: free_myth_thread_struct_stack is called only from myth_entry_point_1/_2; '
            'free_myth_thread_struct_desc only from myth_join_1, myth_detach_body, myth_entry_point_1/_2 and '
            'myth_cleanup_worker; neither address is taken')
    files = sorted(ctx.db['src'][fl])
    ctx.prefetch([(f, fl, 'src') for f in files])
    seen = {STACK_FREE: set(), DESC_FREE: set()}
    locs = {}
    taken = []
    from ..ir import iter_refs
    for file in files:
        m = ctx.ssa(file, fl)
        for fn in m.functions.values():
            for ins in fn.order:
                if ins.op == 'call' and ins.callee in seen:
                    seen[ins.callee].add(fn.name)
                    locs[(ins.callee, fn.name)] = ins.loc
                # address taken?
                txt = str(ins.d.get('args', '')) + str(ins.d.get('ops', ''))
                for nm in (STACK_FREE, DESC_FREE):
                    if ("'fn': '%s'" % nm) in txt:
                        taken.append((nm, ins.loc))
    for callee, allowed in ((STACK_FREE, ALLOWED_STACK_FREE), (DESC_FREE, ALLOWED_DESC_FREE)):
        if not seen[callee]:
            raise AnalysisBroken('no call site of %s found' % callee)
        for caller in sorted(seen[callee]):
            ok = caller in allowed
            ctx.ob('C12.1', '%s called from %s' % (callee, caller), ok,
                   '%s may be released only from %s' % ('the stack' if callee == STACK_FREE else 'the record', sorted(allowed)),
                   loc=locs[(callee, caller)])
    ctx.ob('C12.1', 'release functions not address-taken', not taken, 'the release functions are only called directly',
           loc=(taken[0][1] if taken else ''))
    # the exit value in the record is written only on behalf of the thread itself: at creation (the argument is parked there), by
    # the entry trampolines with the function's result, and by exit / testcancel of the calling thread.  A writer that acts on another
    # thread's record (a cancel requester, a joiner) can overwrite the value of a thread that has finished but is not yet reaped.
    writers = {}
    for file in files:
        m = ctx.ssa(file, fl)
        for fn in m.functions.values():
            for st in fn.order:
                if st.op == 'store' and fn.field(st) == TH + 'result':
                    writers.setdefault(fn.name, st.loc)
    for wname, wloc in sorted(writers.items()):
        ctx.ob('C12.1', 'exit value written by %s' % wname, wname in RESULT_WRITERS,
               'the record\'s result field is written only by %s' % sorted(RESULT_WRITERS), loc=wloc)
    ctx.ob('C12.1', 'writers of the exit value enumerated', len(writers) >= 4, 'stores to myth_thread.result found', loc='src/myth_sched_func.h')
    ctx.floor('C12.1', 12)


STOPS2 = ('myth_queue_push', 'myth_queue_pop', DESC_FREE, STACK_FREE, 'myth_get_current_env_noinline', 'myth_tls_tree_fini') + lib.SPIN_STOPS


def rule2_order(ctx, v):
    ctx.doc('C12.2', 'myth_entry_point_1/_2: stack release first (callback arg2 = finished thread), record release only on '
            'the detached edge, after the unlock; myth_detach_body: detached is set with th->lock held on the '
            'not-finished edge, the record is released only after a volatile observation of FREE_READY2')
    for cbn in ('myth_entry_point_1', 'myth_entry_point_2'):
        c = ctx.need_fn(v, cbn)
        sf = call_sites(c, STACK_FREE)
        df = call_sites(c, DESC_FREE)
        ctx.ob('C12.2', cbn + ': releases the stack once', len(sf) == 1 and not c.in_loop(sf[0]) and
               same_value(c, sf[0].args[1], 'a1') and c.always_passes(c.entry_inst(), sf),
               'the finished thread\'s stack is released exactly once on every path', loc=c.loc)
        uns = call_sites(c, lib.SPIN_UNLOCK)
        dl = [l for l in c.loads_of(TH + 'detached')]
        for d in df:
            ctx.ob('C12.2', cbn + ': record release is of the finished thread', same_value(c, d.args[1], 'a1'),
                   'the record released is callback arg2', loc=d.loc)
            from .c01 import truthy_conds
            okd = any(c.on_edge(cond, pol, d) for l in dl for cond, pol in truthy_conds(c, l.id))
            ctx.ob('C12.2', cbn + ': record released only if detached', okd,
                   'the finisher releases its own record only on the detached edge (a joinable record is kept for the joiner)',
                   loc=d.loc)
            ctx.ob('C12.2', cbn + ': record released after the stack', any(c.dominates_f(s, d) for s in sf),
                   'the stack is returned before the record that points to it', loc=d.loc)
            ctx.ob('C12.2', cbn + ': record released after unlock', any(c.dominates_f(u, d) for u in uns),
                   'the lock inside the record is released before the record is recycled', loc=d.loc)
            late = [i for i in c.reachable_from(d) if i.op in ('load', 'store') and
                    c.sources(c.ap(i.ptr).root) == c.sources('a1') and c.ap(i.ptr).fields]
            ctx.ob('C12.2', cbn + ': no access to the record after releasing it', not late,
                   'nothing touches the finished thread\'s record after it was recycled', loc=(late[0].loc if late else d.loc))
        ctx.ob('C12.2', cbn + ': at most one record release', len(df) == 1, 'single record release site', loc=c.loc)
        # joinable edge: the store status = FREE_READY2 hands the record to the joiner, which recycles it without taking the
        # lock again; the unlock right behind the store is the last access the finisher may make (hand mutant r6)
        pub = [st for st in c.stores_to(TH + 'status') if c.sources(c.ap(st.ops[1]).root) == c.sources('a1')]
        ctx.ob('C12.2', cbn + ': publishes FREE_READY2', bool(pub), 'the joinable edge stores the final status', loc=c.loc)
        for st in pub:
            lastu = [u for u in uns if u in c.reachable_from(st)]
            after = [i for u in lastu for i in c.reachable_from(u) if i.op in ('load', 'store') and
                     c.sources(c.ap(i.ptr).root) == c.sources('a1') and c.ap(i.ptr).fields]
            # accesses reachable from the store that precede the unlock are checked by C01.6 (status before unlock)
            ctx.ob('C12.2', cbn + ': the record is not touched after it was handed to the joiner', bool(lastu) and not after,
                   'once FREE_READY2 is visible and the lock released a joiner on another worker may recycle the record and a new '
                   'thread may own it: a late read or write by the finisher lands in that thread', loc=(after[0].loc if after else st.loc))
    d = ctx.need_fn(v, 'myth_detach_body')
    la = LockAnalysis(d)
    keys = la.keys_matching(TH + 'lock')
    sts = d.stores_to(TH + 'detached')
    ctx.ob('C12.2', 'myth_detach_body: sets detached', len(sts) == 1 and const_int(sts[0].ops[0]) == 1, 'detach marks the record',
           loc=d.loc)
    for s in sts:
        ctx.ob('C12.2', 'myth_detach_body: detached set under lock', bool(keys) and la.held_must(s, keys[0]),
               'the flag is written with th->lock held (the finisher reads it under the same lock)', loc=s.loc)
        fin = [(l, ic) for l in d.loads_of(TH + 'status') for ic in d.users(l.id)
               if ic.op == 'icmp' and ic.pred in ('sge', 'uge', 'sgt', 'ugt')]
        okf = any(d.on_edge(ic.id, False, s) and la.held_must(l, keys[0]) for l, ic in fin) if keys else False
        ctx.ob('C12.2', 'myth_detach_body: detached set only if not finished', okf,
               'the flag is set only on the not-finished edge of a test made under the lock', loc=s.loc)
    from .c01 import after_ready2
    for fr in call_sites(d, DESC_FREE):
        ctx.ob('C12.2', 'myth_detach_body: release only after FREE_READY2', after_ready2(d, 'a0', fr),
               'detach of a finished thread releases the record only after FREE_READY2 was observed', loc=fr.loc)
        ctx.ob('C12.2', 'myth_detach_body: releases th', same_value(d, fr.args[1], 'a0'), 'the record released is th', loc=fr.loc)
    for r in d.exits():
        ctx.ob('C12.2', 'myth_detach_body: unlocked at return', not la.held_may(r), 'no lock held at return', loc=r.loc)
    ctx.floor('C12.2', 22)


ENV_TY = '%struct.myth_running_env*'
SCHED_EXEMPT = {'myth_sched_loop': 'a scheduler context never migrates between workers; its env is its own worker for life',
                'myth_worker_thread_fn': 'runs on the worker\'s own OS thread (contains the inlined scheduler loop)',
                'myth_worker_start_ex_body': 'runs on the worker\'s own OS thread (contains the inlined scheduler loop)'}


def user_callback(f, c):
    """indirect call of application code (start function, once routine, TLS destructor, decision callback):
    it may block or yield, i.e. switch; function pointers loaded from library globals (steal function,
    real_* symbols) are library code and do not"""
    if 'callee_ref' not in c.d or c.asm is not None:
        return False
    srcs = f.sources(c.d['callee_ref'])
    if not srcs:
        return False
    for k in srcs:
        ins = f.insts.get(k) if not k.startswith('{') else None
        if ins is None:
            if k.startswith('{'):
                return False
            continue  # parameter
        if ins.op == 'load' and f.ap(ins.ops[0]).fields:
            continue  # function pointer kept in a struct field (entry_func, destructor table)
        return False
    return True


def rule3_env(ctx, fl, rule='C12.3', only=None, units=None):
    ctx.doc(rule, 'stale-value dataflow: in every public entry point (callees inlined) no value of type '
            'myth_running_env* (or pointer derived from one) computed before a swap-type context switch, or before a '
            'call to a function that may switch, is used after it; the env must be re-obtained')
    units = units or [(NATIVE, None), ('myth_worker.c', None), ('myth_init.c', None), ('myth_sched.c', None), ('myth_sync.c', None)]
    total_sites = 0
    for file, _ in units:
        raw = ctx.ssa(file, fl)
        taken = set()
        for f_ in raw.functions.values():
            for ins in f_.order:
                for a in list(ins.d.get('args', [])) + list(ins.d.get('ops', [])):
                    if isinstance(a, dict) and 'fn' in a:
                        taken.add(a['fn'])
        roots = [n for n, f in raw.functions.items() if not f.internal] + \
                [n for n, f in raw.functions.items() if 'noinline' in f.attrs and f.internal] + \
                [n for n in sorted(taken) if n in raw.functions and raw.functions[n].internal and
                 'noinline' not in raw.functions[n].attrs]
        if not roots:
            continue
        v = ctx.view(file, roots=roots, stops=(), flavour=fl)
        # may-switch summary over every function left in the view (roots and functions that could not be inlined,
        # e.g. recursive ones): contains a swap-type switch, calls application code, or calls such a function
        may = set()
        for n, f in v.functions.items():
            if any(s.is_swap for s in switch_sites(f)) or any(user_callback(f, c) for c in f.calls()):
                may.add(n)
        changed = True
        while changed:
            changed = False
            for n, f in v.functions.items():
                if n in may:
                    continue
                if any(c.callee in may for c in f.calls()):
                    may.add(n)
                    changed = True
        for n in sorted(roots):
            f = v.fn(n)
            if f is None:
                continue
            events = [s.ins for s in switch_sites(f) if s.is_swap] + [c for c in f.calls() if c.callee in may] + \
                     [c for c in f.calls() if user_callback(f, c)]
            if not events:
                continue
            if only is not None and n not in only:
                continue
            ctx.fn_analysed.add(n)
            total_sites += len(events)
            if n in SCHED_EXEMPT:
                ctx.ob(rule, '%s: exempt (scheduler)' % n, True, 'exempt: ' + SCHED_EXEMPT[n], loc=f.loc)
                continue

            def tracked(x, f=f):
                # pointers that denote *the executing worker's* env: the inline getter &g_envs[g_worker_rank],
                # getter calls, th->env loads and env parameters.  &g_envs[victim] names a fixed worker and
                # does not go stale by migrating.
                if isinstance(x, dict):
                    return x.get('ty') == ENV_TY
                if x.ty != ENV_TY:
                    return False
                if x.op == 'load' and isinstance(x.ops[0], dict) and x.ops[0].get('g') == 'g_envs':
                    return False  # base of the env array, not a particular worker
                if x.op in ('call', 'load'):
                    return True
                if x.op == 'getelementptr':
                    from .c02 import rank_index
                    path = x.d['path']
                    return len(path) == 1 and 'p' in path[0] and rank_index(f, path[0]['p'])
                return False
            sa = StaleAnalysis(f, tracked, events)
            uses = [(i, r) for i, r in sa.stale_uses]
            ctx.ob(rule, '%s: env re-obtained after switching' % n, not uses,
                   'no worker-env pointer obtained before a context switch is used after it (the thread may have '
                   'migrated; using the old env corrupts another worker\'s unsynchronised free lists / run queue)',
                   loc=(uses[0][0].loc if uses else f.loc),
                   detail='' if not uses else 'stale %s used at %s' % (describe(f, uses[0][1]), [u[0].loc for u in uses[:6]]))
    if total_sites < (10 if only is None else 1):
        raise AnalysisBroken('only %d switch/may-switch sites found by C12.3' % total_sites)
    ctx.floor(rule, 20 if only is None else max(1, len(only) - 3))


def rule4_affine(ctx, v):
    ctx.doc('C12.4', 'custom stack: pointer returned = flmalloc(rank, S) + S - 16, word at +8 = S, with the three S one SSA '
            'value; release reads W = word at +8 and frees ptr - W + 16 with size W; default stacks store 0 at +8 and '
            'return to the stack free list; myth_flmalloc and myth_flfree compute the class index by the same expression')
    g = ctx.need_fn(v, 'get_new_myth_thread_struct_stack')
    fm = call_sites(g, 'myth_flmalloc')
    ctx.ob('C12.4', 'alloc: one flmalloc', len(fm) == 1, 'custom stacks come from myth_flmalloc', loc=g.loc)
    size_p = g.param_named('size_in_bytes') or 'a1'
    for val, anchor in lib.ret_cases(g):
        a = affine(g, val)
        if fm and fm[0].id in a:
            S = fm[0].args[1]
            aS = affine(g, S)
            rest = {k: c for k, c in a.items() if k != fm[0].id}
            want = dict(aS)
            want[''] = want.get('', 0) - 16
            want = {k: c for k, c in want.items() if c != 0 or k == ''}
            rest = {k: c for k, c in rest.items() if c != 0 or k == ''}
            ok = a.get(fm[0].id) == 1 and rest == want
            ctx.ob('C12.4', 'alloc: returns base + S - 16', ok,
                   'the custom stack pointer is block base + allocated size - 16', loc=anchor.loc,
                   detail='returned %s ; allocated size %s' % (affine_str(a), affine_str(aS)))
            # size word
            words = [st for st in g.order if st.op == 'store' and fm[0].id in affine(g, st.ops[1])]
            okw = False
            for st in words:
                ap = affine(g, st.ops[1])
                delta = {k: ap.get(k, 0) - a.get(k, 0) for k in set(ap) | set(a)}
                delta = {k: c for k, c in delta.items() if c != 0}
                if delta == {'': 8} and affine(g, st.ops[0]) == aS:
                    okw = True
            ctx.ob('C12.4', 'alloc: size word at +8 equals allocated size', okw,
                   'the word at returned+8 holds exactly the size handed to the allocator (the release trusts it)',
                   loc=(words[0].loc if words else anchor.loc),
                   detail='stores: %s' % [(affine_str(affine(g, s.ops[1])), affine_str(affine(g, s.ops[0]))) for s in words])
            okr = g.derives_from(S, lambda x: x == size_p)
            ctx.ob('C12.4', 'alloc: size derives from the request', okr, 'allocated size derives from size_in_bytes', loc=fm[0].loc)
    # rounded size is a multiple of 4096 and >= request: (x + 0xFFF) & ~0xFFF
    if fm:
        S = fm[0].args[1]
        ins = g.get(g.strip(S))
        okround = ins is not None and ins.op == 'and' and const_int(ins.ops[1]) == -4096 and \
            affine(g, ins.ops[0]) == {size_p: 1, '': 4095}
        ctx.ob('C12.4', 'alloc: size rounded up to a page multiple', okround,
               'allocated size = (request + 0xFFF) & ~0xFFF (never smaller than the request)', loc=fm[0].loc,
               detail=expr_str(g, S))
    # default stacks: marker 0 at +8 for every stack carved from a fresh chunk
    mm = call_sites(g, 'myth_mmap')
    zero = [st for st in g.order if st.op == 'store' and const_int(st.ops[0]) == 0]

    def tagged(ptr_aff, at=None):
        for st in zero:
            ap = affine(g, st.ops[1])
            d = {k: ap.get(k, 0) - ptr_aff.get(k, 0) for k in set(ap) | set(ptr_aff)}
            if {k: c for k, c in d.items() if c != 0} == {'': 8} and (at is None or g.dominates_f(st, at)):
                return True
        return False
    nfresh = 0
    fresh_cases = []
    for val, anchor in lib.ret_cases(g):
        for k in (g.sources(val, through_gep0=False) if isinstance(val, str) else []):
            a = affine(g, k)
            if any(m.id in a for m in mm):
                # the point where the fresh pointer enters the returned value: the phi edge that carries it
                edges = [EdgePoint(g, b, ph.block.id) for ph in g.order if ph.op == 'phi'
                         for vv, b in ph.d['incoming'] if vv == k and len(ph.d['incoming']) > 1]
                for e in (edges or [anchor]):
                    fresh_cases.append((a, e))
    for a, anchor in fresh_cases:
        if True:
            nfresh += 1
            ctx.ob('C12.4', 'alloc: fresh default stack tagged 0 at +8', tagged(a, anchor),
                   'a default-size stack returned from a fresh chunk has size word 0 (= "return me to the stack free '
                   'list") written before it is handed out', loc=anchor.loc, detail=affine_str(a))
    for p in call_sites(g, 'myth_freelist_push'):
        ctx.ob('C12.4', 'alloc: spare default stack tagged 0 at +8', tagged(affine(g, p.args[1]), p),
               'every spare stack carved from the chunk is tagged before it enters the free list', loc=p.loc)
    ctx.ob('C12.4', 'alloc: fresh default path present', nfresh >= 1, 'the default path allocates by mmap', loc=g.loc)
    pops = call_sites(g, 'myth_freelist_pop')
    for m in mm:
        ctx.ob('C12.4', 'alloc: free list consulted before mmap', any(lib.guarded_by_null(g, p.id, m) for p in pops),
               'a fresh chunk is mapped only when the worker\'s stack free list was empty (recycling)', loc=m.loc)
    f = ctx.need_fn(v, STACK_FREE)
    ff = call_sites(f, 'myth_flfree')
    ctx.ob('C12.4', 'free: one flfree', len(ff) == 1, 'custom stacks go back through myth_flfree', loc=f.loc)
    stack_loads = [l for l in f.loads_of(TH + 'stack')]
    for c in ff:
        W = c.args[1]
        wl = [f.insts[k] for k in f.sources(W) if k in f.insts]
        okw = len(wl) == 1 and wl[0].op == 'load'
        if okw:
            addr = affine(f, wl[0].ops[0])
            base_terms = [k for k in addr if k != '']
            okw = len(base_terms) == 1 and addr.get('', 0) == 8 and is_load_of(f, base_terms[0], TH + 'stack')
        ctx.ob('C12.4', 'free: size read from stack+8', okw, 'the size handed to flfree is the word at th->stack + 8', loc=c.loc)
        ap = affine(f, c.args[2])
        terms = {k: cf for k, cf in ap.items() if k != ''}
        stack_t = [k for k in terms if is_load_of(f, k, TH + 'stack')]
        size_t = [k for k in terms if k not in stack_t]
        ok = len(stack_t) == 1 and terms[stack_t[0]] == 1 and len(size_t) == 1 and terms[size_t[0]] == -1 and \
            ap.get('', 0) == 16 and okw and size_t[0] == wl[0].id
        ctx.ob('C12.4', 'free: block start = stack - W + 16', ok,
               'the block handed back is th->stack - size + 16, the inverse of base + size - 16', loc=c.loc,
               detail=affine_str(ap))
        # taken only when the word is non-zero
        if wl:
            okg = any(f.on_edge(ic.id, ic.pred == 'ne', c) for ic in f.users(wl[0].id)
                      if ic.op == 'icmp' and ic.pred in ('eq', 'ne') and const_int(ic.ops[1]) == 0)
            ctx.ob('C12.4', 'free: flfree only for tagged custom stacks', okg, 'flfree is reached only when the size word is non-zero',
                   loc=c.loc)
    fp = call_sites(f, 'myth_freelist_push')
    for p in fp:
        ok = lib.arg_is_field_of(f, p.args[0], 'myth_running_env.freelist_stack') and is_load_of(f, p.args[1], TH + 'stack')
        ctx.ob('C12.4', 'free: default stack returns to the stack free list', ok,
               'a default stack (word 0) is pushed, by its own address, on the releasing worker\'s stack free list', loc=p.loc)
    # a thread that has a stack gives it back: from the non-NULL edge of the th->stack test every path to the return passes one
    # of the two release calls, and nothing is released for a thread without a stack (the main thread)
    rel = ff + fp
    nts = [t_ for l in stack_loads for t_ in null_tests(f, l.id)]
    ctx.ob('C12.4', 'free: tests whether the thread has a stack', bool(nts), 'if (th->stack)', loc=f.loc)
    if nts and rel:
        ok_all = all(not [r for r in f.reachable_from(lib.first_inst(f, nn), blocked=rel, include_start=True) if r.op == 'ret']
                     for br, nn, nl in nts)
        ok_none = all(not [x for x in f.reachable_from(lib.first_inst(f, nl), include_start=True) if x in rel] for br, nn, nl in nts)
        ctx.ob('C12.4', 'free: every stack is handed back, and only an existing one', ok_all and ok_none,
               'reaping makes the stack available for reuse (create/reap cycles run in bounded memory); a NULL stack is not pushed on '
               'the free list', loc=nts[0][0].loc)
    # page rounding: (x + 4095) & ~4095 - the added constant and the mask belong together (a smaller addend maps a page too few
    # for sizes that are not page multiples, and the top of the stack then lies in the neighbour)
    nround = 0
    for an in g.order:
        if an.op == 'and' and const_int(an.ops[1]) is not None and const_int(an.ops[1]) in (-4096, (1 << 64) - 4096):
            nround += 1
            src = g.get(g.strip(an.ops[0])) if isinstance(an.ops[0], str) else None
            okr = src is not None and src.op == 'add' and const_int(src.ops[1]) == 4095
            ctx.ob('C12.4', 'alloc: page mask follows a round-up by page size - 1', okr,
                   '(size + 0xFFF) & ~0xFFF', loc=an.loc, detail=expr_str(g, an.ops[0])[:120])
    ctx.ob('C12.4', 'alloc: page-rounding sites', nround >= 2, 'custom and default branch', loc=g.loc, detail=str(nround))
    # class index agreement
    a = ctx.need_fn(v, 'myth_flmalloc')
    b = ctx.need_fn(v, 'myth_flfree')

    def idx_expr(fn, callee):
        out = []
        for c in call_sites(fn, callee):
            ap = fn.ap(c.args[0])
            idx = [s for s in ap.steps if s[0] in ('i', 'p') and not isinstance(s[1], int)]
            # the freelist cell is g_myth_freelist[idx]
            g_ = fn.get(fn.strip(c.args[0]))
            if g_ is not None and g_.op == 'getelementptr':
                for st in g_.d['path']:
                    for kk in ('p', 'i'):
                        if kk in st and isinstance(st[kk], str):
                            out.append((c, st[kk]))
        return out
    ia = idx_expr(a, 'myth_freelist_pop')
    ib = idx_expr(b, 'myth_freelist_push')
    ctx.ob('C12.4', 'class index sites', len(ia) >= 1 and len(ib) >= 1, 'flmalloc pops and flfree pushes an indexed free list',
           loc=a.loc)
    if ia and ib:
        ea = expr_str(a, ia[0][1])
        eb = expr_str(b, ib[0][1])
        ctx.ob('C12.4', 'alloc and free use the same size class expression', ea == eb,
               'myth_flmalloc and myth_flfree map a size to its free-list index by the identical expression', loc=ib[0][0].loc,
               detail='flmalloc: %s ; flfree: %s' % (ea, eb))
        for fn, lst in ((a, ia), (b, ib)):
            for c, idx in lst:
                ok = index_bounded(fn, idx, c, FREE_LIST_NUM)
                ctx.ob('C12.5', '%s: freelist index bound' % fn.name, ok,
                       'the size-class index used to address the %d-entry free-list table is proven < %d' %
                       (FREE_LIST_NUM, FREE_LIST_NUM), loc=c.loc,
                       detail='' if ok else 'index = %s ranges over [0,32] (32 - clz of a 32-bit truncation); sizes above '
                       '2^30 index past the table' % expr_str(fn, idx))
    # the class a size is filed under is large enough for it: 1 << index(size) >= size, constant-folded on a grid of sizes that
    # includes non-powers of two (a class index rounded down hands a 12 KiB request an 8 KiB block)
    from ..ir import iter_refs
    for fn, lst in ((a, ia), (b, ib)):
        for c, idx_ in lst[:1]:
            leaves, seen_, work = [], set(), [idx_]
            while work:
                r_ = work.pop()
                i_ = fn.get(r_) if isinstance(r_, str) else None
                if i_ is None:
                    if isinstance(r_, str) and r_.startswith('a'):
                        leaves.append(r_)
                    continue
                if i_.id in seen_:
                    continue
                seen_.add(i_.id)
                if i_.op == 'phi' and len(i_.d['incoming']) > 1:
                    leaves.append(i_.id)
                    continue
                work += list(iter_refs(i_.d))
            leaves = sorted(set(leaves))
            bad, n_ev = [], 0
            if len(leaves) == 1:
                for S in (8, 9, 16, 17, 100, 4095, 4096, 4097, 8192, 8193, 12288, 16384, 20480, 65536, 65537, 131072, 1 << 20, (1 << 20) + 4096):
                    k = lib.eval_expr(fn, idx_, {leaves[0]: S})
                    if k is None:
                        continue
                    n_ev += 1
                    if not (0 <= k < 64 and (1 << k) >= S):
                        bad.append((S, k))
            if len(leaves) == 1 and n_ev >= 10:
                ctx.ob('C12.4', '%s: the size class covers the size' % fn.name, not bad,
                       '1 << index(size) >= size for every size', loc=c.loc,
                       detail='%d sizes evaluated; (size, index) not covered: %s' % (n_ev, bad[:4]))
            else:
                ctx.note('C12.4: size-class index of %s is not a foldable function of one size value; capacity not decided' % fn.name)
    # every block that enters size class idx has the capacity of the class (1 << idx): flfree files a block under the class of
    # the size it is told, and the next user of that class may be given any size up to the class size
    if ia:
        idx = ia[0][1]
        maps = call_sites(a, 'myth_mmap')
        ctx.ob('C12.4', 'flmalloc: fresh blocks come from myth_mmap', len(maps) >= 1, 'allocation sites found', loc=a.loc)
        pops_ = [c for c, _i in ia]
        for mc in maps:
            ctx.ob('C12.4', 'flmalloc: a fresh block is mapped only when the class free list is empty', bool(pops_) and
                   any(lib.guarded_by_null(a, p_.id, mc) for p_ in pops_), 'if (!ptr) allocate', loc=mc.loc)
        for val, anchor in lib.ret_cases(a):
            if isinstance(val, str):
                srcs = set(k for k in a.sources(val) if not k.startswith('{'))
                ctx.ob('C12.4', 'flmalloc: returns the recycled block or the fresh one', bool(srcs) and
                       srcs <= set([p_.id for p_ in pops_] + [m_.id for m_ in maps]), 'ptr', loc=anchor.loc)

        def class_size(ref):
            i = a.get(a.strip(ref)) if isinstance(ref, str) else None
            return i is not None and i.op == 'shl' and const_int(i.ops[0]) == 1 and lib.same_expr(a, i.ops[1], idx)
        for mc in maps:
            L = mc.args[1]
            if class_size(L):
                ctx.ob('C12.4', 'flmalloc: block mapped with the class size', True, 'mmap length = 1 << idx', loc=mc.loc)
                continue
            P = const_int(L)
            ok = False
            detail = expr_str(a, L)
            if P is not None:
                # one page carved into class-size chunks: only where the class size is below the page size
                g = [ic for ic in a.order if ic.op == 'icmp' and ic.pred in ('ult', 'slt') and class_size(ic.ops[0]) and const_int(ic.ops[1]) == P]
                okg = any(a.edge_dominates(br.block.id, br.d['t'], mc) for ic in g for br in a.users(ic.id) if br.op == 'br' and 'cond' in br.d)
                pushes = [c for c in call_sites(a, 'myth_freelist_push') if a.dominates_f(mc, c)]
                okp = bool(pushes)
                for c in pushes:
                    ph = a.get(a.strip(c.args[1])) if isinstance(c.args[1], str) else None
                    okc = ph is not None and ph.op == 'phi' and len(ph.d['incoming']) == 2
                    if okc:
                        for val, b_ in ph.d['incoming']:
                            gi = a.get(a.strip(val)) if isinstance(val, str) else None
                            okc = okc and gi is not None and gi.op == 'getelementptr' and gi.d.get('srcty') == 'i8' and \
                                len(gi.d['path']) == 1 and class_size(gi.d['path'][0].get('p')) and \
                                (a.strip(gi.d['base']) in (mc.id, ph.id))
                        lim = [ic for ic in a.order if ic.op == 'icmp' and ic.pred == 'ult' and a.strip(ic.ops[0]) == ph.id and
                               lib.affine_diff(a, ic.ops[1], mc.id) == {'': P}]
                        okc = okc and bool(lim) and any(a.edge_dominates(br.block.id, br.d['t'], c) for ic in lim for br in a.users(ic.id)
                                                        if br.op == 'br' and 'cond' in br.d)
                        okc = okc and lib.same_expr(a, [s_ for s_ in a.ap(c.args[0]).steps if s_[0] in ('p', 'i')][-1][1], idx)
                    okp = okp and okc
                ok = okg and okp
                detail = 'page of %d bytes; guard class size < page: %s; chunks of the class size pushed on the same class: %s' % (P, okg, okp)
            ctx.ob('C12.4', 'flmalloc: block mapped with the class size', ok,
                   'a block shorter than its class is later handed to a request of up to the class size and overlaps its neighbour',
                   loc=mc.loc, detail=detail)
    ctx.floor('C12.4', 14)
    ctx.floor('C12.5', 2)


def roundup_term(f, key, n, q=16):
    """the affine term `key` is n rounded up to a multiple of q: ((n + q-1) >> k) << k or (n + q-1) & ~(q-1)"""
    i = f.insts.get(key)
    if i is None:
        return False
    k = q.bit_length() - 1
    inner = None
    if i.op == 'shl' and const_int(i.ops[1]) == k:
        j = f.get(f.strip(i.ops[0])) if isinstance(i.ops[0], str) else None
        if j is not None and j.op in ('lshr', 'ashr') and const_int(j.ops[1]) == k:
            inner = j.ops[0]
    elif i.op == 'and' and const_int(i.ops[1]) in (-q, (1 << 64) - q):
        inner = i.ops[0]
    if inner is None:
        return False
    d = lib.affine_diff(f, inner, n)
    return d == {'': q - 1}


def shifted_term(f, key, n, q=16):
    """`key` is (n + q-1) >> log2(q): q times it is n rounded up to a multiple of q (affine() folds the << into the coefficient)"""
    i = f.insts.get(key)
    return i is not None and i.op in ('lshr', 'ashr') and const_int(i.ops[1]) == q.bit_length() - 1 and \
        lib.affine_diff(f, i.ops[0], n) == {'': q - 1}


def rule4_custom_data(ctx, v3):
    """the per-thread hint (attr.custom_data) lives strictly below the two header words at th->stack, the initial stack
    pointer strictly below the hint"""
    f = ctx.need_fn(v3, 'myth_create_ex_body')
    stks = call_sites(f, 'get_new_myth_thread_struct_stack')
    ctx.ob('C12.4', 'create: one stack allocation', len(stks) == 1, 'stk = get_new_myth_thread_struct_stack(env, size)', loc=f.loc)
    if len(stks) != 1:
        return
    stk = stks[0].id
    ss = [st for st in f.stores_to(TH + 'stack')]
    ctx.ob('C12.4', 'create: th->stack is the pointer the stack allocation returned', len(ss) >= 1 and
           all(f.strip(st.ops[0]) == stk for st in ss),
           'the release reads the block header through th->stack: it must be the unmodified result of the allocation, not the '
           'pointer after room for the hint was carved off', loc=(ss[0].loc if ss else f.loc),
           detail='; '.join(expr_str(f, st.ops[0])[:80] for st in ss if f.strip(st.ops[0]) != stk))
    cps = [c for c in f.calls() if (c.callee or '').startswith('llvm.memcpy') and
           any(k in f.insts and f.insts[k].op == 'load' and f.field(f.insts[k]) == 'myth_thread_attr.custom_data' for k in f.sources(c.args[1]))]
    ctx.ob('C12.4', 'create: hint copied once', len(cps) == 1, 'memcpy(dest, attr->custom_data, attr->custom_data_size)', loc=f.loc)
    for c in cps:
        n = c.args[2]
        d = lib.affine_diff(f, c.args[0], stk)
        terms = [k for k in d if k != '']
        okr = len(terms) == 1 and ((d[terms[0]] == -1 and (roundup_term(f, terms[0], n) or not lib.affine_diff(f, terms[0], n))) or
                                   (d[terms[0]] == -16 and shifted_term(f, terms[0], n, 16)))
        ctx.ob('C12.4', 'create: hint region ends at or below th->stack', okr and d.get('', 0) <= 0,
               'dest = stack - roundup(size) - c with c >= 0: the words at stack[0..1] (free-list link and block size, read when '
               'the stack is released) are not part of the hint region', loc=c.loc, detail=expr_str(f, c.args[0]))
        ptrs = [st for st in f.stores_to(TH + 'custom_data_ptr')]
        ctx.ob('C12.4', 'create: custom_data_ptr is the copied region', len(ptrs) == 1 and not lib.affine_diff(f, ptrs[0].ops[0], c.args[0]),
               'the pointer handed to the thread is where the hint was copied', loc=c.loc)
        # initial stack pointer on this path
        mks = [x for x in f.calls() if (x.callee or '').startswith('myth_make_context')]
        ctx.ob('C12.4', 'create: context construction sites', len(mks) >= 2, 'child-first and parent-first initial contexts', loc=f.loc)
        for mk in mks:
            sp = [a_ for a_ in mk.args if isinstance(a_, str) and stk in f.sources(a_, through_arith=True)]
            oks = False
            for a_ in sp[:1]:
                pi = f.get(f.strip(a_))
                vals = [v_ for v_, b_ in pi.d['incoming']] if pi is not None and pi.op == 'phi' else [a_]
                below = [v_ for v_ in vals if lib.affine_diff(f, v_, stk)]
                oks = bool(below) and all(set(lib.affine_diff(f, v_, c.args[0])) <= {''} and lib.affine_diff(f, v_, c.args[0]).get('', 0) <= 0
                                          for v_ in below)
            ctx.ob('C12.4', 'create: initial stack pointer at or below the hint (%s)' % mk.callee, oks,
                   'the new thread\'s frames grow downwards from below the hint', loc=mk.loc)


def index_bounded(fn, idx, at, bound):
    """idx is guarded by a comparison with a constant <= bound on every path to `at`"""
    for ic in fn.order:
        if ic.op == 'icmp' and fn.sources(ic.ops[0]) == fn.sources(idx):
            c = const_int(ic.ops[1])
            if c is None:
                continue
            if ic.pred in ('slt', 'ult') and c <= bound and fn.on_edge(ic.id, True, at):
                return True
            if ic.pred in ('sle', 'ule') and c < bound and fn.on_edge(ic.id, True, at):
                return True
            if ic.pred in ('sge', 'uge') and c <= bound and fn.on_edge(ic.id, False, at):
                return True
            if ic.pred in ('sgt', 'ugt') and c < bound and fn.on_edge(ic.id, False, at):
                return True
    return False


def run(ctx):
    ctx.doc('C12.6', 'a recycled record cannot inherit who-releases-it state: detached, status, join_thread and stack are '
            'rewritten on every creation path before the thread is published')
    ctx.doc('C12.5', 'the free-list class index (32 - clz(size-1), range [0,32]) is guarded to be < FREE_LIST_NUM (31) '
            'where it addresses the per-worker free-list table')
    for fl in flavours(ctx):
        ctx.unit = fl
        ctx.attempt(rule1_who, ctx, fl)
        stops = STOPS2
        v = ctx.view(NATIVE, roots=['myth_entry_point_1', 'myth_entry_point_2', 'myth_detach_body'], stops=stops, flavour=fl)
        ctx.attempt(rule2_order, ctx, v)
        ctx.attempt(rule3_env, ctx, fl)
        v2 = ctx.view(NATIVE, roots=['get_new_myth_thread_struct_stack', STACK_FREE, 'myth_flmalloc', 'myth_flfree'],
                      stops=('myth_freelist_pop', 'myth_freelist_push', 'myth_mmap'), flavour=fl)
        ctx.attempt(rule4_affine, ctx, v2)
        # lifetime-deciding fields of a recycled record are re-initialised at creation (shared with C01.3)
        from . import c01
        v3 = ctx.view(NATIVE, roots=['myth_create_ex_body'],
                      stops=('myth_queue_push', 'myth_queue_pop', 'get_new_myth_thread_struct_desc',
                             'get_new_myth_thread_struct_stack', 'myth_init_ex_body') + lib.SPIN_STOPS, flavour=fl)
        ctx.attempt(c01.rule3_publish, ctx, v3, rule='C12.6', only=[TH + 'detached', TH + 'status', TH + 'join_thread', TH + 'stack'])
        v4 = ctx.view(NATIVE, roots=['myth_create_ex_body'],
                      stops=('myth_queue_push', 'myth_queue_pop', 'get_new_myth_thread_struct_desc', 'get_new_myth_thread_struct_stack',
                             'myth_init_ex_body', 'myth_make_context_empty', 'myth_make_context_voidcall') + lib.SPIN_STOPS, flavour=fl)
        ctx.attempt(rule4_custom_data, ctx, v4)
        # "each record is released at most once": the reaping entry points pass at most one release per call (shared with C13.1)
        from . import c13
        v5 = ctx.view(NATIVE, roots=['myth_join_body', 'myth_tryjoin_body', 'myth_detach_body', 'myth_timedjoin_body'],
                      stops=('myth_queue_push', 'myth_queue_pop', DESC_FREE, 'myth_get_current_env_noinline', 'myth_tryjoin_body',
                             'myth_timespec_gt', 'hr_gettime', 'myth_yield_ex_body') + lib.SPIN_STOPS, flavour=fl)
        ctx.attempt(c13.rule1_once, ctx, v5, rule='C12.7')
        with ctx.shared({'C13.5': 'C12.8'}, floor=6,
                        doc='who releases the record at exit (shared with C13.5): both exit callbacks decide on the detached flag of the '
                            'thread that finished - detached: released there, joinable: kept for the joiner - and release at most once'):
            ctx.attempt(c13.rule5_finisher, ctx, fl)
        with ctx.shared({'C01.1': 'C12.8'}, keep=lambda k: 'detachstate' in k):
            ctx.attempt(c01.rule1_attr, ctx, fl)
        with ctx.shared({'C13.4': 'C12.9'}, floor=7,
                        doc='a timed join that released the record says so (shared with C13.4): myth_timedjoin_body returns 0 exactly after a '
                            'successful try and its "busy" code never after a try whose result was not examined - told "busy", the caller '
                            'keeps the handle of a record that is already on the free list, the next creation reuses it and the caller\'s '
                            'later join releases it a second time'):
            vt = ctx.view(NATIVE, roots=['myth_join_body', 'myth_tryjoin_body', 'myth_detach_body', 'myth_timedjoin_body'],
                          stops=('myth_queue_push', 'myth_queue_pop', DESC_FREE, 'myth_get_current_env_noinline', 'myth_tryjoin_body',
                                 'myth_timespec_gt', 'hr_gettime', 'myth_yield_ex_body') + lib.SPIN_STOPS, flavour=fl)
            ctx.attempt(c13.rule4_timed, ctx, vt)


SCHED = 'src/myth_sched_func.h'
MISC = 'src/myth_misc_func.h'
MUTANTS = [
    {'name': 'timed join examines its try only after the deadline test: busy is reported for a record already released (seed6 C12/m1)', 'expect': 'C12.9',
     'edits': [(SCHED, "      if (myth_timespec_gt(tp, abstime)) return EBUSY;\n      if (myth_tryjoin_body(th, result) == 0) {\n\treturn 0;\n      } else {", "      int busy_ = myth_tryjoin_body(th, result);\n      if (myth_timespec_gt(tp, abstime)) return EBUSY;\n      if (busy_ == 0) {\n\treturn 0;\n      } else {")]},
    {'name': 'finisher touches its record after publishing FREE_READY2 and unlocking (hand mutant r6)', 'expect': 'C12.2',
     'edits': [('src/myth_sched_func.h', "    this_thread->status=MYTH_STATUS_FREE_READY2;\n    myth_spin_unlock_body(&this_thread->lock);\n#endif\n  }\n  env->this_thread = next_thread;", "    this_thread->status=MYTH_STATUS_FREE_READY2;\n    myth_spin_unlock_body(&this_thread->lock);\n#endif\n    if (this_thread->cancelled) this_thread->cancelled = 0;\n  }\n  env->this_thread = next_thread;")]},
    {'name': 'size-class index rounded down (seed5 C12/m2)', 'expect': 'C12.4',
     'edits': [(MISC, "#define MYTH_MALLOC_SIZE_TO_INDEX(s) (32-__builtin_clz((s)-1))", "#define MYTH_MALLOC_SIZE_TO_INDEX(s) (31-__builtin_clz((unsigned int)(s)))")]},
    {'name': 'th->stack recorded after the hint was carved off the stack top (seed4 C13/m2)', 'expect': 'C12.4',
     'edits': [(SCHED, "  new_thread->stack = stk;\n  new_thread->stack_size = stack_size;\n#else", "#else"),
               (SCHED, "  init_myth_thread_struct(env, new_thread);\n  if (attr && attr->detachstate) {", "  init_myth_thread_struct(env, new_thread);\n  new_thread->stack = stk;\n  new_thread->stack_size = stack_size;\n  if (attr && attr->detachstate) {")]},
    {'name': 'cancel requester writes the exit value of the target (seed4 C12/m2)', 'expect': 'C12.1',
     'edits': [(SCHED, "  th->cancelled = 1;\n  myth_spin_unlock_body(&th->lock);", "  th->cancelled = 1;\n  th->result = MYTH_CANCELED;\n  myth_spin_unlock_body(&th->lock);")]},
    {'name': 'detach of a finished thread releases the record twice (seed3 C12/m1)', 'expect': 'C12.7',
     'edits': [(SCHED, "    free_myth_thread_struct_desc(myth_get_current_env(),th);\n    return 0;\n  }\n  //Obtain lock", "    free_myth_thread_struct_desc(myth_get_current_env(),th);\n  }\n  //Obtain lock")]},
    {'name': 'default stacks mapped with a short round-up (seed3 C12/m2)', 'expect': 'C12.4',
     'edits': [(SCHED, "    alloc_size += 0xFFF;\n    alloc_size &= ~0xFFF;\n    char * th_ptr = myth_mmap(NULL, alloc_size, PROT_READ|PROT_WRITE, ", "    alloc_size += 0xFF;\n    alloc_size &= ~0xFFF;\n    char * th_ptr = myth_mmap(NULL, alloc_size, PROT_READ|PROT_WRITE, ")]},
    {'name': 'flmalloc maps a fresh block when a recycled one is available (sweep M0310)', 'expect': 'C12.4',
     'edits': [(MISC, "  if (!ptr){\n    //Freelist is empty, allocate", "  if (!(!ptr)){\n    //Freelist is empty, allocate")]},
    {'name': 'stack released only for threads that have none (sweep M0168, passes the suite)', 'expect': 'C12.4',
     'edits': [(SCHED, "  if (th->stack) {\n    //Add to a freelist\n    ptr = (void**)th->stack;", "  if (!(th->stack)) {\n    //Add to a freelist\n    ptr = (void**)th->stack;")]},
    {'name': 'stack released in cleanup before the final switch', 'expect': 'C12.1',
     'edits': [(SCHED, "  //Get next runnable thread\n  myth_thread_t next = myth_queue_pop(&env->runnable_q);\n\n#if MYTH_EP_PROF_DETAIL",
                "  free_myth_thread_struct_stack(env, this_thread);\n  myth_thread_t next = myth_queue_pop(&env->runnable_q);\n\n#if MYTH_EP_PROF_DETAIL")]},
    {'name': 'join uses the cached env after the switch (seed C12/m2)', 'expect': 'C12.3',
     'edits': [(SCHED, "  myth_join_1(myth_get_current_env_noinline(),th,result);", "  myth_join_1(env,th,result);")]},
    {'name': 'yield re-queues on the cached env after a nested switch', 'expect': 'C12.3',
     'edits': [(SCHED, "#if MYTH_YIELD_DEBUG\n  myth_dprintf(\"myth_yield:thread %p continues execution\\n\",th);\n#endif\n  return 0;",
                "  if (env->this_thread != th) env->this_thread = th;\n  return 0;")]},
    {'name': 'large blocks mapped with the requested size, not the class size (seed2 C12/m1)', 'expect': 'C12.4',
     'edits': [(MISC, "      ptr = myth_mmap(NULL, realsize, PROT_READ|PROT_WRITE,", "      ptr = myth_mmap(NULL, size, PROT_READ|PROT_WRITE,")]},
    {'name': 'small chunks carved with the requested size', 'expect': 'C12.4',
     'edits': [(MISC, "      p += realsize;\n      while (p < p2){", "      p += size;\n      while (p < p2){")]},
    {'name': 'thread hint copied over the stack header words (seed2 C12/m3)', 'expect': 'C12.4',
     'edits': [(SCHED, "    i_stk -= 16 + (((custom_data_size + 15) >> 4) << 4);", "    i_stk -= (custom_data_size + 15) & ~(size_t)15;")]},
    {'name': 'child-first context starts at the stack top, inside the hint (seed2 C03/m2)', 'expect': 'C12.4',
     'edits': [(SCHED, "    myth_make_context_empty(&new_thread->context, stk, stk_size);", "    myth_make_context_empty(&new_thread->context, new_thread->stack, stk_size);")]},
    {'name': 'custom stack release off by 8', 'expect': 'C12.4',
     'edits': [(SCHED, "void *stack_start=(((uint8_t*)ptr)-(*blk_size)+(sizeof(void*)*2));", "void *stack_start=(((uint8_t*)ptr)-(*blk_size)+(sizeof(void*)));")]},
    {'name': 'size word holds the unrounded request (seed C12/m1)', 'expect': 'C12.4',
     'edits': [(SCHED, "    size_in_bytes +=  0xFFF;\n    size_in_bytes &= ~0xFFF;\n    char * th_ptr = myth_flmalloc(env->rank, size_in_bytes);\n    th_ptr += size_in_bytes - (sizeof(void*) * 2);",
                "    size_t alloc_size = (size_in_bytes + 0xFFF) & ~0xFFF;\n    char * th_ptr = myth_flmalloc(env->rank, alloc_size);\n    th_ptr += alloc_size - (sizeof(void*) * 2);")]},
    {'name': 'default stack not tagged', 'expect': 'C12.4',
     'edits': [(SCHED, "      *blk_size = 0;\t  //indicates default\n", "")]},
    {'name': 'flfree rounds the class differently from flmalloc', 'expect': 'C12.4',
     'edits': [(MISC, "  if (size < 8) size = 8;\n  idx = MYTH_MALLOC_SIZE_TO_INDEX(size);", "  if (size < 8) size = 8;\n  idx = MYTH_MALLOC_SIZE_TO_INDEX(size + 1);")]},
    {'name': 'detach sets the flag after unlocking', 'expect': 'C12.2',
     'edits': [(SCHED, "    myth_desc_set_detached(th);\n    myth_spin_unlock_body(&th->lock);", "    myth_spin_unlock_body(&th->lock);\n    myth_desc_set_detached(th);")]},
    {'name': 'finisher recycles its record before unlocking', 'expect': 'C12.2',
     'edits': [(SCHED, "    myth_spin_unlock_body(&this_thread->lock);\n    free_myth_thread_struct_desc(env,this_thread);\n  }\n  else{\n#if QUICK_CHECK_ON_JOIN\n    this_thread->status = MYTH_STATUS_FREE_READY;",
                "    free_myth_thread_struct_desc(env,this_thread);\n    myth_spin_unlock_body(&this_thread->lock);\n  }\n  else{\n#if QUICK_CHECK_ON_JOIN\n    this_thread->status = MYTH_STATUS_FREE_READY;")]},
    {'name': 'detach releases a finished record without waiting for FREE_READY2', 'expect': 'C12.2',
     'edits': [(SCHED, "    myth_spin_unlock_body(&th->lock);\n    while (th->status!=MYTH_STATUS_FREE_READY2);\n    free_myth_thread_struct_desc(myth_get_current_env(),th);",
                "    myth_spin_unlock_body(&th->lock);\n    free_myth_thread_struct_desc(myth_get_current_env(),th);")]},
    {'name': 'recycled record keeps a stale detached flag (seed C12/m3)', 'expect': 'C12.6',
     'edits': [(SCHED, "  th->detached = 0;\n", ""),
               (SCHED, "  if (attr && attr->detachstate) {\n    /* created detached: the finisher releases the descriptor */\n    new_thread->detached = 1;\n  }",
                "  if (attr) {\n    new_thread->detached = attr->detachstate ? 1 : 0;\n  }")]},
    {'name': 'timedjoin helper releases the record itself on timeout', 'expect': 'C12.1',
     'edits': [(SCHED, "      if (myth_timespec_gt(tp, abstime)) return EBUSY;\n      if (myth_tryjoin_body(th, result) == 0) {",
                "      if (myth_timespec_gt(tp, abstime)) { free_myth_thread_struct_desc(myth_get_current_env(), th); return EBUSY; }\n      if (myth_tryjoin_body(th, result) == 0) {")]},
]
