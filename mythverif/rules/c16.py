"""C16 - pthread programs behave the same on MassiveThreads as on the system pthreads."""
import os
import re

from .. import lib
from ..lib import (call_sites, same_value, describe, is_load_of, ret_cases, on_cas_success, cas_on, fences, reaches_point)
from ..ir import const_int
from ..frontend import AnalysisBroken
from .c01 import truthy_conds

META = {
    'explanation': 'Redirection-layer obligations over all 97 __wrap() entry points of the configuration, in both the --wrap (LD) '
                   'and the preload (DL) flavour: (1) forwarding table: on the myth_should_wrap_pthread() edge exactly the paired '
                   'myth_*_body is called with the parameters forwarded position by position (translated attributes go through the '
                   'named translation helper), on the other edge real_<same name> with identical arguments, unsupported functions '
                   'always reach real_<same name>; (2) every wrapper that operates on a caller-provided pthread_mutex_t first converts a '
                   'static initialiser, and the conversion is elected by a CAS on the magic word, publishes the magic number after '
                   'the struct copy and a full fence, and makes losers spin; (4) the set of __wrap_ symbols equals the --wrap list '
                   'of src/myth-ld.opts; (5) compile-time ABI witnesses (sizes, initialiser bit patterns, constants); (6) return '
                   'conventions: every value a body can return and the wrapper passes through is in the POSIX result set of the '
                   'wrapped function (constants folded from the body\'s IR), otherwise the wrapper must translate it.'
                   ' C16.7 (open finding D16): the exit walk calls a destructor without testing the value non-NULL; C16.8: every real_<f> of myth_real.c reaches the system function of the same name in all three flavours, forwarding its parameters in order.',
    'not_decided': 'equality of observable results of whole programs (differential execution); cancellation, scheduling '
                   'parameters, robust/recursive mutex types (unsupported: forwarded to the real library or warned)',
    'assumptions': ['glibc pthread types and constants of this platform', 'pthread_timedjoin_np is a non-POSIX extension: its timeout code is not compared'],
    'technique': 'static analysis: table-driven who-calls-what and argument value-flow rules over LLVM IR of every wrapper, plus compile-time witnesses',
}
META['explanation'] += ' A key destructor runs with its slot already cleared and receives the value it held (C16.19).'
WRAPF = 'myth_wrap_pthread.c'
EBUSY, ETIMEDOUT, EINVAL, EAGAIN = 16, 110, 22, 11

# X -> (body or None, argument map of the body call (param index | 'T' translated), guarded by myth_should_wrap_pthread())
# frozen from the reviewed tree; a wrapper that appears or disappears makes the check exit 2 until this table is updated.
TABLE = {
    'nanosleep': ('myth_nanosleep_body', [0, 1], True),
    'pthread_attr_destroy': (None, None, False),
    'pthread_attr_getdetachstate': (None, None, False),
    'pthread_attr_getguardsize': (None, None, False),
    'pthread_attr_getinheritsched': (None, None, False),
    'pthread_attr_getschedparam': (None, None, False),
    'pthread_attr_getschedpolicy': (None, None, False),
    'pthread_attr_getscope': (None, None, False),
    'pthread_attr_getstack': (None, None, False),
    'pthread_attr_getstacksize': (None, None, False),
    'pthread_attr_init': (None, None, False),
    'pthread_attr_setaffinity_np': (None, None, False),
    'pthread_attr_setdetachstate': (None, None, False),
    'pthread_attr_setguardsize': (None, None, False),
    'pthread_attr_setinheritsched': (None, None, False),
    'pthread_attr_setschedparam': (None, None, False),
    'pthread_attr_setschedpolicy': (None, None, False),
    'pthread_attr_setscope': (None, None, False),
    'pthread_attr_setstack': (None, None, False),
    'pthread_attr_setstacksize': (None, None, False),
    'pthread_barrier_destroy': ('myth_barrier_destroy_body', [0], True),
    'pthread_barrier_init': ('myth_barrier_init_body', [0, 'T', 2], True),
    'pthread_barrier_wait': ('myth_barrier_wait_body', [0], True),
    'pthread_barrierattr_destroy': (None, None, False),
    'pthread_barrierattr_getpshared': (None, None, False),
    'pthread_barrierattr_init': (None, None, False),
    'pthread_barrierattr_setpshared': (None, None, False),
    'pthread_cancel': (None, None, True),
    'pthread_cond_broadcast': ('myth_cond_broadcast_body', [0], True),
    'pthread_cond_destroy': ('myth_cond_destroy_body', [0], True),
    'pthread_cond_init': ('myth_cond_init_body', [0, 'T'], True),
    'pthread_cond_signal': ('myth_cond_signal_body', [0], True),
    'pthread_cond_timedwait': ('myth_cond_timedwait_body', [0, 1, 2], True),
    'pthread_cond_wait': ('myth_cond_wait_body', [0, 1], True),
    'pthread_condattr_destroy': (None, None, False),
    'pthread_condattr_getclock': (None, None, False),
    'pthread_condattr_getpshared': (None, None, False),
    'pthread_condattr_init': (None, None, False),
    'pthread_condattr_setclock': (None, None, False),
    'pthread_condattr_setpshared': (None, None, False),
    'pthread_create': ('myth_create_ex_body', [0, 'T', 2, 3], True),
    'pthread_detach': ('myth_detach_body', [0], True),
    'pthread_equal': ('myth_equal_body', [0, 1], True),
    'pthread_exit': ('myth_exit_body', [0], True),
    'pthread_getattr_default_np': (None, None, False),
    'pthread_getattr_np': (None, None, False),
    'pthread_getconcurrency': ('myth_getconcurrency_body', [], True),
    'pthread_getcpuclockid': (None, None, True),
    'pthread_getname_np': (None, None, True),
    'pthread_getschedparam': (None, None, True),
    'pthread_getspecific': ('myth_getspecific_body', [0], True),
    'pthread_join': ('myth_join_body', [0, 1], True),
    'pthread_key_create': ('myth_key_create_body', [0, 1], True),
    'pthread_key_delete': ('myth_key_delete_body', [0], True),
    'pthread_kill': (None, None, True),
    'pthread_mutex_consistent': (None, None, True),
    'pthread_mutex_destroy': ('myth_mutex_destroy_body', [0], True),
    'pthread_mutex_getprioceiling': (None, None, True),
    'pthread_mutex_init': ('myth_mutex_init_body', [0, 'T'], True),
    'pthread_mutex_lock': ('myth_mutex_lock_body', [0], True),
    'pthread_mutex_setprioceiling': (None, None, True),
    'pthread_mutex_timedlock': ('myth_mutex_timedlock_body', [0, 1], True),
    'pthread_mutex_trylock': ('myth_mutex_trylock_body', [0], True),
    'pthread_mutex_unlock': ('myth_mutex_unlock_body', [0], True),
    'pthread_mutexattr_destroy': (None, None, False),
    'pthread_mutexattr_getprioceiling': (None, None, False),
    'pthread_mutexattr_getprotocol': (None, None, False),
    'pthread_mutexattr_getpshared': (None, None, False),
    'pthread_mutexattr_getrobust': (None, None, False),
    'pthread_mutexattr_gettype': (None, None, False),
    'pthread_mutexattr_init': (None, None, False),
    'pthread_mutexattr_setprioceiling': (None, None, False),
    'pthread_mutexattr_setprotocol': (None, None, False),
    'pthread_mutexattr_setpshared': (None, None, False),
    'pthread_mutexattr_settype': (None, None, False),
    'pthread_once': ('myth_once_body', [0, 1], True),
    'pthread_self': ('myth_self_body', [], True),
    'pthread_setattr_default_np': (None, None, False),
    'pthread_setcancelstate': (None, None, True),
    'pthread_setcanceltype': (None, None, True),
    'pthread_setconcurrency': (None, None, True),
    'pthread_setname_np': (None, None, True),
    'pthread_setschedparam': (None, None, True),
    'pthread_setspecific': ('myth_setspecific_body', [0, 1], True),
    'pthread_sigmask': (None, None, True),
    'pthread_sigqueue': (None, None, True),
    'pthread_spin_destroy': ('myth_spin_destroy_body', [0], True),
    'pthread_spin_init': ('myth_spin_init_body', [0], True),
    'pthread_spin_lock': ('myth_spin_lock_body', [0], True),
    'pthread_spin_trylock': ('myth_spin_trylock_body', [0], True),
    'pthread_spin_unlock': ('myth_spin_unlock_body', [0], True),
    'pthread_testcancel': (None, None, True),
    'pthread_timedjoin_np': ('myth_timedjoin_body', [0, 1, 2], True),
    'pthread_tryjoin_np': ('myth_tryjoin_body', [0, 1], True),
    'sched_yield': ('myth_yield_body', [], True),
    'sleep': ('myth_sleep_body', [0], True),
    'usleep': ('myth_usleep_body', [0], True),
}
TRANSLATORS = {'pthread_create': 'pthread_attr_to_myth', 'pthread_mutex_init': 'pthread_mutexattr_to_myth',
               'pthread_cond_init': 'pthread_condattr_to_myth', 'pthread_barrier_init': 'pthread_barrierattr_to_myth'}
# results a conforming program may observe from a *successful or documented-failure* call
POSIX_RESULTS = {
    'pthread_mutex_lock': {0}, 'pthread_mutex_unlock': {0}, 'pthread_mutex_trylock': {0, EBUSY}, 'pthread_mutex_timedlock': {0, ETIMEDOUT},
    'pthread_mutex_init': {0}, 'pthread_mutex_destroy': {0}, 'pthread_cond_init': {0}, 'pthread_cond_destroy': {0},
    'pthread_cond_wait': {0}, 'pthread_cond_signal': {0}, 'pthread_cond_broadcast': {0},
    'pthread_barrier_init': {0}, 'pthread_barrier_destroy': {0}, 'pthread_barrier_wait': {0, -1},
    'pthread_spin_init': {0}, 'pthread_spin_destroy': {0}, 'pthread_spin_lock': {0}, 'pthread_spin_unlock': {0}, 'pthread_spin_trylock': {0, EBUSY},
    'pthread_once': {0}, 'pthread_create': {0}, 'pthread_join': {0}, 'pthread_detach': {0}, 'pthread_tryjoin_np': {0, EBUSY},
    'pthread_key_create': {0, EAGAIN, EINVAL}, 'pthread_key_delete': {0, EINVAL}, 'pthread_setspecific': {0, EINVAL},
    # sleep/usleep build an always-valid request (C20.4), so nanosleep's EINVAL is infeasible there; it is listed because the
    # result-set computation is path-insensitive
    'sched_yield': {0}, 'sleep': {0, EINVAL}, 'usleep': {0, EINVAL, -1}, 'nanosleep': {0, EINVAL, -1},
}
MUTEX_FIRST = ('pthread_mutex_lock', 'pthread_mutex_trylock', 'pthread_mutex_timedlock', 'pthread_mutex_unlock')


def wrapper_name(X, fl):
    return ('__wrap_' + X) if fl == 'ld' else X


def build_view(ctx, fl):
    raw = ctx.ssa(WRAPF, fl)
    if fl == 'ld':
        ws = sorted(n[len('__wrap_'):] for n in raw.functions if n.startswith('__wrap_'))
    else:
        ws = sorted(X for X in TABLE if X in raw.functions)
    callees = set()
    for f in raw.functions.values():
        for c in f.calls():
            if c.callee and (c.callee.endswith('_body') or c.callee.startswith('real_')):
                callees.add(c.callee)
    stops = sorted(callees) + ['myth_should_wrap_pthread', 'myth_handle_PTHREAD_MUTEX_INITIALIZER', 'enter_wrapped_func_',
                               'leave_wrapped_func_'] + sorted(set(TRANSLATORS.values()))
    roots = [wrapper_name(X, fl) for X in ws]
    v = ctx.view(WRAPF, roots=roots, stops=stops, flavour=fl)
    return v, ws


def rule1_forward(ctx, fl, v, ws):
    ctx.doc('C16.1', 'forwarding table (97 wrappers x 2 flavours): wrapped edge -> the paired myth_*_body with position-wise '
            'arguments, other edge / unsupported -> real_<same name> with identical arguments; results are those calls\' results')
    missing = sorted(set(TABLE) - set(ws))
    extra = sorted(set(ws) - set(TABLE))
    if missing or extra:
        raise AnalysisBroken('C16 wrapper table out of date for flavour %s: not defined any more %s, new wrappers %s' % (fl, missing, extra))
    for X in ws:
        body, amap, guarded = TABLE[X]
        f = ctx.need_fn(v, wrapper_name(X, fl))
        k = '%s[%s]' % (X, fl)
        sw = call_sites(f, 'myth_should_wrap_pthread')
        reals = [c for c in f.calls() if c.callee and c.callee.startswith('real_')]
        bodies = [c for c in f.calls() if c.callee and c.callee.startswith('myth_') and c.callee.endswith('_body')]
        okreal = len(reals) == 1 and reals[0].callee == 'real_' + X and len(reals[0].args) == len(f.params) and \
            all(same_value(f, a, 'a%d' % i) for i, a in enumerate(reals[0].args))
        ctx.ob('C16.1', k + ': real_%s(params...)' % X, okreal,
               'the unwrapped path calls the real function of the same name with the unchanged arguments', loc=f.loc,
               detail=str([(c.callee, [describe(f, a) for a in c.args]) for c in reals]))
        conds = [cp for s in sw for cp in truthy_conds(f, s.id)]
        if guarded:
            ctx.ob('C16.1', k + ': decides with myth_should_wrap_pthread', len(sw) == 1, 'one test of the wrap switch', loc=f.loc)
            for r in reals:
                ctx.ob('C16.1', k + ': real only when not wrapping (or unsupported)', body is None or any(f.on_edge(c, not p, r) for c, p in conds),
                       'real_%s runs only on the not-wrapping edge' % X, loc=r.loc)
        else:
            ctx.ob('C16.1', k + ': pure pass-through', not sw and not bodies and okreal and all(f.dominates_f(r, x) for r in reals for x in f.exits()),
                   'attribute-object functions always go to the real library', loc=f.loc)
        if body is None:
            ctx.ob('C16.1', k + ': no body call', not bodies, 'unsupported function does not enter MassiveThreads', loc=f.loc)
            continue
        okb = len(bodies) == 1 and bodies[0].callee == body
        ctx.ob('C16.1', k + ': calls %s' % body, okb, 'the wrapped path enters the paired MassiveThreads function', loc=f.loc,
               detail=str([c.callee for c in bodies]))
        if not okb:
            continue
        b = bodies[0]
        ctx.ob('C16.1', k + ': body only when wrapping', any(f.on_edge(c, p, b) for c, p in conds), 'body runs only on the wrapping edge', loc=b.loc)
        # ... and always when wrapping: every path through the wrapper calls the body or the real function (a shortcut that answers
        # by itself - "already initialised", "nobody waits" - decides on state the body owns)
        rch = f.reachable_from(f.entry_inst(), blocked=[b] + reals, include_start=True)
        skip = [r for r in f.exits() if r in rch]
        ctx.ob('C16.1', k + ': every call reaches the body or the real function', not skip,
               'no return is reachable without one of the two calls', loc=(skip[0].loc if skip else f.loc))
        oka = len(b.args) == len(amap)
        det = []
        if oka:
            for i, m in enumerate(amap):
                if m == 'T':
                    tr = [f.insts[s] for s in f.sources(b.args[i]) if s in f.insts]
                    ok_i = len(tr) == 1 and tr[0].op == 'call' and tr[0].callee == TRANSLATORS.get(X) and same_value(f, tr[0].args[0], 'a%d' % i)
                else:
                    ok_i = same_value(f, b.args[i], 'a%d' % m)
                if not ok_i:
                    oka = False
                    det.append('arg %d is %s' % (i, describe(f, b.args[i])))
        ctx.ob('C16.1', k + ': arguments forwarded position by position', oka,
               'parameter i of the pthread call is argument i of the body (attributes via %s)' % TRANSLATORS.get(X, 'identity'),
               loc=b.loc, detail='; '.join(det))
        if f.ret != 'void':
            passes = False
            for val, anchor in ret_cases(f):
                if isinstance(val, str) and b.id in f.sources(val, through_arith=False):
                    passes = True
            translated = X in ('pthread_barrier_wait', 'pthread_spin_lock', 'pthread_spin_trylock')
            ctx.ob('C16.1', k + ': result comes from the body', passes or translated,
                   'the value returned on the wrapped path is the body\'s result (or its documented translation)', loc=f.loc)
            okr = any(isinstance(val, str) and reals and reals[0].id in f.sources(val) for val, anchor in ret_cases(f))
            ctx.ob('C16.1', k + ': result of the real call returned', okr, 'the unwrapped path returns the real function\'s result', loc=f.loc)
    ctx.floor('C16.1', 980)


def rule2_static_init(ctx, fl, v):
    ctx.doc('C16.2', 'statically initialised mutexes: pthread_mutex_{lock,trylock,timedlock,unlock} call '
            'myth_handle_PTHREAD_MUTEX_INITIALIZER(mutex) before the body; that function: magic != magic_no -> CAS(magic: observed '
            '-> initializing) elects the converter, which copies an initialised mutex, executes a full fence and only then '
            'stores magic_no; losers spin while magic == initializing; nothing else writes magic')
    for X in MUTEX_FIRST:
        f = ctx.need_fn(v, wrapper_name(X, fl))
        h = call_sites(f, 'myth_handle_PTHREAD_MUTEX_INITIALIZER')
        b = [c for c in f.calls() if c.callee == TABLE[X][0]]
        ok = len(h) == 1 and len(b) == 1 and f.dominates_f(h[0], b[0]) and same_value(f, h[0].args[0], 'a0')
        ctx.ob('C16.2', '%s[%s]: converts a static initialiser first' % (X, fl), ok,
               'a PTHREAD_MUTEX_INITIALIZER mutex is turned into a MassiveThreads mutex before its first use', loc=f.loc)
    hv = ctx.view(WRAPF, roots=['myth_handle_PTHREAD_MUTEX_INITIALIZER'], stops=(), flavour=fl)
    g = ctx.need_fn(hv, 'myth_handle_PTHREAD_MUTEX_INITIALIZER')
    MAGIC = 'myth_mutex.magic'
    MAGIC_NO, INITING = 123456789, 987654321
    cas = [c for c in g.order if c.op == 'cmpxchg']
    okc = len(cas) == 1 and const_int(cas[0].ops[2]) == INITING and g.field(cas[0]) in (MAGIC, '') and \
        all(k in g.insts and g.insts[k].op == 'load' and g.insts[k].volatile for k in g.sources(cas[0].ops[1]))
    ctx.ob('C16.2', 'handle[%s]: election CAS(magic: observed -> initializing)' % fl, okc, 'exactly one thread converts', loc=g.loc)
    for c in cas:
        exp = c.ops[1]
        g1 = any(ic.op == 'icmp' and ic.pred in ('ne', 'eq') and const_int(ic.ops[1]) == INITING and g.sources(ic.ops[0]) == g.sources(exp) and
                 g.on_edge(ic.id, ic.pred == 'ne', c) for ic in g.order)
        g2 = any(ic.op == 'icmp' and ic.pred in ('ne', 'eq') and const_int(ic.ops[1]) == MAGIC_NO and g.sources(ic.ops[0]) == g.sources(exp) and
                 g.on_edge(ic.id, ic.pred == 'ne', c) for ic in g.order)
        ctx.ob('C16.2', 'handle[%s]: election only from an unconverted, not-being-converted value' % fl, g1 and g2,
               'the CAS is attempted only where the observed magic is neither magic_no nor initializing: a thread that sees '
               '"initializing" must wait, not win CAS(initializing -> initializing) and convert a mutex that is already in use',
               loc=c.loc)
    pubs = [s for s in g.order if s.op == 'store' and const_int(s.ops[0]) == MAGIC_NO and s.volatile]
    ctx.ob('C16.2', 'handle[%s]: publishes magic_no once' % fl, len(pubs) == 1, 'one volatile store of the magic number', loc=g.loc)
    copies = [c for c in g.calls() if c.callee and c.callee.startswith('llvm.memcpy') and g.sources(g.ap(c.args[0]).root) == {'a0'}] + \
             [s for s in g.order if s.op == 'store' and g.ap(s.ops[1]).fields and g.ap(s.ops[1]).fields[0] in ('myth_mutex.state', 'myth_mutex.sleep_q', 'myth_mutex.attr') and
              same_value(g, g.ap(s.ops[1]).root, 'a0')]
    ff = [x for x in fences(g) if x.op != 'cmpxchg']
    for p in pubs:
        ctx.ob('C16.2', 'handle[%s]: publish only by the elected thread' % fl, any(on_cas_success(g, c, p) for c in cas), 'magic_no is stored on the CAS success edge', loc=p.loc)
        ctx.ob('C16.2', 'handle[%s]: copy -> full fence -> magic_no' % fl, bool(copies) and all(g.dominates_f(c, p) for c in copies) and
               any(g.dominates_f(x, p) and all(g.dominates_f(c, x) for c in copies) for x in ff),
               'other threads that see magic_no also see the initialised fields', loc=p.loc)
    # losers: loop on volatile load == INITING
    spins = [ic for ic in g.order if ic.op == 'icmp' and const_int(ic.ops[1]) == INITING and g.in_loop(ic) and
             all(k in g.insts and g.insts[k].op == 'load' and g.insts[k].volatile for k in g.sources(ic.ops[0]))]
    ctx.ob('C16.2', 'handle[%s]: losers spin while initializing' % fl, len(spins) >= 1, 'a thread that lost the election waits for the converter', loc=g.loc)
    for ic in spins:
        lp = lib.loop_containing(g, ic)
        okp = False
        for cond, pol in lib.cond_chain(g, ic.id, True):
            for br, t, f_ in g.cond_edges(cond):
                eq_t = t if (pol == (ic.pred == 'eq')) else f_
                ne_t = f_ if (pol == (ic.pred == 'eq')) else t
                if lp is not None and eq_t in lp['blocks'] and ne_t not in lp['blocks']:
                    okp = True
        ctx.ob('C16.2', 'handle[%s]: the wait continues exactly while the magic word reads "initializing"' % fl, okp,
               'the loop is left when the converter has published the magic number, not before and not never', loc=ic.loc)
    for r in g.exits():
        tests = [ic for ic in g.order if ic.op == 'icmp' and const_int(ic.ops[1]) in (MAGIC_NO, INITING)]
        ok = any(g.dominates_f(p, r) for p in pubs) or not _reach_without(g, r, pubs, tests, MAGIC_NO, INITING)
        ctx.ob('C16.2', 'handle[%s]: returns only with a converted mutex' % fl, ok,
               'every return is preceded by the publication, by observing magic_no, or by leaving the spin on initializing', loc=r.loc)
    # a mutex initialised with pthread_mutex_init is already a converted mutex: its first use must not convert it again
    nv = ctx.view('myth_if_native.c', roots=['myth_mutex_init_body'], stops=lib.SPIN_STOPS, flavour=fl)
    mi = ctx.need_fn(nv, 'myth_mutex_init_body')
    mg = [st for st in mi.stores_to(MAGIC) if const_int(st.ops[0]) == MAGIC_NO and same_value(mi, mi.ap(st.ops[1]).root, mi.params[0]['id'])]
    ctx.ob('C16.2', 'mutex_init[%s]: marks the mutex as converted' % fl, len(mg) == 1 and mi.always_passes(mi.entry_inst(), mg),
           'mutex->magic = magic_no on every path: otherwise the first lock takes the initialised mutex for a static initialiser and '
           'overwrites it (or waits for a converter that does not exist)', loc=mi.loc)
    ctx.floor('C16.2', 21)


def _reach_without(g, ret, pubs, tests, MAGIC_NO, INITING):
    """can `ret` be reached without passing the publication, an (magic == magic_no) edge or the exit edge of the
    spin on (magic == initializing)?"""
    from collections import deque
    cut = set()
    for ic in tests:
        c = const_int(ic.ops[1])
        for cond, pol in lib.cond_chain(g, ic.id, True):
            for br, t, f_ in g.cond_edges(cond):
                eq_edge = (br.block.id, t if (pol == (ic.pred == 'eq')) else f_)
                ne_edge = (br.block.id, f_ if (pol == (ic.pred == 'eq')) else t)
                if c == MAGIC_NO:
                    cut.add(eq_edge)
                elif c == INITING and g.in_loop(ic):
                    cut.add(ne_edge)
    blocked = set(p.id for p in pubs)
    seen = set()
    dq = deque([g.entry_inst()])
    while dq:
        i = dq.popleft()
        if i.id in seen or i.id in blocked:
            continue
        seen.add(i.id)
        if i is ret:
            return True
        if g.is_noreturn(i):
            continue
        b = i.block
        if i.idx + 1 < len(b.insts):
            dq.append(b.insts[i.idx + 1])
        else:
            for s in g.succs(b):
                if (b.id, s) not in cut:
                    dq.append(g.blocks[s].insts[0])
    return False


def rule4_wraplist(ctx):
    ctx.doc('C16.4', 'link-time redirection list: every __wrap_X defined by the LD flavour (pthread, malloc, socket wrappers) has '
            '-Wl,--wrap=X in src/myth-ld.opts ')
    opts = open(os.path.join(ctx.repo, 'src', 'myth-ld.opts')).read()
    listed = set(re.findall(r'--wrap=([A-Za-z0-9_]+)', opts))
    defined = set()
    files = [f for f in ctx.db['src']['ld'] if f.startswith('myth_wrap_')]
    ctx.prefetch([(f, 'ld', 'src') for f in files])
    for file in files:
        m = ctx.ssa(file, 'ld')
        for n, f in m.functions.items():
            if n.startswith('__wrap_') and not f.internal:
                defined.add(n[len('__wrap_'):])
    for X in sorted(defined):
        ctx.ob('C16.4', '--wrap=%s listed' % X, X in listed, 'a wrapper that is not on the link line is never used: the call goes to '
               'the system library while related calls are redirected', loc='src/myth-ld.opts')
    # (--wrap options without a wrapper only matter for programs that call functions outside the supported subset: they
    # fail to link; not part of this property)
    ctx.note('%d --wrap options have no __wrap_ definition (unsupported functions): %s' % (len(listed - defined), sorted(listed - defined)[:8]))
    ctx.floor('C16.4', 97)


def rule5_abi(ctx):
    ctx.doc('C16.5', 'ABI witnesses (compile-only): MassiveThreads objects fit into the pthread objects they overlay, the all-zero '
            'static initialiser is distinguishable from a converted mutex, PTHREAD_ONCE_INIT equals the native initial state, '
            'key and thread-id widths')
    from ..witness import run_witness
    for name, ok, detail in run_witness(ctx, 'abi'):
        ctx.ob('C16.5', 'witness: ' + name, ok, 'compile-time assertion against /repo headers and <pthread.h>', loc='witnesses/abi_witness.c',
               detail=detail)
    ctx.floor('C16.5', 11)


def body_results(mod, name, memo, depth=0):
    """set of constants a function can return, or {'dynamic'}"""
    if name in memo:
        return memo[name]
    memo[name] = {'dynamic'}
    f = mod.fn(name)
    if f is None or depth > 6:
        return memo[name]
    out = set()
    for val, anchor in ret_cases(f):
        c = const_int(val)
        if c is not None:
            out.add(c)
            continue
        srcs = f.sources(val) if isinstance(val, str) else set()
        okall = bool(srcs)
        for k in srcs:
            ins = f.insts.get(k)
            if ins is not None and ins.op == 'call' and ins.callee and mod.fn(ins.callee) is not None:
                out |= body_results(mod, ins.callee, memo, depth + 1)
            elif k.startswith('{'):
                import json
                cc = json.loads(k).get('c')
                if cc is not None:
                    out.add(cc)
                else:
                    okall = False
            elif ins is not None and ins.op in ('zext',) and ins.d.get('srcty') == 'i1':
                out |= {0, 1}
            elif ins is not None and ins.op == 'icmp':
                out |= {0, 1}
            else:
                okall = False
        if not okall:
            out.add('dynamic')
    memo[name] = out
    return out


def rule6_results(ctx, fl, v, ws):
    ctx.doc('C16.6', 'return conventions: for each wrapped function with an int result, the set of values the body can return '
            '(constants folded over its IR, through helper calls) that the wrapper passes through unchanged is a subset of the '
            'POSIX result set of that function; bodies with a native convention (counter, boolean, MYTH_BARRIER_SERIAL_THREAD) '
            'must be translated by the wrapper to POSIX values')
    bodies = sorted(set(t[0] for t in TABLE.values() if t[0]))
    bv = ctx.view(WRAPF, roots=bodies + ['unimplemented'], stops=('myth_entry_point_cleanup',), flavour=fl)
    # public functions the bodies call back into are defined in the native-interface TU
    pub = ['myth_mutex_lock', 'myth_mutex_unlock', 'myth_cond_wait', 'myth_cond_signal', 'myth_yield', 'myth_mutex_lock_body',
           'myth_mutex_unlock_body', 'myth_cond_wait_body', 'myth_cond_signal_body', 'myth_yield_body']
    nv = ctx.view('myth_if_native.c', roots=pub, stops=('myth_entry_point_cleanup',), flavour=fl)

    class Both:
        def fn(self, name):
            return bv.fn(name) or nv.fn(name)
    both = Both()
    memo = {}
    for X in ws:
        body, amap, guarded = TABLE[X]
        if body is None or X not in POSIX_RESULTS:
            continue
        f = v.fn(wrapper_name(X, fl))
        if f is None or f.ret == 'void':
            continue
        allowed = POSIX_RESULTS[X]
        b = [c for c in f.calls() if c.callee == body]
        if not b:
            continue
        res = body_results(both, body, memo)
        # what the wrapper can return on the wrapped path
        out = set()
        for val, anchor in ret_cases(f):
            if not reaches_point(f, b[0], anchor):
                continue
            c = const_int(val)
            if c is not None:
                out.add(c)
            elif isinstance(val, str) and b[0].id in f.sources(val, through_arith=False):
                # passed through unless an edge condition excludes some values
                vals = set(res)
                for ic in f.order:
                    if ic.op == 'icmp' and ic.pred in ('eq', 'ne') and same_value(f, ic.ops[0], b[0].id) and const_int(ic.ops[1]) is not None:
                        if f.on_edge(ic.id, ic.pred == 'ne', anchor):
                            vals.discard(const_int(ic.ops[1]))
                        elif f.on_edge(ic.id, ic.pred == 'eq', anchor):
                            vals = {const_int(ic.ops[1])}
                out |= vals
            elif isinstance(val, str):
                srcs = f.sources(val)
                import json
                for k in srcs:
                    if k.startswith('{') and json.loads(k).get('c') is not None:
                        out.add(json.loads(k)['c'])
                    elif k in f.insts and f.insts[k].op == 'select':
                        pass
                    else:
                        out.add('dynamic')
        bad = sorted(str(x) for x in out if x not in allowed)
        ctx.ob('C16.6', '%s[%s]: results on the wrapped path are POSIX results' % (X, fl), not bad,
               'a determinate program observes the same return values as with the system library: allowed %s' % sorted(allowed),
               loc=b[0].loc, detail='' if not bad else 'wrapper can return %s (body %s returns %s)' % (bad, body, sorted(str(x) for x in res)))
    ctx.floor('C16.6', 56)


def rule7_destructor_protocol(ctx, fl):
    ctx.doc('C16.7', 'POSIX key-destructor protocol at thread exit (the body pthread_key_create forwards to): the destructor of a key is '
            'invoked only for a value that was tested non-NULL (a program whose destructor dereferences or counts its argument is '
            'determinate and observes the difference)')
    v = ctx.view('myth_if_native.c', roots=['myth_tls_call_destructors_rec'], stops=('myth_tls_tree_node_free', 'myth_free') + lib.SPIN_STOPS,
                 flavour=fl)
    f = ctx.need_fn(v, 'myth_tls_call_destructors_rec')
    ic = [c for c in f.order if c.op == 'call' and 'callee_ref' in c.d]
    ctx.ob('C16.7', 'destructor call site', len(ic) == 1, 'one indirect call in the exit walk', loc=f.loc)
    for c in ic:
        arg = c.args[0] if c.args else None
        vl = [f.insts[k] for k in f.sources(arg) if k in f.insts] if arg is not None else []
        okv = len(vl) == 1 and vl[0].op == 'load' and f.field(vl[0]) == 'myth_tls_entry.value'
        ctx.ob('C16.7', 'destructor argument is the slot value', okv, 'destructor(n->entries[i].value)', loc=c.loc)
        nt = lib.null_tests(f, vl[0].id) if okv else []
        ctx.ob('C16.7', 'myth_tls_call_destructors_rec: destructor only for a non-NULL value',
               any(f.edge_dominates(br.block.id, nn, c) for br, nn, nl in nt),
               'POSIX: the destructor is called only if the value is non-NULL; the system library never calls it with NULL', loc=c.loc,
               detail='the call is guarded by the destructor pointer only' if not nt else '')
    ctx.floor('C16.7', 3)


def rule9_attr(ctx, fl):
    ctx.doc('C16.9', 'thread attribute translation (pthread_attr_to_myth): a NULL attribute object yields NULL without being read; '
            'otherwise the MassiveThreads attribute is first initialised, then receives the detach state and the stack address/size of '
            'the pthread attribute object it was given, and is returned')
    m = ctx.ssa(WRAPF, flavour=fl)
    f = ctx.need_fn(m, 'pthread_attr_to_myth')
    p_, m_ = f.params[0]['id'], f.params[1]['id']
    nts = lib.null_tests(f, p_)
    ini = call_sites(f, 'myth_thread_attr_init_body')
    gd = [c for c in f.calls() if c.callee in ('pthread_attr_getdetachstate', 'real_pthread_attr_getdetachstate', '__real_pthread_attr_getdetachstate')]
    gs = [c for c in f.calls() if c.callee in ('pthread_attr_getstack', 'real_pthread_attr_getstack', '__real_pthread_attr_getstack')]
    ctx.ob('C16.9', 'attr[%s]: NULL test of the pthread attribute' % fl, bool(nts), 'if (!p) return 0', loc=f.loc)
    uses = ini + gd + gs
    ctx.ob('C16.9', 'attr[%s]: the attribute object is read only when it is not NULL' % fl, bool(uses) and bool(nts) and
           all(any(f.edge_dominates(br.block.id, nn, c) for br, nn, nl in nts) for c in uses),
           'pthread_create(.., NULL, ..) is the common case: it must not dereference the attribute pointer', loc=f.loc)
    for val, anchor in ret_cases(f):
        isnull = isinstance(val, dict) and (val.get('null') or val.get('c') == 0)
        if isnull:
            ctx.ob('C16.9', 'attr[%s]: NULL in, NULL out' % fl, any(f.edge_dominates(br.block.id, nl, anchor) for br, nn, nl in nts),
                   'default attributes stay default', loc=anchor.loc)
        else:
            ctx.ob('C16.9', 'attr[%s]: returns the translated object' % fl, same_value(f, val, m_) and
                   any(f.edge_dominates(br.block.id, nn, anchor) for br, nn, nl in nts), 'return m', loc=anchor.loc)
            for what, calls, flds in (('detach state', gd, ['myth_thread_attr.detachstate']),
                                      ('stack address and size', gs, ['myth_thread_attr.stackaddr', 'myth_thread_attr.stacksize'])):
                ok = len(calls) == 1 and same_value(f, calls[0].args[0], p_) and \
                    [f.ap(a_).fields[-1:] for a_ in calls[0].args[1:]] == [[x] for x in flds] and \
                    all(same_value(f, f.ap(a_).root, m_) for a_ in calls[0].args[1:]) and \
                    not reaches_point(f, f.entry_inst(), anchor, blocked=calls, include_start=True) and \
                    len(ini) == 1 and f.dominates_f(ini[0], calls[0])
                ctx.ob('C16.9', 'attr[%s]: %s taken from the pthread attribute object' % (fl, what), ok,
                       'after myth_thread_attr_init the getter fills the corresponding field(s) of m on every path to the return', loc=f.loc)
    ctx.floor('C16.9', 6)


def rule10_yield(ctx, fl):
    ctx.doc('C16.10', 'sched_yield / pthread_yield (forwarded to the yield body, C16.1): the switch callback re-queues the yielding '
            'thread with the tail insertion myth_queue_put on the executing worker\'s own queue, so every thread that was already '
            'runnable there is popped before the yielder is (a head insertion makes two yield-spinning threads hand the worker '
            'to each other forever: a barrier built on sched_yield terminates on the system library and hangs here)')
    v = ctx.view('myth_if_native.c', roots=['myth_yield_ex_1', 'myth_yield_ex_body'],
                 stops=('myth_queue_put', 'myth_queue_push', 'myth_queue_pop', 'myth_ensure_init', 'myth_random') + lib.SPIN_STOPS, flavour=fl)
    f = ctx.need_fn(v, 'myth_yield_ex_1')
    enq = call_sites(f, ('myth_queue_put', 'myth_queue_push'))
    ctx.ob('C16.10', 'myth_yield_ex_1: one re-queue of the yielder', len(enq) == 1 and same_value(f, enq[0].args[1], 'a1'),
           'the callback enqueues its second argument (the suspended thread) once', loc=f.loc)
    for c in enq:
        ctx.ob('C16.10', 'myth_yield_ex_1: yielder goes to the tail', c.callee == 'myth_queue_put',
               'tail insertion (myth_queue_put), not the head insertion the owner pops first', loc=c.loc)
        ctx.ob('C16.10', 'myth_yield_ex_1: on the executing worker\'s queue',
               lib.arg_is_field_of(f, c.args[0], 'myth_running_env.runnable_q') and same_value(f, f.ap(c.args[0]).root, 'a0'),
               '&env->runnable_q of the env the callback received', loc=c.loc)
    b = ctx.need_fn(v, 'myth_yield_ex_body')
    cbs = [i for i in b.order if i.op in ('call', 'asm') and 'myth_yield_ex_1' in repr(i.d)]
    ctx.ob('C16.10', 'myth_yield_ex_body: switches with myth_yield_ex_1 as callback', len(cbs) >= 1,
           'the yield body hands the worker over through the re-queuing callback', loc=b.loc)
    ctx.floor('C16.10', 4)


def rule11_sleep(ctx, fl):
    """sleep / usleep / nanosleep are forwarded (C16.1) to the bodies whose unit conversion and deadline arithmetic C20 decides;
    the same obligations are stated here for the redirected flavours because the statement lists sleep explicitly"""
    from . import c20
    v = ctx.view('myth_if_native.c', roots=['myth_nanosleep_body', 'myth_timespec_gt', 'myth_timespec_add', 'myth_usleep_body', 'myth_sleep_body'],
                 stops=('hr_gettime', 'myth_yield_body', 'myth_yield_ex_body'), flavour=fl)
    c20.rule2_arith(ctx, v, rule='C16.11')
    c20.rule4_conv(ctx, v, rule='C16.11')
    ctx.doc('C16.11', 'sleep, usleep, nanosleep (shared with C20.2 / C20.4): unit conversion of the request, deadline = start + request '
            'with the nanosecond carry, lexicographic deadline comparison - a redirected sleep may not return earlier than the system one')


def rule12_shared(ctx, fl):
    """necessary conditions of the listed pthread behaviours that sibling properties decide on the native bodies, evaluated here on the
    redirected flavours (the bodies are compiled into libmyth-ld / libmyth-dl with their own flags)"""
    from . import c12, c14
    ctx.doc('C16.12', 'thread exit with key destructors / pthread_exit (shared with C12.3): the finishing path does not use a worker env '
            'obtained before application code (a destructor may block and resume the thread on another worker)')
    c12.rule3_env(ctx, fl, rule='C16.12', only=['myth_exit', 'myth_entry_point', 'myth_create_1', 'myth_testcancel'],
                  units=[('myth_if_native.c', None)])
    with ctx.shared({'C12.4': 'C16.13'}, keep=lambda k: k.startswith(('alloc:', 'free:', 'alloc and free')), floor=12,
                    doc='pthread_attr_setstacksize / setstack (shared with C12.4): custom-size stacks are released with the size they '
                        'were allocated with'):
        v2 = ctx.view('myth_if_native.c', roots=['get_new_myth_thread_struct_stack', c12.STACK_FREE, 'myth_flmalloc', 'myth_flfree'],
                      stops=('myth_freelist_pop', 'myth_freelist_push', 'myth_mmap'), flavour=fl)
        c12.rule4_affine(ctx, v2)
    from . import c01, c11
    ctx.doc('C16.16', 'pthread_create / pthread_detach (shared with C01.3 / C12.6): a recycled thread record starts joinable, not finished and '
            'without a registered joiner - set on both creation orders before the thread is published (otherwise a thread created with a '
            'NULL attribute inherits the detached state of the record\'s previous owner and pthread_join on it never returns)')
    v3 = ctx.view('myth_if_native.c', roots=['myth_create_ex_body'],
                  stops=('myth_queue_push', 'myth_queue_pop', 'get_new_myth_thread_struct_desc', 'get_new_myth_thread_struct_stack',
                         'myth_init_ex_body') + lib.SPIN_STOPS, flavour=fl)
    ctx.attempt(c01.rule3_publish, ctx, v3, rule='C16.16', only=['myth_thread.detached', 'myth_thread.status', 'myth_thread.join_thread'])
    with ctx.shared({'C11.1': 'C16.17', 'C11.2': 'C16.17', 'C11.3': 'C16.17'}, floor=8,
                    doc='key destructors at thread exit (shared with C11.1-3): the exit walk visits every child of the sparse key tree and '
                        'keeps the running key base in step with the children it skips, so the destructor looked up for a slot is that '
                        'of the slot\'s own key'):
        v11 = ctx.view('myth_if_native.c', roots=['myth_tls_call_destructors_rec', 'myth_tls_tree_destroy_rec', 'myth_tls_call_destructors',
                                                  'myth_tls_tree_destroy', 'myth_tls_key_allocator_alloc'],
                       stops=('myth_tls_tree_node_free', 'myth_free') + lib.SPIN_STOPS, flavour=fl)
        ctx.attempt(c11.rule123_walk, ctx, v11)
    with ctx.shared({'C11.4': 'C16.19'}, keep=lambda k: k in ('slot cleared before the call', 'value passed is the slot content',
                                                             'destructor null-tested', 'one destructor call site'), floor=4,
                    doc='what a key destructor sees (shared with C11.4): as with the system library, the slot of the key is already NULL '
                        'when its destructor runs and the destructor receives the value it held - a destructor (or a helper it calls) '
                        'that reads its own key with pthread_getspecific otherwise gets the dying value back'):
        ctx.attempt(c11.rule4_leaf, ctx, v11)
    from . import c10
    with ctx.shared({'C10.2': 'C16.18'}, floor=4,
                    doc='pthread_getspecific on a key the thread never set returns NULL (shared with C10.2): a fresh leaf of the per-thread '
                        'tree has all 16 value slots cleared (thread records are recycled), and set / get descend by the same bit groups'):
        v10 = ctx.view('myth_if_native.c', roots=['myth_tls_tree_get', 'myth_tls_tree_set', 'myth_tls_key_allocator_alloc',
                                                  'myth_tls_key_allocator_dealloc', 'myth_tls_tree_node_alloc_leaf', 'myth_tls_tree_node_alloc_node'],
                       stops=('myth_tls_tree_node_alloc', 'myth_malloc') + lib.SPIN_STOPS, flavour=fl)
        ctx.attempt(c10.rule2_decomp, ctx, v10)
        ctx.attempt(c10.rule2_levels, ctx, v10)
    with ctx.shared({'C14.1': 'C16.14', 'C14.2': 'C16.14', 'C14.3': 'C16.14'}, floor=6,
                    doc='pthread_once (shared with C14.1-3, forwarded by C16.1): one caller is elected by a CAS from the initial value, '
                        'the routine is called by the elected caller only, completion is published after it, and nobody returns before '
                        'completion'):
        c14.rule_body(ctx, fl)


def rule15_self_equal(ctx, fl):
    ctx.doc('C16.15', 'pthread_self / pthread_equal (forwarded by C16.1): the body of self returns the thread the executing worker is '
            'running (env->this_thread of the current env), the body of equal is non-zero exactly when its two arguments are the same '
            'thread')
    v = ctx.view('myth_if_native.c', roots=['myth_self_body', 'myth_equal_body'],
                 stops=('myth_ensure_init', 'myth_get_current_env_noinline', 'myth_init_ex_body') + lib.SPIN_STOPS, flavour=fl)
    f = ctx.need_fn(v, 'myth_self_body')
    rets = [r for r in f.order if r.op == 'ret' and r.ops]
    ok = bool(rets)
    for r in rets:
        l = f.get(f.strip(r.ops[0]))
        ok = ok and l is not None and l.op == 'load' and f.field(l) == 'myth_running_env.this_thread'
        if ok:
            from .c02 import rank_index
            root = f.get(f.strip(f.ap(l.ops[0]).root))
            cur = root is not None and ((root.op == 'call' and (root.callee or '').startswith('myth_get_current_env')) or
                                        (root.op == 'load' and isinstance(root.ops[0], dict) and root.ops[0].get('g') == 'g_envs'))
            if cur and root.op == 'load':
                st = [x for x in f.ap(l.ops[0]).steps if x[0] == 'p']
                cur = len(st) == 1 and rank_index(f, st[0][1])
            ok = ok and cur
    ctx.ob('C16.15', 'myth_self_body returns the executing worker\'s current thread', ok, 'env->this_thread of the current env', loc=f.loc)
    g = ctx.need_fn(v, 'myth_equal_body')
    rets = [r for r in g.order if r.op == 'ret' and r.ops]
    okg = bool(rets)
    for r in rets:
        ic = g.get(g.strip(r.ops[0]))
        okg = okg and ic is not None and ic.op == 'icmp' and ic.pred == 'eq' and sorted(g.strip(o) for o in ic.ops) == ['a0', 'a1']
    ctx.ob('C16.15', 'myth_equal_body compares its two arguments for identity', okg, 'return t1 == t2', loc=g.loc)
    ctx.floor('C16.15', 2)


def rule8_real(ctx):
    ctx.doc('C16.8', 'myth_real.c, every real_<f> in every flavour: it reaches the system function of the same name - through '
            'real_function_table.<f> (preloading), __real_<f> (link-time wrapping) or <f> itself (vanilla) - passing its own '
            'parameters in order and returning that call\'s result')
    for fl in ('dl', 'ld', 'vanilla'):
        m = ctx.ssa('myth_real.c', flavour=fl)
        n = 0
        for name, f in sorted(m.functions.items()):
            if not name.startswith('real_') or name.startswith('real_function'):
                continue
            base = name[len('real_'):]
            calls = [c for c in f.calls() if not (c.callee or '').startswith('llvm.') and c.callee not in ('ensure_real_functions_', '__assert_fail')]
            if not calls:
                continue
            n += 1
            # the calls that leave the library: indirect ones (preloading) or direct ones to a system / __real_ symbol;
            # calls of library-internal helpers (bootstrap allocation while the table is being filled) are not dispatches
            if fl == 'dl':
                disp = [c for c in calls if 'callee_ref' in c.d]
            else:
                disp = [c for c in calls if c.callee and c.callee not in m.functions]
            ok = len(disp) >= 1
            why = 'no dispatch found'
            for c in disp:
                if fl == 'dl':
                    l = f.get(f.strip(c.d.get('callee_ref')))
                    slot = f.field(l) if l is not None and l.op == 'load' else None
                    good = slot is not None and slot.split('.', 1)[-1] == base and slot.startswith('real_function_table')
                    w1 = 'dispatches through %s' % (slot or '?')
                else:
                    # inside the library both spellings reach the system function: --wrap rewrites only the program's references
                    good = c.callee in (('__real_' + base, base) if fl == 'ld' else (base,))
                    w1 = 'calls %s' % c.callee
                if good:
                    k = min(len(f.params), len(c.args))
                    if not all(same_value(f, c.args[i], f.params[i]['id']) for i in range(k)):
                        good, w1 = False, w1 + '; parameters not forwarded in order'
                why = w1
                if not good:
                    ok = False
                    break
            if ok:
                ids = set(c.id for c in calls)
                for r in f.exits():
                    if not r.ops:
                        continue
                    for k_ in f.sources(r.ops[0]):
                        i_ = f.insts.get(k_)
                        if i_ is not None and i_.op == 'call' and i_.id not in ids:
                            ok, why = False, 'returns the result of another call'
            ctx.ob('C16.8', '%s[%s] reaches the system %s' % (name, fl, base), ok,
                   'the unwrapped path and the attribute translation rely on real_<f> being the system <f>; a crossed slot makes the '
                   'redirected program read a different attribute or call a different function than the native one', loc=f.loc, detail=why)
        ctx.ob('C16.8', 'real_ functions enumerated [%s]' % fl, n >= 100, 'the table of system entry points', loc='src/myth_real.c', detail=str(n))
    ctx.floor('C16.8', 300)


def run(ctx):
    fls = ['ld', 'dl']
    for fl in fls:
        ctx.unit = fl
        v, ws = build_view(ctx, fl)
        ctx.attempt(rule1_forward, ctx, fl, v, ws)
        ctx.attempt(rule2_static_init, ctx, fl, v)
        ctx.attempt(rule6_results, ctx, fl, v, ws)
        ctx.attempt(rule7_destructor_protocol, ctx, fl)
        ctx.attempt(rule9_attr, ctx, fl)
        ctx.attempt(rule10_yield, ctx, fl)
        ctx.attempt(rule11_sleep, ctx, fl)
        ctx.attempt(rule12_shared, ctx, fl)
        ctx.attempt(rule15_self_equal, ctx, fl)
    ctx.unit = 'real'
    ctx.attempt(rule8_real, ctx)
    ctx.unit = 'link'
    ctx.attempt(rule4_wraplist, ctx)
    ctx.attempt(rule5_abi, ctx)


WRAP = 'src/myth_wrap_pthread.c'
OPTS = 'src/myth-ld.opts'
C16M1_OLD = "  long ns = a->tv_nsec + b->tv_nsec;\n  c->tv_nsec = ns % 1000000000;"
C16M1_NEW = "  long ns = (a->tv_nsec + b->tv_nsec) % 1000000000;\n  c->tv_nsec = ns;"
MUTANTS = [
    {'name': 'key destructor runs while its key still holds the dying value (seed6 C16/m1)', 'expect': 'C16.19',
     'edits': [('src/myth_tls_func.h', "\tn->entries[i].value = 0;\n\tdestructor(val);", "\tdestructor(val);\n\tn->entries[i].value = 0;")]},
    {'name': 'pthread_once wrapper answers by itself when the control is not in its initial state (seed4 C14/m3)', 'expect': 'C16.1',
     'edits': [(WRAP, "    ret = myth_once_body((myth_once_t *)once_control, init_routine);", "    if (*once_control != PTHREAD_ONCE_INIT) ret = 0;\n    else ret = myth_once_body((myth_once_t *)once_control, init_routine);")]},
    {'name': 'pthread_equal body compares the first argument with itself', 'expect': 'C16.15',
     'edits': [('src/myth_tls_func.h', "  return t1 == t2;", "  return t1 == t1;")]},
    {'name': 'deadline addition loses the nanosecond carry (seed3 C16/m1)', 'expect': 'C16.11',
     'edits': [('src/myth_sched_func.h', C16M1_OLD, C16M1_NEW)]},
    {'name': 'yield re-queues the yielder at the head (seed3 C16/m2)', 'expect': 'C16.10',
     'edits': [('src/myth_sched_func.h', "  myth_queue_put(&env->runnable_q, this_thread);\n  env->this_thread = next_thread;", "  myth_queue_push(&env->runnable_q, this_thread);\n  env->this_thread = next_thread;")]},
    {'name': 'attribute translation skips the stack attributes (sweep M0686)', 'expect': 'C16.9',
     'edits': [(WRAP, "    r = pthread_attr_getstack(p, &m->stackaddr, &m->stacksize);\n    assert(r == 0);\n    return m;", "    return m;")]},
    {'name': 'attribute translation dereferences a NULL attribute (sweep M0687)', 'expect': 'C16.9',
     'edits': [(WRAP, "  if (!p) {\n    return 0;\n  } else {\n    int _ = myth_thread_attr_init_body(m);", "  if (!(!p)) {\n    return 0;\n  } else {\n    int _ = myth_thread_attr_init_body(m);")]},
    {'name': 'pthread_mutex_init leaves the magic word unset (sweep M0402)', 'expect': 'C16.2',
     'edits': [('src/myth_sync_func.h', "  mutex->magic = myth_mutex_magic_no;\n  return 0;", "  return 0;")]},
    {'name': 'losers of the conversion wait while the magic word is NOT initializing (sweep M0338)', 'expect': 'C16.2',
     'edits': [(WRAP, "      while (*magic_p == myth_mutex_magic_no_initializing) { }", "      while (*magic_p != myth_mutex_magic_no_initializing) { }")]},
    {'name': 'real_pthread_attr_getdetachstate dispatches through the inheritsched slot (seed2 C16/m2)', 'expect': 'C16.8',
     'edits': [('src/myth_real.c', "  if (!real_function_table.pthread_attr_getdetachstate) ensure_real_functions();\n  assert(real_function_table.pthread_attr_getdetachstate);\n  return real_function_table.pthread_attr_getdetachstate(attr, detachstate);",
                "  if (!real_function_table.pthread_attr_getinheritsched) ensure_real_functions();\n  assert(real_function_table.pthread_attr_getinheritsched);\n  return real_function_table.pthread_attr_getinheritsched(attr, detachstate);")]},
    {'name': 'real_pthread_mutex_trylock link-time path calls the real lock', 'expect': 'C16.8',
     'edits': [('src/myth_real.c', "  return __real_pthread_mutex_trylock(mutex);", "  return __real_pthread_mutex_lock(mutex);")]},
    {'name': 'pthread_mutex_lock forwarded to trylock', 'expect': 'C16.1',
     'edits': [(WRAP, "    myth_handle_PTHREAD_MUTEX_INITIALIZER(mutex);\n    ret = myth_mutex_lock_body((myth_mutex_t *)mutex);", "    myth_handle_PTHREAD_MUTEX_INITIALIZER(mutex);\n    ret = myth_mutex_trylock_body((myth_mutex_t *)mutex);")]},
    {'name': 'pthread_cond_wait passes its arguments swapped/duplicated', 'expect': 'C16.1',
     'edits': [(WRAP, "    ret = myth_cond_wait_body((myth_cond_t *)cond, (myth_mutex_t *)mutex);", "    ret = myth_cond_wait_body((myth_cond_t *)mutex, (myth_mutex_t *)mutex);")]},
    {'name': 'pthread_join unwrapped path calls the wrong real function', 'expect': 'C16.1',
     'edits': [(WRAP, "    ret = real_pthread_join(thread, retval);", "    ret = real_pthread_tryjoin_np(thread, retval);")]},
    {'name': 'pthread_create ignores the attribute', 'expect': 'C16.1',
     'edits': [(WRAP, "    ret = myth_create_ex_body((myth_thread_t *)thread, mattr, start_routine, arg);", "    ret = myth_create_ex_body((myth_thread_t *)thread, 0, start_routine, arg);")]},
    {'name': 'pthread_key_create drops the result', 'expect': 'C16.1',
     'edits': [(WRAP, "    ret = myth_key_create_body((myth_key_t *)key, destructor);", "    myth_key_create_body((myth_key_t *)key, destructor);\n    ret = 0;")]},
    {'name': 'pthread_mutex_unlock skips the static-initialiser conversion', 'expect': 'C16.2',
     'edits': [(WRAP, "    myth_handle_PTHREAD_MUTEX_INITIALIZER(mutex);\n    ret = myth_mutex_unlock_body((myth_mutex_t *)mutex);", "    ret = myth_mutex_unlock_body((myth_mutex_t *)mutex);")]},
    {'name': 'conversion publishes the magic number before the copy', 'expect': 'C16.2',
     'edits': [(WRAP, "      *m = mi;\n      myth_rwbarrier();\n      *magic_p = myth_mutex_magic_no;", "      *magic_p = myth_mutex_magic_no;\n      mi.magic = myth_mutex_magic_no;\n      *m = mi;\n      myth_rwbarrier();")]},
    {'name': 'conversion without the fence', 'expect': 'C16.2',
     'edits': [(WRAP, "      *m = mi;\n      myth_rwbarrier();\n      *magic_p = myth_mutex_magic_no;", "      *m = mi;\n      *magic_p = myth_mutex_magic_no;")]},
    {'name': 'conversion elected without CAS', 'expect': 'C16.2',
     'edits': [(WRAP, "\t&& __sync_bool_compare_and_swap(magic_p, magic, myth_mutex_magic_no_initializing)) {", "\t&& ((*magic_p = myth_mutex_magic_no_initializing), 1)) {")]},
    {'name': 'conversion CAS also from the initializing value (seed C16/m2)', 'expect': 'C16.2',
     'edits': [(WRAP, "    if (magic != myth_mutex_magic_no_initializing\n\t&& __sync_bool_compare_and_swap(", "    if (__sync_bool_compare_and_swap(")]},
    {'name': '--wrap=pthread_mutex_trylock missing from the link options', 'expect': 'C16.4',
     'edits': [(OPTS, "-Wl,--wrap=pthread_mutex_trylock\n", "")]},
    {'name': 'myth_mutex_t outgrows pthread_mutex_t', 'expect': 'C16.5',
     'edits': [('include/myth/myth.h', "    volatile long state;\t\t/* n_waiters|locked */\n  } myth_mutex_t;", "    volatile long state;\t\t/* n_waiters|locked */\n    long owner_hint[4];\n  } myth_mutex_t;")]},
    {'name': 'mutex magic number zero', 'expect': 'C16.5',
     'edits': [('include/myth/myth.h', "enum { myth_mutex_magic_no = 123456789,", "enum { myth_mutex_magic_no = 0,")]},
    {'name': 'pthread_spin_trylock passes the native boolean through (original defect D10)', 'expect': 'C16.6',
     'edits': [(WRAP, "    ret = (myth_spin_trylock_body((myth_spinlock_t *)lock) ? 0 : EBUSY);", "    ret = myth_spin_trylock_body((myth_spinlock_t *)lock);")]},
    {'name': 'pthread_spin_lock passes the retry counter through (original defect D11)', 'expect': 'C16.6',
     'edits': [(WRAP, "    myth_spin_lock_body((myth_spinlock_t *)lock);\n    ret = 0;", "    ret = myth_spin_lock_body((myth_spinlock_t *)lock);")]},
    {'name': 'mutex unlock returns its retry counter (original defect D12)', 'expect': 'C16.6',
     'edits': [('src/myth_sync_func.h', "  (void)failed;\n  return 0;\n}\n\nstatic inline int\nmyth_mutexattr_init_body", "  return failed;\n}\n\nstatic inline int\nmyth_mutexattr_init_body")]},
    {'name': 'barrier serial value not translated', 'expect': 'C16.6',
     'edits': [(WRAP, "    if (ret == MYTH_BARRIER_SERIAL_THREAD) {\n      ret = PTHREAD_BARRIER_SERIAL_THREAD;\n    } else {\n      assert(ret == 0);\n    }", "    assert(ret == 0 || ret == MYTH_BARRIER_SERIAL_THREAD);")]},
]
