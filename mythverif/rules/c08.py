"""C08 - uncondition variable: signal always hands over the one waiter, early or late."""
from .. import lib
from ..lib import (call_sites, same_value, describe, is_load_of, switch_sites, null_tests, callers_of)
from ..ir import const_int

META = {
    'explanation': 'Uncondition-variable obligations: the waiter slot u->th receives a non-null value only in '
                   'myth_uncond_wait_cb (all TUs), i.e. after the waiter\'s context was saved; myth_uncond_wait_body hands '
                   '(u, current thread) to that callback and saves that thread\'s context; myth_uncond_signal_body spins on a '
                   'volatile load of u->th until non-null, then clears the slot, then pushes exactly that thread on its own '
                   'run queue exactly once and cannot return before the push.'
                   ' The initialiser writes every field the operations read (C08.4).',
    'not_decided': 'exactly-once resumption over repeated rendezvous under every interleaving',
    'assumptions': ['one waiter and one signaler per rendezvous (documented protocol)'],
}
META['explanation'] += ' The push targets the run queue of the executing worker (origin of the env, not only the field; C08.2).'
NATIVE = 'myth_if_native.c'
TH = 'myth_uncond_t.th'


def flavours(ctx):
    return ['vanilla', 'ld', 'dl'] if ctx.tier == 'thorough' else ['vanilla']


def rule1(ctx, fl):
    ctx.doc('C08.1', 'stores to myth_uncond_t.th: non-null values only in myth_uncond_wait_cb (value = callback arg2, slot of '
            'arg1); every other store writes NULL; wait_body: callback myth_uncond_wait_cb gets (u, env->this_thread) and the '
            'saved context is that thread\'s; nothing touches u->th before the switch')
    files = sorted(ctx.db['src'][fl])
    ctx.prefetch([(f, fl, 'src') for f in files])
    seen = set()
    n = 0
    for file in files:
        m = ctx.ssa(file, fl)
        if 'myth_uncond_t' not in m.structs:
            continue  # this TU never sees the type, so it cannot touch the slot
        for fn in m.functions.values():
            for st in fn.stores_to(TH):
                key = (fn.name, st.loc)
                if key in seen:
                    continue
                seen.add(key)
                n += 1
                isnull = isinstance(st.ops[0], dict) and (st.ops[0].get('null') or st.ops[0].get('c') == 0)
                ok = isnull or fn.name == 'myth_uncond_wait_cb'
                ctx.ob('C08.1', '%s: store to u->th' % fn.name, ok,
                       'the waiter is published in the slot only by the switch callback (after its context is saved)',
                       loc=st.loc, detail='' if ok else 'stores %s' % describe(fn, st.ops[0]))
                ctx.ob('C08.1', '%s: slot store is volatile' % fn.name, st.volatile, 'slot accesses are volatile', loc=st.loc)
    ctx.ob('C08.1', 'slot stores found', n >= 3, 'init/destroy/callback/signal stores enumerated', loc='')
    v = ctx.view(NATIVE, roots=['myth_uncond_wait_body', 'myth_uncond_wait_cb'], stops=('myth_queue_pop', 'myth_queue_push'), flavour=fl)
    cb = ctx.need_fn(v, 'myth_uncond_wait_cb')
    sts = cb.stores_to(TH)
    ctx.ob('C08.1', 'callback publishes arg2 in arg1->th', len(sts) == 1 and same_value(cb, sts[0].ops[0], 'a1') and
           same_value(cb, cb.ap(sts[0].ops[1]).root, 'a0'), 'u->th = cur', loc=cb.loc)
    w = ctx.need_fn(v, 'myth_uncond_wait_body')
    sw = [s for s in switch_sites(w) if s.is_swap]
    ctx.ob('C08.1', 'wait: one switch into myth_uncond_wait_cb', len(sw) == 1 and sw[0].callback == 'myth_uncond_wait_cb',
           'wait suspends through the publishing callback', loc=w.loc)
    for s in sw:
        a1, a2, a3 = s.cb_args
        ctx.ob('C08.1', 'wait: arg1 = u', a1 is not None and same_value(w, a1, 'a0'), 'callback arg1 is the variable', loc=s.ins.loc)
        ctx.ob('C08.1', 'wait: arg2 = current thread', a2 is not None and is_load_of(w, a2, 'myth_running_env.this_thread'),
               'callback arg2 is env->this_thread', loc=s.ins.loc)
        frm = s.from_ctx()
        ctx.ob('C08.1', 'wait: saves the waiter', frm is not None and a2 is not None and w.sources(w.ap(frm).root) == w.sources(a2),
               'the context saved is the waiter\'s', loc=s.ins.loc)
        if a2 is not None:
            lds = [w.insts[k] for k in w.sources(a2) if k in w.insts]
            stale = [st for st in w.stores_to('myth_running_env.this_thread') for l in lds if w.can_reach(st, l)]
            ctx.ob('C08.1', 'wait: current thread read before replaced', not stale, 'cur is read before this_thread is overwritten',
                   loc=s.ins.loc)
        early = [i for i in w.mem_accesses(TH) if w.can_reach(i, s.ins)]
        ctx.ob('C08.1', 'wait: slot untouched before the switch', not early, 'the waiter does not write the slot itself', loc=s.ins.loc)
    ctx.floor('C08.1', 12)


def rule2(ctx, fl):
    ctx.doc('C08.2', 'myth_uncond_signal_body: volatile loads of u->th in a spin that exits only non-null; u->th = 0 stored '
            'before the push; exactly one push of the loaded thread on the signaler\'s own run queue; no return before the push')
    v = ctx.view(NATIVE, roots=['myth_uncond_signal_body'], stops=('myth_queue_push',), flavour=fl)
    f = ctx.need_fn(v, 'myth_uncond_signal_body')
    lds = [l for l in f.loads_of(TH)]
    ctx.ob('C08.2', 'reads the slot (volatile)', len(lds) >= 1 and all(l.volatile for l in lds), 'slot loads are volatile', loc=f.loc)
    pushes = call_sites(f, 'myth_queue_push')
    ctx.ob('C08.2', 'exactly one push site', len(pushes) == 1 and not f.in_loop(pushes[0]), 'one push, outside loops', loc=f.loc)
    clears = [s for s in f.stores_to(TH) if isinstance(s.ops[0], dict) and (s.ops[0].get('null') or s.ops[0].get('c') == 0)]
    for p in pushes:
        srcs = f.sources(p.args[1])
        ok = bool(srcs) and all(k in f.insts and f.insts[k] in lds for k in srcs)
        ctx.ob('C08.2', 'pushes the published waiter', ok, 'the thread pushed is what was read from u->th', loc=p.loc)
        okn = any(f.edge_dominates(br.block.id, nn, p) for l in lds for br, nn, nl in null_tests(f, l.id)) or \
            any(f.edge_dominates(br.block.id, nn, p) for ph in f.order if ph.op == 'phi' and set(k for k in f.sources(ph.id)) <= set(l.id for l in lds)
                for br, nn, nl in null_tests(f, ph.id))
        ctx.ob('C08.2', 'push only of a non-null waiter', okn, 'the push is reached only after the slot was seen non-null', loc=p.loc)
        ctx.ob('C08.2', 'slot cleared before the push', any(f.dominates_f(c, p) for c in clears),
               'u->th = 0 precedes the push: once runnable the waiter may immediately wait again on the same variable', loc=p.loc)
        from .c02 import env_origin_ok
        oko, why = env_origin_ok(f, p.args[0])
        ctx.ob('C08.2', 'push on own run queue', lib.arg_is_field_of(f, p.args[0], 'myth_running_env.runnable_q') and oko and not why,
               'the waiter is handed to the signaler\'s scheduler (the run queue of the executing worker: push is an owner-only operation)',
               loc=p.loc, detail='' if oko else str(why))
        for r in f.exits():
            ctx.ob('C08.2', 'no return before the push', f.dominates_f(p, r), 'signal returns only after the hand-over', loc=r.loc)
    # the spin: null edge leads only back to a load
    for l in lds:
        for br, nn, nl in null_tests(f, l.id):
            r = f.reachable_from(lib.first_inst(f, nl), blocked=lds, include_start=True)
            ctx.ob('C08.2', 'spins while the slot is empty', not [i for i in r if i.op == 'ret' or i in pushes],
                   'an empty slot leads only to another load (the waiter announced itself and will publish)', loc=br.loc)
    ctx.floor('C08.2', 7)


def rule_init_complete(ctx, fl):
    ctx.doc('C08.4', 'initialiser completeness: every field of the uncondition variable that myth_uncond_wait_body / myth_uncond_signal_body read(s), directly or through an inlined helper, '
            'is written by myth_uncond_init_body (an object placed in recycled memory must not depend on its previous contents)')
    vi = ctx.view(NATIVE, roots=['myth_uncond_init_body', 'myth_uncond_wait_body', 'myth_uncond_signal_body'], stops=('myth_queue_push', 'myth_queue_pop', 'myth_yield_ex_body', 'hr_gettime', 'fprintf', 'exit') + lib.SPIN_STOPS, flavour=fl)
    n = lib.init_covers(ctx, 'C08.4', vi, 'myth_uncond_init_body', ['myth_uncond_wait_body', 'myth_uncond_signal_body'], 'uncondition variable')
    ctx.ob('C08.4', 'fields read by the operations enumerated', n >= 1, 'read set of the operations', loc='src/myth_sync_func.h', detail=str(n))
    ctx.floor('C08.4', 3)


def run(ctx):
    for fl in flavours(ctx):
        ctx.unit = fl
        ctx.doc('C08.6', 'native API forwarding: each public entry point of this property reaches the implementation of the same name with its parameters in order and returns its result (sibling slips such as trylock -> lock, signal -> broadcast, swapped arguments)')
        ctx.attempt(lib.native_forwarding, ctx, 'C08.6', fl, lambda n: n.startswith('myth_uncond_'), floor=4)
        ctx.attempt(rule_init_complete, ctx, fl)
        ctx.attempt(rule1, ctx, fl)
        ctx.attempt(rule2, ctx, fl)
        from . import c03
        ctx.attempt(c03.rule_handover, ctx, fl, rule='C08.3', only=['myth_uncond_signal_body', 'myth_uncond_wait_cb'])
        from . import c12
        ctx.doc('C08.5', 'signal / wait do not use a worker env obtained before they yielded or switched (stale-value dataflow, '
                'shared with C12.3): the signaller that waits for a late waiter may resume on another worker')
        ctx.attempt(c12.rule3_env, ctx, fl, rule='C08.5', only=['myth_uncond_signal', 'myth_uncond_wait'], units=[('myth_if_native.c', None)])


SYNC = 'src/myth_sync_func.h'
MUTANTS = [
    {'name': 'signal pushes the waiter on the run queue of the worker it last ran on (hand mutant r6)', 'expect': 'C08.2',
     'edits': [(SYNC, "  to_wake->env = env;\n  u->th = 0;\n  myth_queue_push(&env->runnable_q, to_wake);\n  return 0;", "  u->th = 0;\n  myth_queue_push(&to_wake->env->runnable_q, to_wake);\n  return 0;")]},
    {'name': 'native myth_uncond_signal forwards to wait', 'expect': 'C08.6',
     'edits': [('src/myth_if_native.c', "  return myth_uncond_signal_body(u);", "  return myth_uncond_wait_body(u);")]},
    {'name': 'uncond_init forgets the waiter slot', 'expect': 'C08.4',
     'edits': [(SYNC, 'static inline int myth_uncond_init_body(myth_uncond_t * u) {\n  u->th = 0;\n  return 0;', 'static inline int myth_uncond_init_body(myth_uncond_t * u) {\n  (void)u;\n  return 0;')]},
    {'name': 'waiter publishes itself before switching', 'expect': 'C08.1',
     'edits': [(SYNC, "  myth_swap_context_withcall(&cur->context, next_ctx,\n\t\t\t     myth_uncond_wait_cb, u, cur, 0);", "  u->th = cur;\n  myth_swap_context_withcall(&cur->context, next_ctx,\n\t\t\t     myth_uncond_wait_cb, u, cur, 0);")]},
    {'name': 'signal pushes before clearing the slot', 'expect': 'C08.2',
     'edits': [(SYNC, "  to_wake->env = env;\n  u->th = 0;\n  myth_queue_push(&env->runnable_q, to_wake);\n  return 0;", "  to_wake->env = env;\n  myth_queue_push(&env->runnable_q, to_wake);\n  u->th = 0;\n  return 0;")]},
    {'name': 'signal does not wait for a late waiter', 'expect': 'C08.2',
     'edits': [(SYNC, "  myth_thread_t to_wake = u->th;\n  while (!to_wake) {\n    to_wake = u->th;\n  }\n  to_wake->env = env;", "  myth_thread_t to_wake = u->th;\n  if (!to_wake) return 0;\n  to_wake->env = env;")]},
    {'name': 'signal never clears the slot', 'expect': 'C08.2',
     'edits': [(SYNC, "  to_wake->env = env;\n  u->th = 0;\n  myth_queue_push(&env->runnable_q, to_wake);\n  return 0;", "  to_wake->env = env;\n  myth_queue_push(&env->runnable_q, to_wake);\n  return 0;")]},
    {'name': 'signal rebinds the waiter after pushing it (seed C08/m1)', 'expect': 'C08.3',
     'edits': [(SYNC, "  to_wake->env = env;\n  u->th = 0;\n  myth_queue_push(&env->runnable_q, to_wake);\n  return 0;", "  u->th = 0;\n  myth_queue_push(&env->runnable_q, to_wake);\n  to_wake->env = env;\n  return 0;")]},
    {'name': 'wait callback touches the waiter after publishing it (seed C08/m3)', 'expect': 'C08.3',
     'edits': [(SYNC, "  myth_thread_t cur = arg2;\n  u->th = cur;\n}", "  myth_thread_t cur = arg2;\n  u->th = cur;\n  cur->env = NULL;\n}")]},
    {'name': 'wait hands the next thread to the callback', 'expect': 'C08.1',
     'edits': [(SYNC, "\t\t\t     myth_uncond_wait_cb, u, cur, 0);", "\t\t\t     myth_uncond_wait_cb, u, env->this_thread, 0);")]},
]
