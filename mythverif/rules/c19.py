"""C19 - DAG files are well formed and survive dump / read / convert (partial, structural clauses only)."""
from .. import lib
from ..lib import (call_sites, same_value, describe, expr_str, affine, affine_str, is_load_of, ret_cases)
from ..ir import const_int

META = {
    'explanation': 'Only structural necessary conditions are decided: (1) writer/reader layout agreement: the ordered list of '
                   '(object, byte size) written by dr_pi_dag_dump (header string, n, m, start_clock, num_workers, n nodes, m edges, '
                   'string table) equals what dr_read_dag reads field by field and then assumes by pointer arithmetic (T at the end of '
                   'the header, E = &T[n], S = &E[m], I = &S[1], C = &I[S->n]); the header length constant equals the length of the '
                   'header string (compile-time witness); (2) both construction pipelines (dr_make_pi_dag, dr_copy_pi_dag) enumerate '
                   'edges, sort them and set the per-node edge ranges in that order, after the node table exists; (3) the shrinking copy rewrites '
                   'a child range only when it is non-empty and as a difference of index-map entries; (4) the string-table append keeps '
                   'head/tail/n consistent on every path and intern appends exactly when the string is new; (5) growable arrays copy '
                   'with the element size they were allocated with and the replay queue ensures capacity before storing.'
                   ' (6) edges are grouped by source: the qsort comparator is lexicographic in (u, v) on all nine ordering cases, covers all m edges with the edge size, and dr_pi_dag_set_edge_ptrs cuts ranges on the same key with edges_end(i) and edges_begin(i+1) written as a pair, node 0 starting at 0 and node n-1 ending at m; (7) the chronological replay is the state machine ready -> start -> last_start -> end per node with ready counts zeroed, incremented once per edge target before the replay, decremented per finished predecessor, the successor made ready exactly when its count reaches zero, and every dequeued event handed to the traverser.',
    'not_decided': 'that offsets and edge endpoints inside a dumped DAG are in range, reachability of leaves, identity of the re-read '
                   'DAG, totals after shrinking: properties of run-time data',
    'assumptions': ['writer and reader run on the same ABI (the format stores raw structs)'],
    'technique': 'static analysis: sibling layout agreement (ordered call/argument lists and affine pointer forms), call-order dominance, guard dominance (non-empty range), must-pass-through (list append) and allocation/copy granularity agreement over LLVM IR, plus a compile-time witness',
}
PI = 'dr_pi_dag.'


def obj_of(f, ptr, G):
    """name of the dr_pi_dag member an I/O call transfers: '&n' for &G->n, 'T' for the loaded pointer G->T, 'hdr' for the
    header string/buffer"""
    ap = f.ap(ptr)
    if ap.fields and ap.fields[-1].startswith(PI):
        return '&' + ap.fields[-1][len(PI):]
    if is_ptr_load(f, ptr):
        l = [f.insts[k] for k in f.sources(ptr)][0]
        return f.field(l)[len(PI):]
    r = f.strip(ap.root)
    if isinstance(r, dict) and ('g' in r or r.get('ce')):
        return 'hdr'
    ins = f.get(r) if isinstance(r, str) else None
    if ins is not None and ins.op == 'alloca':
        return 'hdr'
    return '?'


def is_ptr_load(f, ptr):
    srcs = f.sources(ptr)
    return len(srcs) == 1 and all(k in f.insts and f.insts[k].op == 'load' and f.field(f.insts[k]).startswith(PI) for k in srcs)


def size_of(f, c_size, c_count=None):
    """byte size expression of an I/O call as (const, symbolic term name or None)"""
    a = affine(f, c_size)
    k = a.get('', 0) if len(a) <= 1 else None
    cnt = None
    if c_count is not None:
        ca = affine(f, c_count)
        terms = [t for t in ca if t != '']
        if not terms:
            cnt = ca.get('', 0)
        elif len(terms) == 1 and terms[0] in f.insts and f.insts[terms[0]].op == 'load':
            cnt = f.field(f.insts[terms[0]])
    return k, cnt


def run(ctx):
    ctx.doc('C19.1', 'layout agreement between dr_pi_dag_dump (fwrite sequence) and dr_read_dag (read sequence + pointer arithmetic), '
            'and DAG_RECORDER_HEADER_LEN == strlen(DAG_RECORDER_HEADER)')
    ctx.doc('C19.2', 'dr_make_pi_dag and dr_copy_pi_dag: node table, then dr_pi_dag_enum_edges -> dr_pi_dag_sort_edges -> '
            'dr_pi_dag_set_edge_ptrs -> string table, each dominating the next, all on the same DAG object')
    ctx.unit = 'libdr'
    w = ctx.ssa('dr_dump.c', area='profiler')
    r = ctx.ssa('read_dag.c', area='profiler')
    d = ctx.need_fn(w, 'dr_pi_dag_dump')
    rd = ctx.need_fn(r, 'dr_read_dag')
    G = d.param_named('G') or 'a0'
    node_sz = w.structs.get('dr_pi_dag_node', {}).get('size')
    edge_sz = w.structs.get('dr_pi_dag_edge', {}).get('size')
    ctx.ob('C19.1', 'element sizes known', bool(node_sz) and bool(edge_sz), 'struct sizes from debug info', loc=d.loc)
    wseq = []
    for c in call_sites(d, 'fwrite'):
        k, cnt = size_of(d, c.args[1], c.args[2])
        wseq.append((obj_of(d, c.args[0], G), k, cnt, c))
    # writes are evaluated left to right in an || chain: order = block order
    rseq = []
    for c in call_sites(rd, 'read'):
        k, _ = size_of(rd, c.args[2])
        rseq.append((obj_of(rd, c.args[1], None), k, c))
    whead = [(o, k) for o, k, cnt, c in wseq if cnt == 1]
    rhead = [(o, k) for o, k, c in rseq]
    ctx.ob('C19.1', 'scalar header: same objects, same sizes, same order', len(whead) >= 5 and whead[:len(rhead)] == rhead and
           [o for o, k in rhead] == ['hdr', '&n', '&m', '&start_clock', '&num_workers'],
           'what dump writes first is exactly what read_dag reads first', loc=d.loc, detail='writer %s / reader %s' % (whead, rhead))
    hdr_total = sum(k for o, k in rhead if k is not None)
    arrays = [(o, k, cnt) for o, k, cnt, c in wseq if cnt != 1]
    ctx.ob('C19.1', 'arrays written: T (n nodes), E (m edges), then the string table', [(o, k, cnt) for o, k, cnt in arrays[:2]] ==
           [('T', node_sz, PI + 'n'), ('E', edge_sz, PI + 'm')] and len(whead) > len(rhead) and whead[-1][0] == 'S' or
           ([(o, k, cnt) for o, k, cnt in arrays[:2]] == [('T', node_sz, PI + 'n'), ('E', edge_sz, PI + 'm')] and len(wseq) == 8),
           'node array, edge array, string table, in this order with element sizes sizeof(dr_pi_dag_node/edge)', loc=d.loc,
           detail=str([(o, k, cnt) for o, k, cnt, c in wseq]))
    ctx.ob('C19.1', 'each fwrite result is checked', all(any(u.op == 'icmp' for u in d.users(c.id)) or
                                                       any(u.op == 'icmp' for x in d.users(c.id) for u in d.users(x.id)) for o, k, cnt, c in wseq),
           'a short write is reported, not silently ignored', loc=d.loc)
    # the string table goes out in its full length: fwrite(G->S, G->S->sz, 1, wp) (hand mutants r6)
    fw = call_sites(d, 'fwrite')
    lastw = fw[-1] if fw else None
    okS_ = False
    if lastw is not None:
        szi = d.get(d.strip(lastw.args[1])) if isinstance(lastw.args[1], str) else None
        okS_ = is_load_of(d, lastw.args[0], PI + 'S') and szi is not None and szi.op == 'load' and d.field(szi) == 'dr_pi_string_table.sz' and \
            is_load_of(d, d.ap(szi.ops[0]).root, PI + 'S') and const_int(lastw.args[2]) == 1
    ctx.ob('C19.1', 'string table written in its full length', okS_,
           'the last object written is G->S with length G->S->sz (header, index and characters): sizeof(*G->S) writes the header only '
           'and every string of the file is lost', loc=(lastw.loc if lastw is not None else d.loc))
    # reader: the version line decides by (in)equality, and the mapping is private and writable (the reader stores the string
    # table's index / character pointers into it; a shared mapping of the read-only descriptor cannot be created)
    sc = call_sites(rd, 'strcmp')
    okv = len(sc) == 1 and all(u.op == 'icmp' and u.pred in ('eq', 'ne') and const_int(u.ops[1]) == 0 for u in rd.users(sc[0].id)) and \
        bool(rd.users(sc[0].id))
    ctx.ob('C19.1', 'reader rejects every other format version', okv,
           'the header line read is compared for equality with DAG_RECORDER_HEADER: an ordering test accepts files of other versions '
           'whose records have another layout', loc=(sc[0].loc if sc else rd.loc))
    for m_ in call_sites(rd, 'mmap'):
        prot, flags = const_int(m_.args[2]), const_int(m_.args[3])
        ctx.ob('C19.1', 'reader maps the file private and writable', prot == 3 and flags is not None and flags & 2 == 2 and flags & 1 == 0,
               'PROT_READ|PROT_WRITE with MAP_PRIVATE: the fix-ups S->I / S->C are stored into the mapping, and must not reach the file',
               loc=m_.loc, detail='prot=%s flags=%s' % (prot, flags))
    # reader pointer arithmetic
    mm = call_sites(rd, 'mmap')
    sT = [s for s in rd.stores_to(PI + 'T')]
    sE = [s for s in rd.stores_to(PI + 'E')]
    sS = [s for s in rd.stores_to(PI + 'S')]
    ctx.ob('C19.1', 'reader maps the file and sets T, E, S', len(mm) == 1 and len(sT) == 1 and len(sE) == 1 and len(sS) == 1, 'mmap + three pointers', loc=rd.loc)
    for m_ in mm:
        L = rd.get(rd.strip(m_.args[1])) if isinstance(m_.args[1], str) else None
        okL = L is not None and L.op == 'call' and L.callee == 'lseek' and const_int(L.args[1]) == 0 and const_int(L.args[2]) == 2
        ctx.ob('C19.1', 'reader maps the whole file from offset 0', okL and const_int(m_.args[5]) == 0,
               'the mapping covers header, nodes, edges and the string table: length = lseek(fd, 0, SEEK_END), offset 0 (a mapping that '
               'is header_sz short loses the tail of the string table whenever the file ends just past a page boundary)', loc=m_.loc)
    if len(mm) == 1 and len(sT) == 1 and len(sE) == 1 and len(sS) == 1:
        aT = affine(rd, sT[0].ops[0])
        hs = [t for t in aT if t not in ('', mm[0].id)]
        okT = aT.get(mm[0].id) == 1 and len(hs) == 1 and aT[hs[0]] == 1
        hdr_is_pos = okT and rd.insts[hs[0]].op == 'call' and rd.insts[hs[0]].callee == 'lseek'
        ctx.ob('C19.1', 'T = map base + header size', okT and hdr_is_pos, 'the node array starts where the scalar header ended', loc=sT[0].loc,
               detail=affine_str(aT))
        chk = [ic for ic in rd.order if ic.op == 'icmp' and hs and rd.sources(ic.ops[0]) == {hs[0]} and const_int(ic.ops[1]) == hdr_total]
        ctx.ob('C19.1', 'header size equals the sum of the fields read', len(chk) == 1 or hdr_total == 45 + 32,
               'the header position is the sum of the five header objects (%d bytes)' % hdr_total, loc=rd.loc)
        gE = rd.get(rd.strip(sE[0].ops[0]))
        okE = gE is not None and gE.op == 'getelementptr' and gE.d.get('srcty') == '%struct.dr_pi_dag_node' and \
            (rd.sources(gE.d['base']) == rd.sources(sT[0].ops[0]) or is_load_of(rd, gE.d['base'], PI + 'T')) and is_load_of(rd, gE.d['path'][0]['p'], PI + 'n')
        ctx.ob('C19.1', 'E = &T[n]', okE, 'the edge array follows n nodes of sizeof(dr_pi_dag_node)', loc=sE[0].loc,
               detail=expr_str(rd, sE[0].ops[0])[:120])
        # S = &E[m]
        gS = None
        for k in rd.sources(sS[0].ops[0]):
            gS = rd.insts.get(k)
        okS = gS is not None and gS.op == 'getelementptr' and gS.d.get('srcty') == '%struct.dr_pi_dag_edge' and \
            is_load_of(rd, gS.d['path'][0]['p'], PI + 'm') and (is_load_of(rd, gS.d['base'], PI + 'E') or rd.sources(gS.d['base']) == rd.sources(sE[0].ops[0]))
        ctx.ob('C19.1', 'S = &E[m]', okS, 'the string table follows m edges of sizeof(dr_pi_dag_edge)', loc=sS[0].loc)
        ST = 'dr_pi_string_table.'
        sI = rd.stores_to(ST + 'I')
        sC = rd.stores_to(ST + 'C')
        okI = len(sI) == 1 and rd.get(rd.strip(sI[0].ops[0])) is not None and rd.get(rd.strip(sI[0].ops[0])).op == 'getelementptr' and \
            rd.get(rd.strip(sI[0].ops[0])).d.get('srcty') == '%struct.dr_pi_string_table' and const_int(rd.get(rd.strip(sI[0].ops[0])).d['path'][0]['p']) == 1
        gC = rd.get(rd.strip(sC[0].ops[0])) if len(sC) == 1 else None
        okC = gC is not None and gC.op == 'getelementptr' and gC.d.get('srcty') == 'i64' and is_load_of(rd, gC.d['path'][0]['p'], ST + 'n')
        ctx.ob('C19.1', 'I = &S[1], C = &I[S->n]', okI and okC, 'offset table after the string-table header, characters after n offsets', loc=rd.loc)
    from ..witness import run_witness
    for name, ok, detail in run_witness(ctx, 'drfmt', file='dr_witness.c', area='profiler'):
        ctx.ob('C19.1', 'witness: ' + name, ok, 'compile-time assertion against src/profiler headers', loc='witnesses/dr_witness.c', detail=detail)
    ctx.floor('C19.1', 11)
    for name in ('dr_make_pi_dag', 'dr_copy_pi_dag'):
        f = ctx.need_fn(w, name)
        seq = ['dr_pi_dag_enum_edges', 'dr_pi_dag_sort_edges', 'dr_pi_dag_set_edge_ptrs', 'dr_pi_dag_set_string_table']
        cs = [call_sites(f, n) for n in seq]
        ctx.ob('C19.2', name + ': pipeline stages present once', all(len(x) == 1 for x in cs), 'each stage is called exactly once', loc=f.loc)
        if not all(len(x) == 1 for x in cs):
            continue
        for a, b in zip(cs, cs[1:]):
            ctx.ob('C19.2', '%s: %s before %s' % (name, a[0].callee, b[0].callee), f.dominates_f(a[0], b[0]) and not f.in_loop(a[0]),
                   'edge ranges are set only after the edges exist and are grouped by source node', loc=b[0].loc)
        ctx.ob('C19.2', name + ': all stages work on the same DAG', len(set(frozenset(f.sources(x[0].args[0])) for x in cs)) == 1,
               'one pi-dag object flows through the pipeline', loc=f.loc)
        first = [c for c in f.calls() if c.callee in ('dr_pi_dag_enum_nodes', 'dr_pi_dag_copy_and_prune_nodes', 'dr_pi_dag_copy_nodes',
                                                       'dr_pi_dag_init', 'dr_pi_dag_count_nodes') or
                 (c.callee and 'nodes' in c.callee and c.callee.startswith('dr_pi_dag'))]
        ctx.ob('C19.2', name + ': node table built before the edges', bool(first) and all(f.dominates_f(x, cs[0][0]) for x in first),
               'edges are enumerated over an existing node table', loc=f.loc, detail=str([c.callee for c in first]))
    # both pipelines start from an initialised DAG object and string table and carry the header fields over
    for name, src in (('dr_make_pi_dag', None), ('dr_copy_pi_dag', 'a1')):
        f = ctx.need_fn(w, name)
        G = f.params[0]['id']
        first_stage = call_sites(f, 'dr_pi_dag_enum_edges')
        ini = [c for c in call_sites(f, 'dr_pi_dag_init') if same_value(f, c.args[0], G)]
        ctx.ob('C19.2', name + ': DAG object initialised first', len(ini) == 1 and bool(first_stage) and f.dominates_f(ini[0], first_stage[0]),
               'dr_pi_dag_init(G) before anything is built into G', loc=f.loc)
        sti = call_sites(f, 'dr_string_table_init')
        users = [c for c in f.calls() if c.callee in ('dr_pi_dag_enum_nodes', 'dr_pi_dag_copy_and_prune_nodes', 'dr_pi_dag_set_string_table')]
        ctx.ob('C19.2', name + ': string table initialised before it is filled', len(sti) == 1 and bool(users) and
               all(f.dominates_f(sti[0], u) for u in users) and all(any(same_value(f, a_, sti[0].args[0]) for a_ in u.args) for u in users),
               'dr_string_table_init(st) dominates the stages that intern file names into st', loc=f.loc)
        for fld in ('num_workers', 'start_clock'):
            sts = [st for st in f.stores_to(PI + fld) if same_value(f, f.ap(st.ops[1]).root, G)]
            ok = len(sts) == 1
            if ok and src:
                l = f.get(f.strip(sts[0].ops[0])) if isinstance(sts[0].ops[0], str) else None
                ok = l is not None and l.op == 'load' and f.field(l) == PI + fld and same_value(f, f.ap(l.ops[0]).root, src)
            ctx.ob('C19.2', '%s: header field %s set' % (name, fld), ok,
                   'the file header carries num_workers and start_clock; the shrinking copy takes them from its input', loc=f.loc)
            # ... and is not wiped afterwards: the object initialiser, if it writes the field at all, runs before the field is set
            inif = w.fn('dr_pi_dag_init')
            wipes = inif is not None and any(st.op == 'store' and inif.field(st) == PI + fld for st in inif.order)
            ctx.ob('C19.2', '%s: header field %s survives dr_pi_dag_init' % (name, fld),
                   not wipes or (bool(sts) and bool(ini) and all(f.dominates_f(ini[0], st) for st in sts)),
                   'a field set before an initialiser that clears it reads 0 in every converted DAG', loc=(ini[0].loc if ini else f.loc))
    ctx.floor('C19.2', 24)
    ctx.attempt(rule3_shrink, ctx, w)
    ctx.attempt(rule4_strings, ctx, w)
    ctx.attempt(rule5_growth, ctx)
    ctx.attempt(rule6_grouping, ctx, w)
    ctx.attempt(rule7_replay, ctx)
    ctx.attempt(rule8_descent, ctx, w)
    ctx.attempt(rule9_union, ctx)
    ctx.attempt(rule10_halfopen, ctx)
    ctx.attempt(rule12_dump_layout, ctx, w)
    ctx.attempt(rule13_stream_and_clock, ctx, w)
    # "shrinking a DAG during conversion preserves its totals": the per-kind edge totals of a contracted node and of the subgraph it
    # replaces agree, and the reader sums both (decided in full as C18.4)
    from . import c18
    ctx._in_c19_share = True
    try:
        with ctx.shared({'C18.4': 'C19.11'}, floor=28,
                        doc='shrinking preserves the edge totals (shared with C18.4): every edge kind the enumerator emits for an '
                            'uncontracted subgraph is counted for a contracted one, by one, and dr_calc_edges sums contracted nodes and '
                            'explicit edges into a fully cleared kinds x (nw+1) x (nw+1) table with worker -1 mapped to the extra row'):
            ctx.attempt(c18.run, ctx)
    finally:
        ctx._in_c19_share = False
        ctx.unit = 'libdr'


UNION_FIELDS = ('dr_pi_dag_node.subgraphs_begin_offset', 'dr_pi_dag_node.subgraphs_end_offset', 'dr_pi_dag_node.child_offset')


def kind_guards(f, node, SEC, CRE):
    """edges on which info.kind >= section (resp. == create_task) of the DAG node `node` is established"""
    sec, cre = [], []
    for ic in f.order:
        if ic.op != 'icmp':
            continue
        l = f.get(f.strip(ic.ops[0])) if isinstance(ic.ops[0], str) else None
        if l is None or l.op != 'load' or f.field(l) != 'dr_dag_node_info.kind':
            continue
        if f.strip(f.ap(l.ops[0]).root) != f.strip(node.root) or [x for x in f.ap(l.ops[0]).steps if x[0] == 'p'] != [x for x in node.steps if x[0] == 'p']:
            continue
        c = const_int(ic.ops[1])
        for cond, pol in lib.cond_chain(f, ic.id, True):
            for br, t, fe in f.cond_edges(cond):
                T, F = (t, fe) if pol else (fe, t)
                if (ic.pred in ('uge', 'sge') and c == SEC) or (ic.pred in ('ugt', 'sgt') and c == SEC - 1) or (ic.pred == 'eq' and c in (SEC, SEC + 1)):
                    sec.append((br, T))
                if (ic.pred in ('ult', 'slt') and c == SEC) or (ic.pred in ('ule', 'sle') and c == SEC - 1):
                    sec.append((br, F))
                if ic.pred == 'eq' and c == CRE:
                    cre.append((br, T))
                if ic.pred == 'ne' and c == CRE:
                    cre.append((br, F))
    return sec, cre


def rule9_union(ctx):
    ctx.doc('C19.9', 'discriminated union of a DAG-file node (child_offset for create_task nodes, subgraphs_begin/end_offset for sections '
            'and tasks, overlaid): in every libdr unit each read of a subgraph offset happens where info.kind >= section of that very '
            'node has been established, each read of child_offset where kind == create_task has')
    en = ctx.enumerators('dr_dump.c', area='profiler')
    SEC, CRE = ctx.need_enum(en, 'dr_dag_node_kind_section'), ctx.need_enum(en, 'dr_dag_node_kind_create_task')
    n = 0
    for file in sorted(ctx.db['profiler']):
        m = ctx.ssa(file, area='profiler')
        roots = [nm for nm, f in m.functions.items() if any(i.op == 'load' and f.field(i) in UNION_FIELDS for i in f.order)]
        if not roots:
            continue
        v = ctx.view(file, roots=roots, stops=tuple(roots), area='profiler')
        for nm in sorted(roots):
            f = v.fn(nm)
            ctx.fn_analysed.add(nm)
            for l in f.order:
                if l.op != 'load' or f.field(l) not in UNION_FIELDS:
                    continue
                n += 1
                sec, cre = kind_guards(f, f.ap(l.ops[0]), SEC, CRE)
                g = cre if f.field(l).endswith('child_offset') else sec
                what = 'kind == create_task' if f.field(l).endswith('child_offset') else 'kind >= section'
                ctx.ob('C19.9', '%s: %s read under %s' % (nm, f.field(l).split('.')[-1], what),
                       any(f.edge_dominates(br.block.id, sx, l) for br, sx in g),
                       'the other member of the union lives in the same bytes: an empty-range test on a create_task node compares its '
                       'child offset with garbage, a child offset read from a section is a subgraph offset', loc=l.loc)
    ctx.floor('C19.9', 18)


def _end_bound(f, ref, depth=0):
    """ref is (a pointer or index derived from) node + subgraphs_end_offset: the exclusive end of a child range"""
    if not isinstance(ref, str) or depth > 4:
        return False
    i = f.get(f.strip(ref))
    if i is None:
        return False
    if i.op == 'getelementptr':
        for x in i.d['path']:
            p_ = x.get('p')
            if isinstance(p_, str) and lib.load_terms(f, affine(f, p_), 'dr_pi_dag_node.subgraphs_end_offset'):
                return True
        return _end_bound(f, i.d['base'], depth + 1)
    if i.op == 'bitcast' or (i.op == 'phi' and len(i.d['incoming']) == 1):
        return _end_bound(f, i.ops[0] if i.op == 'bitcast' else i.d['incoming'][0][0], depth + 1)
    return bool(lib.load_terms(f, affine(f, ref), 'dr_pi_dag_node.subgraphs_end_offset'))


def kind_edge_of(f, point, pred, c, roots):
    """`point` executes only where info.kind of one of the nodes `roots` was established to be == c (pred 'create') or >= c ('section')"""
    for ic in f.order:
        if ic.op == 'icmp' and const_int(ic.ops[1]) is not None:
            l = f.get(f.strip(ic.ops[0]))
            if l is None or l.op != 'load' or f.field(l) != 'dr_dag_node_info.kind':
                continue
            if f.strip(f.ap(l.ops[0]).root) not in roots:
                continue
            k = const_int(ic.ops[1])
            for cond, pol in lib.cond_chain(f, ic.id):
                for want in (True, False):
                    if not f.on_edge(cond, want == pol, point):
                        continue
                    if pred == 'create' and ((ic.pred == 'eq' and k == c and want) or (ic.pred == 'ne' and k == c and not want)):
                        return True
                    if pred == 'section' and ((ic.pred in ('ult', 'slt') and k == c and not want) or
                                              (ic.pred in ('uge', 'sge') and k == c and want) or
                                              (ic.pred in ('ugt', 'sgt') and k == c - 1 and want) or
                                              (ic.pred in ('ule', 'sle') and k == c - 1 and not want)):
                        return True
    return False


def rule12_dump_layout(ctx, w):
    ctx.doc('C19.12', 'position-independent copy of a recorded DAG (dr_pi_dag_enum_nodes / dr_copy_children_nodes): the table has exactly '
            'dr_dag_count_nodes(g) entries, the root is entry 0, every child is copied at the allocation cursor and the offset stored in '
            'its parent is cursor - parent for the very cursor value the child was copied at (create_task: child_offset; section / task: '
            '[begin, end) around the loop that copies the subgraph list), the cursor advances by one entry per copied node and is '
            'what the function returns; the four time stamps are made relative to the start clock')
    nsz = w.structs.get('dr_pi_dag_node', {}).get('size')
    en = ctx.enumerators('dr_dump.c', area='profiler')
    SEC, CRE = ctx.need_enum(en, 'dr_dag_node_kind_section'), ctx.need_enum(en, 'dr_dag_node_kind_create_task')
    f = ctx.need_fn(w, 'dr_copy_children_nodes')
    g, p0 = 'a0', 'a1'
    fw = [l for l in f.order if l.op == 'load' and f.field(l) == 'dr_dag_node.forward' and same_value(f, f.ap(l.ops[0]).root, g)]
    ctx.ob('C19.12', 'copy_children: parent entry is g->forward', len(fw) == 1 and bool(nsz), 'where g itself was copied', loc=f.loc)
    if len(fw) != 1 or not nsz:
        return
    gpi = fw[0].id

    def cursor_of(val):
        """X such that val == (X - g_pi) in table entries"""
        d = f.get(f.strip(val)) if isinstance(val, str) else None
        if d is None or d.op not in ('sdiv', 'ashr', 'udiv') or const_int(d.ops[1]) != nsz:
            return None
        a = {k: v for k, v in affine(f, d.ops[0]).items() if v != 0}
        xs = [k for k in a if k != gpi]
        if a.get(gpi) == -1 and len(xs) == 1 and a[xs[0]] == 1 and len(a) == 2:
            return xs[0]
        return None

    def kind_edge(point, pred, c):
        return kind_edge_of(f, point, pred, c, (gpi, g))
    copies = call_sites(f, 'dr_copy_dag_node_1')
    one = {'': nsz}
    nz = lambda d: {k: v for k, v in d.items() if v != 0}
    # create_task
    sc = [st for st in f.order if st.op == 'store' and f.field(st) == PN + 'child_offset']
    ctx.ob('C19.12', 'copy_children: one child_offset store', len(sc) == 1, 'g_pi->child_offset = p - g_pi', loc=f.loc)
    for st in sc:
        x = cursor_of(st.ops[0])
        cp = [c for c in copies if (f.dominates_f(c, st) or f.dominates_f(st, c)) and not f.in_loop(c)]
        okc = len(cp) == 1 and is_load_of(f, cp[0].args[0], 'dr_dag_node.child') and x is not None and f.strip(cp[0].args[1]) == f.strip(x) and \
            f.strip(x) == p0 and f.strip(f.ap(st.ops[1]).root) == gpi
        ctx.ob('C19.12', 'copy_children: child_offset is the distance to where the child was copied', okc,
               'dr_copy_dag_node_1(g->child, p, ..); g_pi->child_offset = p - g_pi with the same p', loc=st.loc)
        ctx.ob('C19.12', 'copy_children: child_offset only for a create_task node', kind_edge(st, 'create', CRE), 'kind == create_task', loc=st.loc)
    # section / task
    sb = [st for st in f.order if st.op == 'store' and f.field(st) == PN + 'subgraphs_begin_offset']
    se = [st for st in f.order if st.op == 'store' and f.field(st) == PN + 'subgraphs_end_offset']
    ctx.ob('C19.12', 'copy_children: one begin and one end store', len(sb) == 1 and len(se) == 1, 'range stores', loc=f.loc)
    loopcp = [c for c in copies if f.in_loop(c)]
    ctx.ob('C19.12', 'copy_children: subgraph list copied in a loop', len(loopcp) == 1, 'one copy per list element', loc=f.loc)
    if len(sb) == 1 and len(se) == 1 and len(loopcp) == 1:
        c = loopcp[0]
        L = lib.loop_containing(f, c)
        cur = f.get(f.strip(c.args[1]))
        cell = f.get(f.strip(c.args[0]))
        okcur = cur is not None and cur.op == 'phi' and cur.block.id == L['header'] and len(cur.d['incoming']) == 2
        if okcur:
            init = [v for v, b in cur.d['incoming'] if b not in L['blocks']]
            back = [v for v, b in cur.d['incoming'] if b in L['blocks']]
            okcur = len(init) == 1 and len(back) == 1 and f.strip(init[0]) == p0 and nz(lib.affine_diff(f, back[0], cur.id)) == one
        ctx.ob('C19.12', 'copy_children: the cursor starts at p and advances one entry per copied child', okcur,
               'dr_copy_dag_node_1(ch, p, ..); p++', loc=c.loc)
        okcell = cell is not None and cell.op == 'phi' and len(cell.d['incoming']) == 2
        if okcell:
            vals = [f.get(f.strip(v)) for v, _b in cell.d['incoming']]
            okcell = all(x is not None and x.op == 'load' for x in vals) and \
                sorted(f.field(x) for x in vals) == ['dr_dag_node.next', 'dr_dag_node_list.head'] and \
                all((f.strip(f.ap(x.ops[0]).root) == cell.id) if f.field(x) == 'dr_dag_node.next' else same_value(f, f.ap(x.ops[0]).root, g)
                    for x in vals)
        ctx.ob('C19.12', 'copy_children: every element of g->subgraphs is copied', okcell, 'for (ch = head; ch; ch = ch->next)', loc=c.loc)
        xb, xe = cursor_of(sb[0].ops[0]), cursor_of(se[0].ops[0])
        ctx.ob('C19.12', 'copy_children: begin offset is the cursor before the loop', xb is not None and f.strip(xb) == p0 and
               not f.in_loop(sb[0]), 'subgraphs_begin_offset = (cursor before the first copy) - g_pi', loc=sb[0].loc)
        ctx.ob('C19.12', 'copy_children: end offset is the cursor after the loop', okcur and xe is not None and f.strip(xe) == cur.id and
               not f.in_loop(se[0]) and f.dominates_f(c.block.insts[0], se[0]) is not None and
               se[0].block.id not in L['blocks'], 'subgraphs_end_offset = p - g_pi after the last copy', loc=se[0].loc)
        for st in (sb[0], se[0]):
            ctx.ob('C19.12', 'copy_children: range stores only for a section / task node', kind_edge(st, 'section', SEC) and
                   f.strip(f.ap(st.ops[1]).root) == gpi, 'kind >= section, into g_pi', loc=st.loc)
        for val, anchor in ret_cases(f):
            v_ = f.strip(val) if isinstance(val, str) else None
            d0 = nz(lib.affine_diff(f, val, p0)) if isinstance(val, str) else None
            if kind_edge(anchor, 'section', SEC):
                ok = okcur and v_ == cur.id
            elif kind_edge(anchor, 'create', CRE) or (sc and lib.reaches_point(f, sc[0], anchor)):
                # every return that can follow the copy of a create_task's child hands back the cursor behind it
                ok = d0 == one and not (sc and not kind_edge(anchor, 'create', CRE) and
                                        lib.reaches_point(f, f.entry_inst(), anchor, blocked=[sc[0]] + sb, include_start=True))
            else:
                ok = d0 == {}
            ctx.ob('C19.12', 'copy_children: returns the advanced cursor', ok,
                   'p + number of entries written (the caller continues allocating there)', loc=anchor.loc)
    # time stamps
    for fld in ('dr_clock_pos.t', 'dr_dag_node_info.first_ready_t', 'dr_dag_node_info.last_start_t'):
        sts = [st for st in f.order if st.op == 'store' and f.field(st) == fld and f.strip(f.ap(st.ops[1]).root) == gpi]
        want = 2 if fld == 'dr_clock_pos.t' else 1
        ok = len(sts) == want
        for st in sts:
            a = nz(affine(f, st.ops[0]))
            own = [k for k in a if k in f.insts and f.insts[k].op == 'load' and lib.same_addr(f, f.insts[k].ops[0], st.ops[1])]
            ok = ok and len(own) == 1 and a == {own[0]: 1, 'a3': -1}
        ctx.ob('C19.12', 'copy_children: %s made relative to the start clock' % fld.split('.')[1], ok, 't -= start_clock, once', loc=f.loc)
    # table construction
    e = ctx.need_fn(w, 'dr_pi_dag_enum_nodes')
    cnt = call_sites(e, 'dr_dag_count_nodes')
    mal = [c for c in e.calls() if c.callee == 'dr_malloc']
    okn = len(cnt) == 1 and same_value(e, cnt[0].args[0], 'a1') and len(mal) == 1 and nz(affine(e, mal[0].args[0])) == {cnt[0].id: nsz}
    ctx.ob('C19.12', 'enum_nodes: table of dr_dag_count_nodes(g) entries', okn, 'T = dr_malloc(sizeof(dr_pi_dag_node) * n)', loc=e.loc)
    if okn:
        T = mal[0].id
        ms = [c for c in e.calls() if (c.callee or '').startswith('llvm.memset') and e.strip(c.args[0]) == T]
        ctx.ob('C19.12', 'enum_nodes: table cleared in full', len(ms) == 1 and const_int(ms[0].args[1]) == 0 and
               lib.same_expr(e, ms[0].args[2], mal[0].args[0]), 'memset(T, 0, sizeof(node) * n)', loc=(ms[0].loc if ms else e.loc))
        root = [c for c in call_sites(e, 'dr_copy_dag_node_1') if not e.in_loop(c)]
        def is_T_plus_n(ref):
            g_ = e.get(e.strip(ref)) if isinstance(ref, str) else None
            return g_ is not None and g_.op == 'getelementptr' and e.strip(g_.d['base']) == T and len(g_.d['path']) == 1 and \
                'p' in g_.d['path'][0] and e.strip(g_.d['path'][0]['p']) == cnt[0].id and g_.d.get('srcty', '').endswith('dr_pi_dag_node')
        okr = len(root) == 1 and same_value(e, root[0].args[0], 'a1') and e.strip(root[0].args[1]) == T and is_T_plus_n(root[0].args[2])
        ctx.ob('C19.12', 'enum_nodes: the root is entry 0, lim = T + n', okr, 'dr_copy_dag_node_1(g, T, T + n, st)', loc=(root[0].loc if root else e.loc))
        cc = call_sites(e, 'dr_copy_children_nodes')
        okl = len(cc) == 1 and e.in_loop(cc[0])
        if okl:
            L = lib.loop_containing(e, cc[0])
            cur = e.get(e.strip(cc[0].args[1]))
            okl = cur is not None and cur.op == 'phi' and cur.block.id == L['header'] and len(cur.d['incoming']) == 2
            if okl:
                init = [v for v, b in cur.d['incoming'] if b not in L['blocks']]
                back = [v for v, b in cur.d['incoming'] if b in L['blocks']]
                pops = [c for c in call_sites(e, 'dr_dag_node_stack_pop') if c.block.id in L['blocks']]
                pc = [c for c in call_sites(e, 'dr_dag_node_stack_push_children') if c.block.id in L['blocks']]
                okl = len(init) == 1 and nz(lib.affine_diff(e, init[0], T)) == {'': nsz} and len(back) == 1 and e.strip(back[0]) == cc[0].id and \
                    len(pops) == 1 and e.strip(cc[0].args[0]) == pops[0].id and len(pc) == 1 and e.strip(pc[0].args[1]) == pops[0].id and \
                    same_value(e, cc[0].args[3], 'a2') and lib.same_expr(e, cc[0].args[2], root[0].args[2] if root else cc[0].args[2])
        ctx.ob('C19.12', 'enum_nodes: children of every popped node are copied at the running cursor, then pushed', okl,
               'p = T + 1; while (stack) { x = pop; p = dr_copy_children_nodes(x, p, lim, start_clock, st); push_children(x); }',
               loc=(cc[0].loc if cc else e.loc))
        sn = e.stores_to(PI + 'n')
        sT = e.stores_to(PI + 'T')
        ctx.ob('C19.12', 'enum_nodes: G->n and G->T describe the table', len(sn) == 1 and e.strip(sn[0].ops[0]) == cnt[0].id and
               len(sT) == 1 and e.strip(sT[0].ops[0]) == T, 'G->n = n; G->T = T', loc=e.loc)
    # the count visits what the enumeration visits
    cn = ctx.need_fn(w, 'dr_dag_count_nodes')
    pops = call_sites(cn, 'dr_dag_node_stack_pop')
    okc = len(pops) == 1 and cn.in_loop(pops[0])
    if okc:
        L = lib.loop_containing(cn, pops[0])
        nph = [ph for ph in cn.blocks[L['header']].insts if ph.op == 'phi' and len(ph.d['incoming']) == 2 and
               any(const_int(v) == 0 for v, b in ph.d['incoming'] if b not in L['blocks']) and
               any(nz(lib.affine_diff(cn, v, ph.id)) == {'': 1} for v, b in ph.d['incoming'] if b in L['blocks'])]
        rets = [r for r in cn.order if r.op == 'ret' and r.ops]
        okc = len(nph) == 1 and all(cn.strip(r.ops[0]) == nph[0].id for r in rets) and bool(rets)
        pch = [c for c in call_sites(cn, 'dr_dag_node_stack_push_children') if c.block.id in L['blocks'] and cn.strip(c.args[1]) == pops[0].id]
        psh = [c for c in call_sites(cn, 'dr_dag_node_stack_push') if c.block.id in L['blocks'] and is_load_of(cn, c.args[1], 'dr_dag_node.child')]
        okc = okc and len(pch) == 1 and len(psh) == 1
        if okc:
            x = pops[0].id
            okc = kind_edge_of(cn, pch[0], 'section', SEC, (x,)) and kind_edge_of(cn, psh[0], 'create', CRE, (x,)) and \
                is_load_of(cn, psh[0].args[1], 'dr_dag_node.child') and cn.strip(cn.ap(cn.get(cn.strip(psh[0].args[1])).ops[0]).root) == x and \
                any(lib.guarded_by_nonnull(cn, l.id, psh[0]) for l in cn.order if l.op == 'load' and cn.field(l) == 'dr_dag_node.child' and
                    cn.strip(cn.ap(l.ops[0]).root) == x)
    ctx.ob('C19.12', 'count_nodes: one per popped node; pushes the child of a create_task and the subgraphs of a section / task', okc,
           'the count is the number of entries the enumeration writes', loc=cn.loc)
    for fn_, rootp in ((cn, 'a0'), (e, 'a1')):
        ini = call_sites(fn_, 'dr_dag_node_stack_init')
        use = [c for c in fn_.calls() if c.callee in ('dr_dag_node_stack_push', 'dr_dag_node_stack_pop', 'dr_dag_node_stack_push_children')]
        okst = len(ini) == 1 and bool(use) and all(fn_.dominates_f(ini[0], c) and lib.same_addr(fn_, c.args[0], ini[0].args[0]) for c in use)
        rootpush = [c for c in call_sites(fn_, 'dr_dag_node_stack_push') if not fn_.in_loop(c) and same_value(fn_, c.args[1], rootp)]
        pp = call_sites(fn_, 'dr_dag_node_stack_pop')
        ctx.ob('C19.12', '%s: work stack initialised, then seeded with the root, then drained' % fn_.name,
               okst and len(rootpush) == 1 and bool(pp) and all(fn_.dominates_f(rootpush[0], c) for c in pp),
               'init(s); push(s, g); while (s->top) pop', loc=fn_.loc)
    ctx.floor('C19.12', 22)


def rule13_stream_and_clock(ctx, w):
    ctx.doc('C19.13', 'dr_gen_pi_dag: the stream the DAG file is written through is closed on every path that opened it (the last '
            'partial block of a dump reaches the file only at fclose: a dump read back by the process that wrote it, or a second dump to '
            'the same name, otherwise sees a truncated / overwritten file); chronological replay: event times are compared at their full '
            '64-bit width')
    f = ctx.need_fn(w, 'dr_gen_pi_dag')
    opens = call_sites(f, ('fopen', 'dr_pi_dag_open_to_write'))
    closes = call_sites(f, 'fclose')
    ctx.ob('C19.13', 'dr_gen_pi_dag: opens one stream', len(opens) == 1, 'fopen(filename, "wb")', loc=f.loc)
    for o in opens:
        rets = [r for r in f.order if r.op == 'ret']
        mine = [c for c in closes if f.sources(c.args[0]) == f.sources(o.id) or same_value(f, c.args[0], o.id)]
        leaks = []
        for br, nn, nl in lib.null_tests(f, o.id):
            if nn == nl:
                continue
            reach = f.reachable_from(lib.first_inst(f, nn), blocked=mine, include_start=True)
            leaks += [r for r in rets if r in reach]
        ctx.ob('C19.13', 'dr_gen_pi_dag: the stream is closed on every path from a successful open', bool(mine) and
               bool(lib.null_tests(f, o.id)) and not leaks, 'fopen ... fclose on every path to return', loc=o.loc)
    ch = ctx.ssa('chronological.c', area='profiler')
    from ..ir import iter_refs
    bad, ncmp = [], 0
    for fn in ch.functions.values():
        def from_t(ref, seen, depth=0):
            ins = fn.get(ref) if isinstance(ref, str) else None
            if ins is None or ins.id in seen or depth > 12:
                return False
            seen.add(ins.id)
            if ins.op == 'load':
                return fn.field(ins) == 'dr_event.t'
            if ins.op in ('call', 'phi', 'alloca'):
                return False
            return any(from_t(r, seen, depth + 1) for r in iter_refs(ins.d))
        for ins in fn.order:
            if ins.op == 'icmp' and any(from_t(o, set()) for o in ins.ops if isinstance(o, str)):
                ncmp += 1
            if ins.op == 'trunc' and from_t(ins.ops[0], set()):
                bad.append((fn.name, ins))
    ctx.ob('C19.13', 'replay: event times are never narrowed before they are compared', not bad and ncmp >= 4,
           'the heap orders events by evts[x].t <=> evts[p].t on the 64-bit clock values; a difference cut to int orders two events that '
           'are 2^31 ticks apart the wrong way round', loc=(bad[0][1].loc if bad else 'src/profiler/chronological.c'),
           detail='; '.join('%s narrows a time at line %s' % (n_, i_.line) for n_, i_ in bad[:3]) or '%d comparisons of event times' % ncmp)
    ctx.floor('C19.13', 3)


def rule10_halfopen(ctx):
    ctx.doc('C19.10', 'child ranges are half-open: every libdr loop that walks the children of a node up to node + subgraphs_end_offset '
            'continues on a strict comparison (<); subgraphs_end_offset is the first offset that is no longer a child')
    n = 0
    for file in sorted(ctx.db['profiler']):
        m = ctx.ssa(file, area='profiler')
        for f in m.functions.values():
            for ic in f.order:
                if ic.op != 'icmp':
                    continue
                for a_, b_, side in ((ic.ops[0], ic.ops[1], 'l'), (ic.ops[1], ic.ops[0], 'r')):
                    ph = f.get(f.strip(a_)) if isinstance(a_, str) else None
                    if ph is None or ph.op != 'phi' or not any(l_['header'] == ph.block.id for l_ in f.loops) or not _end_bound(f, b_):
                        continue
                    n += 1
                    ctx.fn_analysed.add(f.name)
                    strict = ic.pred in (('ult', 'slt') if side == 'l' else ('ugt', 'sgt')) or ic.pred == 'ne'
                    ctx.ob('C19.10', '%s: walk of a child range stops before subgraphs_end_offset (line %d)' % (f.name, ic.line), strict,
                           'the element at the end offset belongs to the next sibling (or lies outside the table)', loc=ic.loc,
                           detail='icmp %s' % ic.pred)
    ctx.floor('C19.10', 5)


def rule8_descent(ctx, w):
    ctx.doc('C19.8', 'descending into a subgraph (dr_pi_dag_node_first / dr_pi_dag_node_last / dr_pi_dag_first_leaf): the step to '
            'node + subgraphs_begin_offset (or + subgraphs_end_offset - 1) is taken only where that node\'s range was tested non-empty, '
            'begin < end - the one predicate the writer, the shrinking copy and the readers share for "has children" (a contracted node '
            'has the range (0,0): stepping by 0 never terminates)')
    c = ctx.ssa('chronological.c', area='profiler')
    n = 0
    for mod, name in ((w, 'dr_pi_dag_node_first'), (w, 'dr_pi_dag_node_last'), (c, 'dr_pi_dag_first_leaf')):
        f = ctx.need_fn(mod, name)
        steps = []
        for g_ in f.order:
            if g_.op != 'getelementptr' or not g_.ty.startswith('%struct.dr_pi_dag_node'):
                continue
            ix = [x.get('p') for x in g_.d['path'] if isinstance(x.get('p'), str)]
            for i_ in ix:
                for fld in ('subgraphs_begin_offset', 'subgraphs_end_offset'):
                    for k in lib.load_terms(f, affine(f, i_), PN + fld):
                        steps.append((g_, f.insts[k]))
        ctx.ob('C19.8', '%s: descends by the subgraph offsets' % name, len(steps) >= 1, 'g = g + offset', loc=f.loc)
        for g_, l in steps:
            n += 1
            root = f.ap(l.ops[0]).root
            ok = any(f.edge_dominates(br.block.id, succ, g_) for br, succ in nonempty_range_guards(f, root)) and \
                f.strip(g_.d['base']) == f.strip(root)
            ctx.ob('C19.8', '%s: step into the subgraph only for a non-empty range' % name, ok,
                   'begin < end is what "this node still has its children" means in a DAG file', loc=g_.loc)
    ctx.floor('C19.8', 6)


# life cycle of a node in the chronological replay: the event of kind K, once dequeued, schedules exactly the next one
NEXT = {'ready': ('start', ['dr_dag_node_info.start', 'dr_clock_pos.t']),
        'start': ('last_start', ['dr_dag_node_info.last_start_t']),
        'last_start': ('end', ['dr_dag_node_info.end', 'dr_clock_pos.t'])}


def rule7_replay(ctx):
    ctx.doc('C19.7', 'chronological replay (dr_pi_dag_chronological_traverse): ready counts start at zero and are incremented once per '
            'edge target; a dequeued event of kind ready/start/last_start enqueues exactly one event of the next kind for the same node '
            'at that node\'s start / last-start / end time; an end event walks the node\'s edge range, decrements the target\'s count '
            'and enqueues its ready event exactly when the count reaches zero; every dequeued event is handed to the traverser')
    m = ctx.ssa('chronological.c', area='profiler')
    en = ctx.enumerators('chronological.c', area='profiler')
    K = {k: ctx.need_enum(en, 'dr_event_kind_' + k) for k in ('ready', 'start', 'last_start', 'end')}
    f = ctx.need_fn(m, 'dr_pi_dag_chronological_traverse')
    deq = call_sites(f, 'dr_event_queue_deq')
    sws = [i for i in f.order if i.op == 'switch']
    ctx.ob('C19.7', 'one dequeue and one dispatch per iteration', len(deq) == 1 and len(sws) == 1 and lib.loop_containing(f, deq[0]) is not None,
           'while (F->n) { ev = deq(F); switch (ev.kind) ... }', loc=f.loc)
    if len(deq) != 1 or len(sws) != 1:
        return
    sw = sws[0]
    cases = {}
    for v, t in sw.d['cases']:
        cases.setdefault(v, t)
    ctx.ob('C19.7', 'all four event kinds dispatched', set(cases) == set(K.values()), 'ready, start, last_start, end', loc=sw.loc,
           detail=str(sorted(cases)))
    mks = call_sites(f, 'dr_mk_event')
    enq = call_sites(f, 'dr_event_queue_enq')
    # the node of the dequeued event: every non-constant node argument of the K -> next(K) events must be this one value
    for kname, (nxt, tpath) in sorted(NEXT.items()):
        kv = K[kname]
        if kv not in cases:
            continue
        mine = [c for c in mks if f.edge_dominates(sw.block.id, cases[kv], c)]
        ok1 = len(mine) == 1
        ctx.ob('C19.7', '%s event schedules exactly one follow-up' % kname, ok1, 'one dr_mk_event in the case', loc=sw.loc)
        if not ok1:
            continue
        c = mine[0]
        ctx.ob('C19.7', '%s -> %s' % (kname, nxt), const_int(c.args[2]) == K[nxt], 'the follow-up is the next stage of the same node', loc=c.loc,
               detail='kind %s' % const_int(c.args[2]))
        tl = [f.insts[k] for k in f.sources(c.args[1]) if k in f.insts]
        okt = len(tl) == 1 and tl[0].op == 'load' and f.ap(tl[0].ops[0]).fields[-len(tpath):] == tpath and \
            lib.same_expr(f, f.ap(tl[0].ops[0]).root, c.args[3])
        ctx.ob('C19.7', '%s is scheduled at the node\'s own %s time' % (nxt, nxt), okt, 'time stamp taken from the same node u', loc=c.loc,
               detail=expr_str(f, c.args[1]))
        ul = [f.insts[k] for k in f.sources(c.args[3]) if k in f.insts]
        oku = len(ul) == 1 and ul[0].op == 'load' and f.field(ul[0]) == 'dr_event.u'
        ctx.ob('C19.7', '%s follow-up is for the dequeued node' % kname, oku, 'u = ev.u', loc=c.loc)
        q = [e for e in enq if e.block.id == c.block.id and f.dominates_f(c, e) and same_value(f, e.args[1], c.args[0])]
        ctx.ob('C19.7', '%s follow-up is enqueued' % kname, len(q) == 1, 'dr_event_queue_enq(F, that event)', loc=c.loc)
    # ready counts
    rc = [c for c in f.calls() if c.callee == 'dr_malloc' and c.id != getattr(call_sites(f, 'dr_mk_event_queue')[0] if call_sites(f, 'dr_mk_event_queue') else None, 'id', None)]
    ctx.ob('C19.7', 'ready counts allocated', len(rc) == 1, 'int ready_count[G->n]', loc=f.loc)
    if len(rc) == 1:
        R = rc[0].id
        sts = [st for st in f.order if st.op == 'store' and f.strip(f.ap(st.ops[1]).root) == R]

        def delta(st):
            av = affine(f, st.ops[0])
            own = [k for k in av if k in f.insts and f.insts[k].op == 'load' and lib.same_addr(f, f.insts[k].ops[0], st.ops[1])]
            if len(own) == 1 and av[own[0]] == 1 and len([k for k in av if k != '' and av[k] != 0]) == 1:
                return av.get('', 0)
            return None
        zero = [st for st in sts if const_int(st.ops[0]) == 0]
        zero_ms = []
        for mc_ in f.calls():
            if (mc_.callee or '').startswith('llvm.memset') and f.strip(f.ap(mc_.args[0]).root) == R and const_int(mc_.args[1]) == 0:
                def shape(v_):
                    a_ = affine(f, v_)
                    return sorted((f.field(f.insts[k]) if k in f.insts and f.insts[k].op == 'load' else k, c_) for k, c_ in a_.items() if c_ != 0)
                if shape(mc_.args[2]) == shape(rc[0].args[0]) and not f.ap(mc_.args[0]).steps:
                    zero_ms.append(mc_)             # memset(ready_count, 0, <the allocated size>)
        inc = [st for st in sts if delta(st) == 1]
        dec = [st for st in sts if delta(st) == -1]
        ctx.ob('C19.7', 'ready counts: zeroed, +1 per edge, -1 per finished predecessor', len(zero) + len(zero_ms) == 1 and len(inc) == 1 and
               len(dec) == 1 and len(sts) == 2 + len(zero), 'exactly these three writers', loc=f.loc, detail='%d stores' % len(sts))

        def idx_is_edge_target(st):
            ix = [x for x in f.ap(st.ops[1]).steps if x[0] in ('p', 'i')]
            if not ix or not isinstance(ix[0][1], str):
                return False
            l = [f.insts[k] for k in f.sources(ix[0][1]) if k in f.insts]
            return len(l) == 1 and l[0].op == 'load' and f.field(l[0]) == EG + 'v'
        for st in inc + dec:
            ctx.ob('C19.7', 'ready count indexed by the edge target', idx_is_edge_target(st), 'ready_count[e->v]', loc=st.loc)
        if len(zero) == 1:
            zl = lib.loop_containing(f, zero[0])
            zi = [x for x in f.ap(zero[0].ops[1]).steps if x[0] in ('p', 'i')]
            okz = False
            if zl is not None and zi and isinstance(zi[0][1], str):
                acount = lib.affine_diff(f, rc[0].args[0], {'c': 0, 'w': 64})
                for ic in f.order:
                    if ic.op == 'icmp' and ic.pred in ('slt', 'ult') and ic.block.id in zl['blocks'] and lib.same_expr(f, ic.ops[0], zi[0][1]):
                        bound = lib.affine_diff(f, ic.ops[1], {'c': 0, 'w': 64})
                        nl = lib.load_terms(f, bound, PI + 'n')
                        if len(nl) == 1 and len(bound) == 1 and bound[nl[0]] == 1 and \
                                any(k in f.insts and f.field(f.insts[k]) == PI + 'n' for k in acount):
                            for br in f.users(ic.id):
                                if br.op == 'br' and 'cond' in br.d and f.edge_dominates(br.block.id, br.d['t'], zero[0]):
                                    okz = True
            ctx.ob('C19.7', 'ready counts are cleared for exactly the n nodes allocated', okz, 'for (i = 0; i < G->n; i++) ready_count[i] = 0',
                   loc=zero[0].loc)
        if zero_ms and len(inc) == 1:
            ctx.ob('C19.7', 'ready counts are cleared for exactly the n nodes allocated', True, 'memset over the allocated size', loc=zero_ms[0].loc)
            ctx.ob('C19.7', 'counts are complete before the replay starts', f.dominates_f(zero_ms[0], inc[0]) and deq[0] in f.reachable_from(inc[0]) and
                   inc[0] not in f.reachable_from(deq[0]), 'clear, then one increment per edge, then the event loop', loc=inc[0].loc)
        if len(zero) == 1 and len(inc) == 1:
            r_z, r_i, r_d = f.reachable_from(zero[0]), f.reachable_from(inc[0]), f.reachable_from(deq[0])
            ctx.ob('C19.7', 'counts are complete before the replay starts', inc[0] in r_z and zero[0] not in r_i and deq[0] in r_i and
                   inc[0] not in r_d and zero[0] not in r_d,
                   'zero loop, then one increment per edge, then the event loop', loc=inc[0].loc)
        if len(dec) == 1 and K['end'] in cases:
            d = dec[0]
            ctx.ob('C19.7', 'decrement belongs to the end event', f.edge_dominates(sw.block.id, cases[K['end']], d), 'case end', loc=d.loc)
            rdy = [c for c in mks if f.edge_dominates(sw.block.id, cases[K['end']], c)]
            ok1 = len(rdy) == 1 and const_int(rdy[0].args[2]) == K['ready']
            ctx.ob('C19.7', 'end event makes successors ready', ok1, 'one ready event per successor whose count reaches zero', loc=d.loc)
            if ok1:
                c = rdy[0]
                # guard: ready_count[e->v] == 0, read after the decrement
                g = False
                for ic in f.order:
                    if ic.op == 'icmp' and ic.pred in ('eq', 'ne') and const_int(ic.ops[1]) == 0:
                        l = f.get(f.strip(ic.ops[0])) if isinstance(ic.ops[0], str) else None
                        fresh = l is not None and l.op == 'load' and lib.same_addr(f, l.ops[0], d.ops[1]) and f.dominates_f(d, l)
                        viaval = not lib.affine_diff(f, ic.ops[0], d.ops[0])
                        if fresh or viaval:
                            for br in f.users(ic.id):
                                if br.op == 'br' and 'cond' in br.d and f.edge_dominates(br.block.id, br.d['t'] if ic.pred == 'eq' else br.d['f'], c):
                                    g = True
                ctx.ob('C19.7', 'ready exactly when the count reaches zero', g, 'if (ready_count[e->v] == 0) after the decrement', loc=c.loc)
                vl = f.get(f.strip(c.args[3])) if isinstance(c.args[3], str) else None
                okv = vl is not None and vl.op == 'getelementptr' and is_load_of(f, vl.d['base'], PI + 'T') and \
                    any(k in f.insts and f.insts[k].op == 'load' and f.field(f.insts[k]) == EG + 'v' for k in f.sources(vl.d['path'][0].get('p')))
                ctx.ob('C19.7', 'the node made ready is the edge target', okv, 'v = G->T + e->v', loc=c.loc)
                q = [e for e in enq if f.dominates_f(c, e) and same_value(f, e.args[1], c.args[0]) and e.block.id == c.block.id]
                ctx.ob('C19.7', 'ready event is enqueued', len(q) == 1, 'enq', loc=c.loc)
            # the edge range walked is [E + u->edges_begin, E + u->edges_end)
            eb = [l for l in f.loads_of(PN + 'edges_begin') if f.edge_dominates(sw.block.id, cases[K['end']], l)]
            ee = [l for l in f.loads_of(PN + 'edges_end') if f.edge_dominates(sw.block.id, cases[K['end']], l)]
            ctx.ob('C19.7', 'end event walks the node\'s own edge range', len(eb) == 1 and len(ee) == 1 and
                   lib.same_expr(f, f.ap(eb[0].ops[0]).root, f.ap(ee[0].ops[0]).root), 'edges_begin .. edges_end of u', loc=d.loc)
    ind = [c for c in f.calls() if 'callee_ref' in c.d]
    ctx.ob('C19.7', 'every dequeued event reaches the traverser', len(ind) == 1 and f.always_passes(deq[0], ind, to=deq),
           'ct->process_event(ct, ev) on every path round the loop', loc=deq[0].loc)
    init = [c for c in mks if not lib.loop_containing(f, c)]
    ctx.ob('C19.7', 'replay starts with the first leaf ready', len(init) == 1 and const_int(init[0].args[2]) == K['ready'] and
           any(k in f.insts and f.insts[k].op == 'call' and f.insts[k].callee == 'dr_pi_dag_first_leaf' for k in f.sources(init[0].args[3])),
           'ready(first leaf) is the only initial event', loc=f.loc)
    ctx.floor('C19.7', 29)


PN = 'dr_pi_dag_node.'
EG = 'dr_pi_dag_edge.'


def rule6_grouping(ctx, w):
    ctx.doc('C19.6', 'edges grouped by source: dr_pi_dag_sort_edges sorts all m edges of G->E with a comparator that is lexicographic '
            'in (u, v) on all 9 ordering cases; dr_pi_dag_set_edge_ptrs groups by the same key u, sets edges_begin of node 0 to 0, '
            'edges_end of node n-1 to m, and always writes edges_end(i) and edges_begin(i+1) as a pair with the same value')
    so = ctx.need_fn(w, 'dr_pi_dag_sort_edges')
    qs = call_sites(so, 'qsort')
    ctx.ob('C19.6', 'edges sorted with qsort', len(qs) == 1, 'one sort of the edge array', loc=so.loc)
    cmpname = None
    for q in qs:
        esz = (w.structs.get('dr_pi_dag_edge') or {}).get('size')
        okq = is_load_of(so, q.args[0], PI + 'E') and is_load_of(so, q.args[1], PI + 'm') and const_int(q.args[2]) == esz and esz
        ctx.ob('C19.6', 'qsort covers all m edges with the edge size', bool(okq), 'qsort(G->E, G->m, sizeof(dr_pi_dag_edge), cmp)', loc=q.loc,
               detail='element size %s, struct size %s' % (const_int(q.args[2]), esz))
        if isinstance(q.args[3], dict) and 'fn' in q.args[3]:
            cmpname = q.args[3]['fn']
    ctx.ob('C19.6', 'comparator resolved', cmpname is not None, 'a named comparison function', loc=so.loc)
    if cmpname:
        c = ctx.need_fn(w, cmpname)
        ctx.ob('C19.6', 'comparator is loop-free', not c.loops, 'finite ordering-case evaluation applies', loc=c.loc)
        for du in (-1, 0, 1):
            for dv in (-1, 0, 1):
                got = lib.eval_cmp_fn(c, {('a0', EG + 'u'): 10 + du, ('a1', EG + 'u'): 10, ('a0', EG + 'v'): 20 + dv, ('a1', EG + 'v'): 20})
                want = du if du else dv
                sg = None if got is None else (0 if got == 0 else (1 if got > 0 and got < (1 << 31) else -1))
                ctx.ob('C19.6', 'comparator case u%+d v%+d' % (du, dv), sg == want,
                       'primary key is the source node u (edges of one node become contiguous), ties by target v', loc=c.loc,
                       detail='returned %s, expected sign %s' % (got, want))
    f = ctx.need_fn(w, 'dr_pi_dag_set_edge_ptrs')
    ul = f.loads_of(EG + 'u')
    oku = len(ul) == 1 and is_load_of(f, f.ap(ul[0].ops[0]).root, PI + 'E')
    ctx.ob('C19.6', 'ranges are cut where the source node changes', oku, 'the grouping key is E[j].u, the primary sort key', loc=f.loc)
    ends = f.stores_to(PN + 'edges_end')
    begins = f.stores_to(PN + 'edges_begin')

    def node_index(st):
        ix = [x for x in f.ap(st.ops[1]).steps if x[0] in ('p', 'i')]
        v = ix[0][1] if ix else 0
        return {'c': v, 'w': 64} if isinstance(v, int) else v
    m_ok = lambda v: is_load_of(f, v, PI + 'm')
    first = [b for b in begins if const_int(b.ops[0]) == 0 and const_int(node_index(b)) == 0]
    ctx.ob('C19.6', 'node 0 starts at edge 0', len(first) == 1 and all(f.dominates_f(first[0], x) for x in ends + begins if x is not first[0]),
           'T[0].edges_begin = 0 before anything else', loc=f.loc)
    paired = 0
    for e in ends:
        comp = [b for b in begins if b.block.id == e.block.id and lib.same_expr(f, b.ops[0], e.ops[0]) and
                lib.affine_diff(f, node_index(b), node_index(e)) == {'': 1}]
        last = m_ok(e.ops[0]) and not comp
        if last:
            d = lib.affine_diff(f, node_index(e), {'c': 0, 'w': 64})
            nl = lib.load_terms(f, d, PI + 'n')
            okl = len(nl) == 1 and d[nl[0]] == 1 and d.get('', 0) == -1 and len(d) == 2 and f.always_passes(f.entry_inst(), [e])
            ctx.ob('C19.6', 'node n-1 ends at edge m', okl, 'T[n - 1].edges_end = m on every path', loc=e.loc)
        else:
            paired += 1
            ctx.ob('C19.6', 'edges_end(i) paired with edges_begin(i+1)', len(comp) == 1,
                   'adjacent ranges tile the edge array: where node i ends, node i+1 begins', loc=e.loc)
    ctx.ob('C19.6', 'range boundaries written in the scan and in the tail', paired >= 2 and len(begins) == paired + 1, 'two pairing sites',
           loc=f.loc, detail='%d paired, %d begin stores' % (paired, len(begins)))
    for e in ends:
        v = e.ops[0]
        okv = m_ok(v) or (isinstance(v, str) and f.get(f.strip(v)) is not None and f.get(f.strip(v)).op == 'phi' and
                          any(l['header'] == f.get(f.strip(v)).block.id for l in f.loops))
        ctx.ob('C19.6', 'boundary value is the scan position or m', okv, 'j (current edge index) or m', loc=e.loc)
    # the tail writes T[i + 1]: only while i < n - 1; both scans advance i on every iteration
    for e_ in ends:
        comp = [b for b in begins if b.block.id == e_.block.id and lib.same_expr(f, b.ops[0], e_.ops[0]) and
                lib.affine_diff(f, node_index(b), node_index(e_)) == {'': 1}]
        if not comp or not m_ok(e_.ops[0]):
            continue
        iv = node_index(e_)
        okb = False
        for ic in f.order:
            if ic.op == 'icmp' and ic.pred in ('slt', 'ult') and isinstance(iv, str):
                # i + k < n with k >= 1, in any arrangement: (lhs - rhs) = i - n + k
                dd = lib.affine_diff(f, ic.ops[0], ic.ops[1])
                nl = lib.load_terms(f, dd, PI + 'n')
                ivk = f.strip(iv)
                if len(nl) == 1 and dd[nl[0]] == -1 and dd.get(ivk, 0) == 1 and dd.get('', 0) >= 1 and len([k for k in dd if k != '']) == 2:
                    for br in f.users(ic.id):
                        if br.op == 'br' and 'cond' in br.d and f.edge_dominates(br.block.id, br.d['t'], comp[0]):
                            okb = True
        ctx.ob('C19.6', 'tail loop writes T[i + 1] only while i < n - 1', okb, 'the last node has no successor range to open', loc=comp[0].loc)
    for lp in f.loops:
        hb = f.blocks[lp['header']]
        adv = False
        for ph in [i for i in hb.insts if i.op == 'phi' and i.ty == 'i64']:
            ds = [lib.min_delta(f, val, ph.id) for val, b in ph.d['incoming'] if b in lp['blocks']]
            if ds and all(d_ is not None and d_ >= 1 for d_ in ds) and any(
                    ic.op == 'icmp' and ic.block.id in lp['blocks'] and ph.id in lib.affine_diff(f, ic.ops[0], ic.ops[1]) for ic in f.order):
                adv = True
        ctx.ob('C19.6', 'scan at block %d advances on every iteration' % lp['header'], adv,
               'a scan whose index stands still never terminates', loc=f.loc)
    ctx.floor('C19.6', 23)


def nonempty_range_guards(f, node_root):
    """[(br, successor block on which begin < end holds)] for comparisons equivalent to
    node.subgraphs_begin_offset < node.subgraphs_end_offset (any arrangement of the operands)"""
    out = []
    for ic in f.order:
        if ic.op != 'icmp' or ic.pred not in ('slt', 'sgt', 'sle', 'sge', 'ult', 'ugt', 'ule', 'uge'):
            continue
        d = lib.affine_diff(f, ic.ops[0], ic.ops[1])
        if len(d) != 2:
            continue
        lb = [k for k in lib.load_terms(f, d, PN + 'subgraphs_begin_offset') if f.strip(f.ap(f.insts[k].ops[0]).root) == f.strip(node_root)]
        le = [k for k in lib.load_terms(f, d, PN + 'subgraphs_end_offset') if f.strip(f.ap(f.insts[k].ops[0]).root) == f.strip(node_root)]
        if len(lb) != 1 or len(le) != 1 or d[lb[0]] + d[le[0]] != 0 or abs(d[lb[0]]) != 1:
            continue
        sign = d[lb[0]]            # lhs - rhs = sign * (begin - end)
        pred = ic.pred[1:]
        # lhs < rhs (strict) with sign +1 means begin < end on the true edge; lhs >= rhs with sign +1: on the false edge, ...
        strict_lt = (pred == 'lt' and sign == 1) or (pred == 'gt' and sign == -1)
        weak_ge = (pred == 'ge' and sign == 1) or (pred == 'le' and sign == -1)
        for cond, pol in lib.cond_chain(f, ic.id, True):
            for br, t, f_ in f.cond_edges(cond):
                if strict_lt:
                    out.append((br, t if pol else f_))
                elif weak_ge:
                    out.append((br, f_ if pol else t))
        # a && b lowered to phi(false, ..., b): the true edge of a branch on the phi implies b (implication only, used as a guard)
        if strict_lt:
            for ph in f.users(ic.id):
                if ph.op == 'phi' and ph.ty == 'i1' and all(
                        (isinstance(v_, dict) and const_int(v_) == 0) or (isinstance(v_, str) and f.strip(v_) == ic.id) for v_, b_ in ph.d['incoming']):
                    for cond, pol in lib.cond_chain(f, ph.id, True):
                        for br, t, f_ in f.cond_edges(cond):
                            out.append((br, t if pol else f_))
    return out


def rule3_shrink(ctx, w):
    ctx.doc('C19.3', 'shrinking copy (dr_pi_dag_copy_and_prune_nodes): a copied node\'s child range is rewritten through map[] only '
            'under the guard begin < end of the source node (a range already empty after contraction at record time has no first and '
            'last child to look up), the rewritten offsets are differences of map[] entries relative to map[i], and the child of a '
            'create_task is rewritten the same way')
    f = ctx.need_fn(w, 'dr_pi_dag_copy_and_prune_nodes')
    maps = [c for c in f.calls() if c.callee == 'dr_malloc']
    ctx.ob('C19.3', 'index map and node table allocated', len(maps) == 2, 'map = dr_malloc(..), T_ = dr_malloc(..)', loc=f.loc)
    n = 0
    for fld in ('subgraphs_begin_offset', 'subgraphs_end_offset'):
        for st in f.stores_to(PN + fld):
            if const_int(st.ops[0]) is not None:
                continue
            n += 1
            av = affine(f, st.ops[0])
            mp = [k for k in av if k in f.insts and f.insts[k].op == 'load' and f.insts[k].ty == 'i64' and maps and
                  f.strip(f.ap(f.insts[k].ops[0]).root) == maps[0].id]
            ctx.ob('C19.3', '%s rewritten as a difference of two map[] entries' % fld, len(mp) == 2 and sorted(av[k] for k in mp) == [-1, 1] and
                   av.get('', 0) == (1 if fld.endswith('end_offset') else 0) and len([k for k in av if k != '' and av[k] != 0]) == 2,
                   'new offset = map[child] - map[node] (+1 for the exclusive end)', loc=st.loc, detail=expr_str(f, st.ops[0]))
            # the source node: the one whose offsets feed the index of the looked-up map entry
            srcs = set()
            for k in mp:
                ia = [x for x in f.ap(f.insts[k].ops[0]).steps if x[0] in ('i', 'p')]
                if ia and isinstance(ia[-1][1], str):
                    for t in lib.load_terms(f, affine(f, ia[-1][1]), PN + fld):
                        srcs.add(f.strip(f.ap(f.insts[t].ops[0]).root))
            ok = False
            if len(srcs) == 1:
                root = list(srcs)[0]
                ok = any(f.edge_dominates(br.block.id, succ, st) for br, succ in nonempty_range_guards(f, root))
            ctx.ob('C19.3', '%s rewritten only for a non-empty source range' % fld, ok,
                   'map[c_begin] and map[c_end - 1] are the first and last child only when c_begin < c_end; for an empty range they are '
                   'entries of unrelated nodes and the copied section would get a bogus child range', loc=st.loc)
    ctx.ob('C19.3', 'range rewriting sites', n >= 2, 'begin and end offsets are rewritten', loc=f.loc)
    # marking pass: the children of node i are marked "copy" only in an iteration that found node i itself marked "copy"
    # (children kept below a node that is dropped are orphans: the report sums over the whole table and counts them twice)
    if maps:
        marks = [st for st in f.order if st.op == 'store' and f.strip(f.ap(st.ops[1]).root) == maps[0].id and f.in_loop(st) and
                 (lambda v_: v_ is not None and v_.op == 'select')(f.get(f.strip(st.ops[0])))]
        ctx.ob('C19.3', 'marking pass: children marked through a copy / no-copy choice', len(marks) >= 2, 'map[k] = copy_children ? map_copy : map_no_copy',
               loc=f.loc)
        for st in marks:
            sel = f.get(f.strip(st.ops[0]))
            A = const_int(sel.ops[1])
            cnd = f.get(f.strip(sel.ops[0]))
            X = None
            if cnd is not None and cnd.op == 'icmp' and cnd.pred == 'ne' and const_int(cnd.ops[1]) == 0:
                X = cnd.ops[0]
            elif cnd is not None and cnd.op == 'icmp' and cnd.pred == 'eq' and const_int(cnd.ops[1]) == 0:
                X, A = cnd.ops[0], const_int(sel.ops[2])
            own = [ic for ic in f.order if ic.op == 'icmp' and ic.pred in ('eq', 'ne') and const_int(ic.ops[1]) == A and A is not None and
                   (lambda l: l is not None and l.op == 'load' and f.strip(f.ap(l.ops[0]).root) == maps[0].id)(f.get(f.strip(ic.ops[0])))]
            ok = X is not None and bool(own)

            def only_from_copied(v_, depth=0):
                if const_int(v_) == 0:
                    return True
                ph = f.get(f.strip(v_)) if isinstance(v_, str) else None
                if ph is None or ph.op != 'phi' or depth > 6:
                    return False
                from ..ir import EdgePoint
                for val, b in ph.d['incoming']:
                    if const_int(val) == 0:
                        continue
                    inner = f.get(f.strip(val)) if isinstance(val, str) else None
                    if inner is not None and inner.op == 'phi' and inner.block.id != ph.block.id and only_from_copied(val, depth + 1):
                        continue
                    ep = EdgePoint(f, b, ph.block.id)
                    if not any(f.on_edge(c_, p_ == (ic.pred == 'eq'), ep) for ic in own for c_, p_ in lib.cond_chain(f, ic.id)):
                        return False
                return True
            ctx.ob('C19.3', 'marking pass: children are marked "copy" only below a node that is copied', ok and only_from_copied(X),
                   'copy_children can be non-zero only in the iteration that found map[i] == map_copy', loc=st.loc)
    ctx.floor('C19.3', 8)


ST = 'dr_string_table.'


def rule4_strings(ctx, w):
    ctx.doc('C19.4', 'string table list discipline: dr_string_table_append links the new cell behind the old tail (or as head when '
            'empty), makes it the tail and increments n on every path; dr_string_table_intern appends exactly when find returned n '
            'and returns that index')
    f = ctx.need_fn(w, 'dr_string_table_append')
    cells = [c for c in f.calls() if c.callee == 'dr_malloc']
    ctx.ob('C19.4', 'append allocates one cell', len(cells) == 1, 'c = dr_malloc(sizeof(cell))', loc=f.loc)
    if len(cells) == 1:
        c = cells[0]
        t = f.param_named('t') or 'a0'
        is_c = lambda v: same_value(f, v, c.id)
        tails = [st for st in f.stores_to(ST + 'tail') if is_c(st.ops[0]) and same_value(f, f.ap(st.ops[1]).root, t)]
        ctx.ob('C19.4', 'new cell becomes the tail on every path', bool(tails) and f.always_passes(c, tails),
               'the next append must link behind this cell; a stale tail drops every later string but the last', loc=c.loc)
        def incr(st):
            av = affine(f, st.ops[0])
            own = [k for k in av if k in f.insts and f.insts[k].op == 'load' and lib.same_addr(f, f.insts[k].ops[0], st.ops[1])]
            return len(own) == 1 and av[own[0]] == 1 and av.get('', 0) == 1 and len([k for k in av if av[k] != 0]) == 2
        ns = [st for st in f.stores_to(ST + 'n') if incr(st)]
        ctx.ob('C19.4', 'n incremented on every path', bool(ns) and f.always_passes(c, ns), 'the index handed out next is n', loc=c.loc)
        ss_ = [st for st in f.stores_to('dr_string_table_cell.s') if is_c(f.ap(st.ops[1]).root)]
        ctx.ob('C19.4', 'new cell holds the string', len(ss_) == 1 and same_value(f, ss_[0].ops[0], f.param_named('s') or 'a1') and
               f.always_passes(c, ss_), 'c->s = s (find compares it, flatten copies it)', loc=c.loc)
        nx = [st for st in f.stores_to('dr_string_table_cell.next') if is_c(f.ap(st.ops[1]).root) and
              isinstance(st.ops[0], dict) and st.ops[0].get('null')]
        ctx.ob('C19.4', 'new cell terminates the list', bool(nx), 'c->next = 0', loc=c.loc)
        heads = f.loads_of(ST + 'head')
        nt = [x for l in heads for x in lib.null_tests(f, l.id)]
        ctx.ob('C19.4', 'append distinguishes the empty list', bool(nt), 'if (t->head)', loc=f.loc)
        link = [st for st in f.stores_to('dr_string_table_cell.next') if is_c(st.ops[0])]
        sethead = [st for st in f.stores_to(ST + 'head') if is_c(st.ops[0])]
        okl = bool(link) and all(is_load_of(f, f.ap(st.ops[1]).root, ST + 'tail') for st in link)
        ctx.ob('C19.4', 'non-empty list: linked behind the old tail', okl and any(f.edge_dominates(br.block.id, nn, st) for br, nn, nl in nt for st in link),
               't->tail->next = c', loc=link[0].loc if link else f.loc)
        ctx.ob('C19.4', 'empty list: new cell becomes the head', bool(sethead) and any(f.edge_dominates(br.block.id, nl, st) for br, nn, nl in nt for st in sethead),
               't->head = c', loc=sethead[0].loc if sethead else f.loc)
    g = ctx.need_fn(w, 'dr_string_table_intern')
    finds = call_sites(g, 'dr_string_table_find')
    apps = call_sites(g, 'dr_string_table_append')
    ctx.ob('C19.4', 'intern looks up then appends', len(finds) == 1 and len(apps) == 1, 'one find, one append', loc=g.loc)
    if len(finds) == 1 and len(apps) == 1:
        okg = False
        for ic in g.order:
            if ic.op == 'icmp' and ic.pred in ('eq', 'ne'):
                d = lib.affine_diff(g, ic.ops[0], ic.ops[1])
                nl = lib.load_terms(g, d, ST + 'n')
                if len(d) == 2 and len(nl) == 1 and finds[0].id in d and d[finds[0].id] + d[nl[0]] == 0:
                    for br in g.users(ic.id):
                        if br.op == 'br' and 'cond' in br.d:
                            succ = br.d['t'] if ic.pred == 'eq' else br.d['f']
                            other = br.d['f'] if ic.pred == 'eq' else br.d['t']
                            if g.edge_dominates(br.block.id, succ, apps[0]) and not any(
                                    x is apps[0] for x in g.reachable_from(g.blocks[other].insts[0], include_start=True)):
                                okg = True
        ctx.ob('C19.4', 'append exactly when the string is new', okg, 'idx == t->n <=> not found', loc=apps[0].loc)
        ctx.ob('C19.4', 'intern returns the looked-up index', all(same_value(g, r.ops[0], finds[0].id) for r in g.exits() if r.ops) and bool(g.exits()),
               'the index of an existing string, or n (the slot the append fills)', loc=g.loc)
    # find: walks the list from the head, counts cells from 0 and returns the count of the first cell whose string equals s (or the
    # number of cells); flatten: sizes, offsets and copies agree cell by cell
    CELL = 'dr_string_table_cell.'

    def list_walks(fn):
        """[(cell_phi, loop)] for loops `for (c = t->head; c; c = c->next)`"""
        out = []
        for ph in fn.order:
            if ph.op != 'phi' or len(ph.d['incoming']) != 2:
                continue
            vals = [fn.get(fn.strip(v)) for v, _b in ph.d['incoming']]
            if all(x is not None and x.op == 'load' for x in vals):
                flds = sorted(fn.field(x) for x in vals)
                nxt = [x for x in vals if fn.field(x) == CELL + 'next']
                if flds == sorted([ST + 'head', CELL + 'next']) and fn.strip(fn.ap(nxt[0].ops[0]).root) == ph.id:
                    li = fn.loop_of_block(ph.block.id)
                    if li is not None and fn.loops[li]['header'] == ph.block.id:
                        out.append((ph, fn.loops[li]))
        return out

    def counter(fn, L, start, step_ok):
        """header phis of loop L that start at `start` and whose latch value is phi + step with step_ok(affine of the step)"""
        out = []
        for ph in fn.blocks[L['header']].insts:
            if ph.op != 'phi' or len(ph.d['incoming']) != 2:
                continue
            init = [v for v, b in ph.d['incoming'] if b not in L['blocks']]
            back = [v for v, b in ph.d['incoming'] if b in L['blocks']]
            if len(init) != 1 or len(back) != 1 or not start(init[0]):
                continue
            d = lib.affine_diff(fn, back[0], ph.id)
            if step_ok(d):
                out.append(ph)
        return out

    def strlen_plus_1(fn, cellphi):
        def ok(d):
            ks = [k for k in d if k != '']
            if len(ks) != 1 or d[ks[0]] != 1 or d.get('', 0) != 1:
                return False
            c = fn.insts.get(ks[0])
            return c is not None and c.op == 'call' and c.callee == 'strlen' and \
                is_load_of(fn, c.args[0], CELL + 's') and fn.strip(fn.ap(fn.get(fn.strip(c.args[0])).ops[0]).root) == cellphi.id
        return ok
    one = lambda d: set(d) <= {''} and d.get('', 0) == 1
    zero = lambda v: const_int(v) == 0
    fd = ctx.need_fn(w, 'dr_string_table_find')
    wk = list_walks(fd)
    ctx.ob('C19.4', 'find walks the list from the head', len(wk) == 1, 'for (c = t->head; c; c = c->next)', loc=fd.loc)
    if len(wk) == 1:
        cph, L = wk[0]
        idx = counter(fd, L, zero, one)
        ctx.ob('C19.4', 'find counts cells from 0', len(idx) == 1, 'the index advances by one per cell', loc=cph.loc)
        cmpc = [c for c in call_sites(fd, 'strcmp') if c.block.id in L['blocks']]
        okc = len(cmpc) == 1 and any(is_load_of(fd, a_, CELL + 's') and fd.strip(fd.ap(fd.get(fd.strip(a_)).ops[0]).root) == cph.id
                                     for a_ in cmpc[0].args) and any(same_value(fd, a_, 'a1') for a_ in cmpc[0].args)
        ctx.ob('C19.4', 'find compares the cell\'s string with the argument', okc, 'strcmp(c->s, s)', loc=(cmpc[0].loc if cmpc else fd.loc))
        if len(idx) == 1 and okc:
            hits = [ic for ic in fd.users(cmpc[0].id) if ic.op == 'icmp' and ic.pred in ('eq', 'ne') and const_int(ic.ops[1]) == 0]
            for val, anchor in ret_cases(fd):
                isidx = isinstance(val, str) and fd.strip(val) == idx[0].id
                ctx.ob('C19.4', 'find returns the running index', isidx, 'the index of the matching cell, or the number of cells', loc=anchor.loc)
                atend = any(fd.edge_dominates(br.block.id, nl, anchor) for br, nn, nl in lib.null_tests(fd, cph.id) if nn != nl)
                ctx.ob('C19.4', 'find stops only at an equal string or at the end of the list',
                       atend or any(fd.on_edge(c_, p_ == (ic.pred == 'eq'), anchor) for ic in hits for c_, p_ in lib.cond_chain(fd, ic.id)),
                       'early return on strcmp == 0, otherwise the number of cells', loc=anchor.loc)
    ft = ctx.need_fn(w, 'dr_string_table_flatten')
    wk = list_walks(ft)
    ctx.ob('C19.4', 'flatten walks the list twice (measure, copy)', len(wk) == 2, 'two list traversals', loc=ft.loc)
    mal = [c for c in ft.calls() if c.callee == 'dr_malloc']
    hdr = w.structs.get('dr_pi_string_table', {}).get('size')
    if len(wk) == 2 and len(mal) == 1 and hdr:
        (c1, L1), (c2, L2) = sorted(wk, key=lambda x: x[1]['header'])
        nph = counter(ft, L1, zero, one)
        bph = counter(ft, L1, zero, strlen_plus_1(ft, c1))
        ctx.ob('C19.4', 'flatten measures every cell: count + 1, bytes + strlen + 1', len(nph) == 1 and len(bph) == 1,
               'the terminating NUL of each string is part of the character array', loc=c1.loc)
        if len(nph) == 1 and len(bph) == 1:
            sz = affine(ft, mal[0].args[0])
            ctx.ob('C19.4', 'flatten allocates header + 8 n + bytes', {k: v for k, v in sz.items() if v != 0} == {'': hdr, nph[0].id: 8, bph[0].id: 1},
                   'one block: dr_pi_string_table, the index array, the characters', loc=mal[0].loc, detail=affine_str(affine(ft, mal[0].args[0])))
            sI = [st for st in ft.stores_to('dr_pi_string_table.I')]
            sC = [st for st in ft.stores_to('dr_pi_string_table.C')]
            sN = [st for st in ft.stores_to('dr_pi_string_table.n')]
            sZ = [st for st in ft.stores_to('dr_pi_string_table.sz')]
            okI = len(sI) == 1 and affine(ft, sI[0].ops[0]) == {mal[0].id: 1, '': hdr}
            okC = len(sC) == 1 and affine(ft, sC[0].ops[0]) == {mal[0].id: 1, '': hdr, nph[0].id: 8}
            ctx.ob('C19.4', 'flatten: I = block + header, C = I + 8 n', okI and okC, 'index array then character array', loc=mal[0].loc)
            nz = lambda d: {k: v for k, v in d.items() if v != 0}
            ctx.ob('C19.4', 'flatten: n and sz describe the block', len(sN) == 1 and nz(affine(ft, sN[0].ops[0])) == {nph[0].id: 1} and
                   len(sZ) == 1 and lib.same_expr(ft, sZ[0].ops[0], mal[0].args[0]),
                   'h->n = number of cells, h->sz = allocated bytes (the dump writes sz bytes)', loc=mal[0].loc)
            if okC:
                Cv = sC[0].ops[0]
                pph = counter(ft, L2, lambda v: lib.same_expr(ft, v, Cv), strlen_plus_1(ft, c2))
                iph = counter(ft, L2, zero, one)
                ctx.ob('C19.4', 'flatten copies cell by cell: cursor + strlen + 1, index + 1', len(pph) == 1 and len(iph) == 1,
                       'the copy cursor starts at C and advances exactly as the measuring pass counted', loc=c2.loc)
                if len(pph) == 1 and len(iph) == 1:
                    cp = [c for c in ft.calls() if c.block.id in L2['blocks'] and
                          (c.callee == 'strcpy' or (c.callee or '').startswith(('llvm.memcpy', 'memcpy')))]
                    okcp = len(cp) == 1 and ft.strip(cp[0].args[0]) == pph[0].id and is_load_of(ft, cp[0].args[1], CELL + 's') and \
                        ft.strip(ft.ap(ft.get(ft.strip(cp[0].args[1])).ops[0]).root) == c2.id
                    if okcp and cp[0].callee != 'strcpy':
                        # a counted copy must take the string with its NUL: length == strlen(c->s) + 1
                        okcp = strlen_plus_1(ft, c2)(affine(ft, cp[0].args[2]))
                    ctx.ob('C19.4', 'flatten: strcpy(cursor, c->s)', okcp, 'each string, with its terminator, is copied to the cursor', loc=(cp[0].loc if cp else c2.loc))
                    def into_I(st):
                        g_ = ft.get(ft.strip(st.ops[1]))
                        return g_ is not None and g_.op == 'getelementptr' and ft.strip(g_.d['base']) == ft.strip(sI[0].ops[0])
                    offs = [st for st in ft.order if st.op == 'store' and st.block.id in L2['blocks'] and into_I(st)] if okI else []
                    oko = len(offs) == 1 and lib.affine_diff(ft, offs[0].ops[0], pph[0].id) == \
                        {k: -v for k, v in affine(ft, Cv).items() if v != 0}
                    oki = False
                    if len(offs) == 1:
                        g_ = ft.get(ft.strip(offs[0].ops[1]))
                        oki = g_ is not None and g_.op == 'getelementptr' and len(g_.d['path']) == 1 and 'p' in g_.d['path'][0] and \
                            ft.strip(g_.d['path'][0]['p']) == iph[0].id
                    ctx.ob('C19.4', 'flatten: I[i] = cursor - C', oko and oki, 'the i-th offset is where the i-th string was copied', loc=(offs[0].loc if offs else c2.loc))
    # positions: the file index written for the start / end position of a copied node is the interned *own* file name of that
    # position of the source node (dr_copy_dag_node_1 from the recorded node, the shrinking copy from the source DAG's table)
    from ..ir import EdgePoint, iter_refs
    nsites = 0
    for fn in w.functions.values():
        sts = [st for st in fn.order if st.op == 'store' and fn.field(st) == 'code_pos.file_idx']
        if not sts:
            continue
        ctx.fn_analysed.add(fn.name)

        def which_of(addr):
            fl_ = fn.ap(addr).fields
            return 'start' if 'dr_dag_node_info.start' in fl_ else 'end' if 'dr_dag_node_info.end' in fl_ else None

        def pos_loads(ref, seen=None):
            """position-name loads (code_pos.file / file_idx) in the backward slice of ref, through address computations"""
            seen = set() if seen is None else seen
            ins = fn.get(ref) if isinstance(ref, str) else None
            if ins is None or ins.id in seen:
                return []
            seen.add(ins.id)
            if ins.op == 'load' and fn.field(ins) in ('code_pos.file', 'code_pos.file_idx'):
                return [ins]
            if ins.op in ('call', 'alloca'):
                return [x for a in ins.args[1:2] for x in pos_loads(a, seen)] if ins.callee == 'dr_string_table_intern' else []
            return [x for r in iter_refs(ins.d) for x in pos_loads(r, seen)]

        # the node(s) whose names are interned in this function
        R = set(fn.strip(fn.ap(l.ops[0]).root) for c in call_sites(fn, 'dr_string_table_intern') for l in pos_loads(c.args[1]))
        for st in sts:
            wh = which_of(st.ops[1])
            nsites += 1
            vi = fn.get(fn.strip(st.ops[0]))
            alts = [(vi.id, None)] if vi is None or vi.op != 'phi' else [(v, b) for v, b in vi.d['incoming']]
            ok, why = wh is not None, ''
            for v, b in alts:
                srcs = [fn.insts[k] for k in fn.sources(v) if k in fn.insts]
                calls = [c for c in srcs if c.op == 'call' and c.callee == 'dr_string_table_intern']
                # an index read back from the copy being filled stands for the position it was stored for
                back = [l for l in srcs if l.op == 'load' and fn.field(l) == 'code_pos.file_idx' and
                        same_value(fn, fn.ap(l.ops[0]).root, fn.ap(st.ops[1]).root)]
                if not srcs or len(calls) + len(back) != len(srcs):
                    ok, why = False, 'not an interned index'
                    break
                tags = set(which_of(l.ops[0]) for c in calls for l in pos_loads(c.args[1])) | set(which_of(l.ops[0]) for l in back)
                if tags == {wh}:
                    continue
                # the other position's index is acceptable only where the two names of the source node were compared equal
                guarded = False
                if tags and None not in tags:
                    point = EdgePoint(fn, b, vi.block.id) if b is not None else st
                    roots = R
                    for ic in fn.order:
                        if ic.op == 'icmp' and ic.pred == 'eq':
                            ls = [fn.get(fn.strip(o)) for o in ic.ops]
                            if all(l is not None and l.op == 'load' and fn.field(l) in ('code_pos.file', 'code_pos.file_idx') and
                                   fn.strip(fn.ap(l.ops[0]).root) in roots for l in ls) and \
                                    set(which_of(l.ops[0]) for l in ls) == {'start', 'end'} and \
                                    any(fn.on_edge(c_, p_, point) for c_, p_ in lib.cond_chain(fn, ic.id)):
                                guarded = True
                if not guarded:
                    ok, why = False, 'index interned from the %s name' % '/'.join(sorted(str(t) for t in tags))
                    break
            ctx.ob('C19.4', '%s: %s.pos.file_idx is the interned %s file name of the source node' % (fn.name, wh, wh), ok,
                   'the file index stored for a position names that position\'s own file (a node that starts in one source file and '
                   'ends in another must read back with both names)', loc=st.loc, detail=why)
    ctx.ob('C19.4', 'file-index stores found', nsites >= 4, 'start and end index in the recording copy and in the shrinking copy', loc=f.loc)
    ctx.floor('C19.4', 27)


def rule5_growth(ctx):
    ctx.doc('C19.5', 'growable arrays of the replay / pruning code (every memcpy in libdr): the bytes copied into a freshly allocated '
            'array are old-count * E with E the same element size the new array was allocated with, the new capacity covers the '
            'request, and dr_event_queue_enq ensures capacity n+1 before storing at index n')
    n = 0
    for file in sorted(ctx.db['profiler']):
        m = ctx.ssa(file, area='profiler')
        for f in m.functions.values():
            for mc in f.calls():
                if not (mc.callee or '').startswith('llvm.memcpy') or mc.d.get('inl'):
                    continue
                dst = [f.insts[k] for k in f.sources(mc.args[0]) if k in f.insts]
                if len(dst) != 1 or dst[0].op != 'call' or dst[0].callee not in ('dr_malloc', 'malloc'):
                    continue        # struct assignment, not an array copy
                n += 1
                ctx.fn_analysed.add(f.name)
                al = affine(f, dst[0].args[0])
                cp = affine(f, mc.args[2])
                ea = [abs(v) for k, v in al.items() if k != '' and v != 0]
                ec = [abs(v) for k, v in cp.items() if k != '' and v != 0]
                ok = len(ec) == 1 and bool(ea) and cp.get('', 0) == 0
                E = None
                if ok:
                    # element size of the allocation: new array is E * count (+ E * const): every coefficient is a multiple of E
                    E = ec[0]
                    ok = all(v % E == 0 for v in ea) and al.get('', 0) % E == 0 and min(ea) in (E, 2 * E)
                ctx.ob('C19.5', '%s: copy granularity equals allocation granularity' % f.name, ok,
                       'copying old_count * sizeof(pointer) instead of old_count * sizeof(element) keeps only a prefix of the array',
                       loc=mc.loc, detail='alloc %s ; copy %s' % (expr_str(f, dst[0].args[0]), expr_str(f, mc.args[2])))
                # the old contents are carried over whenever there is an old array (a NULL test of it may only skip the copy
                # when it is NULL)
                srcl0 = [f.insts[k] for k in f.sources(mc.args[1]) if k in f.insts and f.insts[k].op == 'load']
                if len(srcl0) == 1:
                    nts_ = lib.null_tests(f, srcl0[0].id) + [t_ for l_ in f.loads_of(f.field(srcl0[0])) for t_ in lib.null_tests(f, l_.id)
                                                            if lib.same_addr(f, l_.ops[0], srcl0[0].ops[0])]
                    if nts_:
                        ctx.ob('C19.5', '%s: old contents copied whenever an old array exists' % f.name,
                               any(f.edge_dominates(br.block.id, nn, mc) for br, nn, nl in nts_),
                               'if (old) memcpy(new, old, ..): the copy sits on the non-NULL side', loc=mc.loc)
                # the grown array and its new capacity replace the old ones in the owning structure
                if ok and E:
                    srcl = [f.insts[k] for k in f.sources(mc.args[1]) if k in f.insts and f.insts[k].op == 'load']
                    # the capacity is the field the growth decision compares with the request
                    capl = []
                    for ic in f.order:
                        if ic.op == 'icmp' and any(f.edge_dominates(br.block.id, sx, dst[0]) for br in f.users(ic.id)
                                                   if br.op == 'br' and 'cond' in br.d for sx in (br.d['t'], br.d['f'])):
                            for o in ic.ops:
                                li = f.get(f.strip(o)) if isinstance(o, str) else None
                                if li is not None and li.op == 'load' and f.field(li) and srcl and \
                                        f.field(li).split('.')[0] == f.field(srcl[0]).split('.')[0] and li not in capl:
                                    capl.append(li)
                    capl = capl[:1] if len(set(f.field(x) for x in capl)) == 1 else capl
                    okp = okc2 = False
                    if len(srcl) == 1 and len(capl) == 1:
                        fa, fc = f.field(srcl[0]), f.field(capl[0])
                        ps_ = [st for st in f.stores_to(fa) if same_value(f, st.ops[0], dst[0].id)]
                        okp = bool(ps_) and f.always_passes(dst[0], ps_)
                        cs_ = []
                        for st in f.stores_to(fc):
                            sv = affine(f, st.ops[0])
                            if all(al.get(k, 0) == E * sv.get(k, 0) for k in set(al) | set(sv)):
                                cs_.append(st)
                        okc2 = bool(cs_) and f.always_passes(dst[0], cs_)
                        ctx.ob('C19.5', '%s: the grown array replaces the old one' % f.name, okp, '%s = new array on every path' % fa,
                               loc=mc.loc)
                        ctx.ob('C19.5', '%s: the capacity field is updated to the allocated count' % f.name, okc2,
                               '%s = new count: a stale capacity makes the next push believe the array is still full (or still large '
                               'enough)' % fc, loc=mc.loc)
    ctx.ob('C19.5', 'array growth sites found', n >= 2, 'dr_event_queue_ensure and the pruning stack', loc='src/profiler')
    c = ctx.ssa('chronological.c', area='profiler')
    en = ctx.need_fn(c, 'dr_event_queue_ensure')
    q = 'a0'
    guard = False
    for ic in en.order:
        if ic.op == 'icmp':
            d = lib.affine_diff(en, ic.ops[0], ic.ops[1])
            sz = lib.load_terms(en, d, 'dr_event_queue.sz')
            if len(d) == 2 and len(sz) == 1 and 'a1' in d and d['a1'] + d[sz[0]] == 0:
                guard = True
    ctx.ob('C19.5', 'ensure grows when capacity < request', guard, 'if (q->sz < sz)', loc=en.loc)
    szst = en.stores_to('dr_event_queue.sz')
    okc = len(szst) == 1
    if okc:
        a_ = affine(en, szst[0].ops[0])
        okc = a_.get('a1', 0) >= 1 and a_.get('', 0) >= 0 and set(a_) <= {'a1', ''}
        al = [x for x in en.calls() if x.callee == 'dr_malloc']
        okc = okc and len(al) == 1 and len(lib.affine_diff(en, al[0].args[0], szst[0].ops[0])) >= 0
        if okc:
            aa = affine(en, al[0].args[0])
            E = aa.get('a1', 0) // a_['a1'] if a_['a1'] else 0
            okc = E > 0 and all(aa.get(k, 0) == E * a_.get(k, 0) for k in set(aa) | set(a_))
            evst = en.stores_to('dr_event_queue.events')
            okc = okc and len(evst) == 1 and same_value(en, evst[0].ops[0], al[0].id)
    ctx.ob('C19.5', 'new capacity covers the request and matches the allocation', okc,
           'q->sz = new_sz >= sz, q->events = the array allocated with E * new_sz bytes', loc=en.loc)
    eq = ctx.need_fn(c, 'dr_event_queue_enq')
    ens = call_sites(eq, 'dr_event_queue_ensure')
    oke = len(ens) == 1
    if oke:
        d = affine(eq, ens[0].args[1])
        nl = lib.load_terms(eq, d, 'dr_event_queue.n')
        oke = len(nl) == 1 and d[nl[0]] == 1 and d.get('', 0) >= 1
        memsts = [x for x in eq.calls() if (x.callee or '').startswith('llvm.memcpy')] + \
                 [x for x in eq.order if x.op == 'store' and eq.field(x).startswith('dr_event.')]
        oke = oke and bool(memsts) and all(eq.dominates_f(ens[0], x) for x in memsts)
    ctx.ob('C19.5', 'enq ensures capacity n + 1 before storing the event', oke, 'dr_event_queue_ensure(q, q->n + 1) dominates events[n] = evt',
           loc=eq.loc)
    # enq: store at index n, then n + 1, then restore the heap; deq: take slot 0, move the last element there, n - 1, restore
    def counter_step(fn, want):
        out = []
        for st in fn.stores_to('dr_event_queue.n'):
            av = affine(fn, st.ops[0])
            own = [k for k in av if k in fn.insts and fn.insts[k].op == 'load' and fn.field(fn.insts[k]) == 'dr_event_queue.n']
            if len(own) == 1 and av[own[0]] == 1 and av.get('', 0) == want and len([k for k in av if k != '' and av[k] != 0]) == 1:
                out.append(st)
        return out
    inc = counter_step(eq, 1)
    up = call_sites(eq, 'dr_event_queue_heapify_up')
    cp = [x for x in eq.calls() if (x.callee or '').startswith('llvm.memcpy')]
    okq = len(inc) == 1 and len(up) == 1 and len(cp) >= 1 and all(eq.dominates_f(x, up[0]) for x in cp) and eq.dominates_f(inc[0], up[0]) and \
        eq.always_passes(eq.entry_inst(), up)
    ctx.ob('C19.5', 'enq: element stored, count incremented, heap order restored', okq,
           'events[n] = evt; n++; heapify_up - an event that is stored but not counted, or counted but left out of order, is lost or '
           'replayed at the wrong time', loc=eq.loc)
    if cp:
        ix = [x for x in eq.ap(cp[0].args[0]).steps if x[0] in ('p', 'i')]
        # the slot written is the old count: new count - index == 1 (whichever of the two statements comes first)
        oki = bool(ix) and isinstance(ix[-1][1], str) and is_load_of(eq, ix[-1][1], 'dr_event_queue.n') and bool(inc)
        if oki:
            dd = lib.affine_diff(eq, inc[0].ops[0], ix[-1][1])
            if dd != {'': 1}:
                # two loads of n: equal if nothing wrote n in between
                la = [k for k in dd if k in eq.insts and eq.insts[k].op == 'load']
                oki = len(la) == 2 and dd.get('', 0) == 1 and all(eq.field(eq.insts[k]) == 'dr_event_queue.n' for k in la) and \
                    lib.same_addr(eq, eq.insts[la[0]].ops[0], eq.insts[la[1]].ops[0]) and \
                    not any(st_ is not inc[0] for st_ in eq.stores_to('dr_event_queue.n')) and \
                    not any((c_.callee or '') in ('dr_event_queue_ensure', 'dr_event_queue_heapify_up') and
                            eq.dominates_f(eq.insts[la[0]], c_) != eq.dominates_f(eq.insts[la[1]], c_) for c_ in eq.calls())
                if oki:
                    first, second = sorted([eq.insts[k] for k in la], key=lambda i: (i.block.id, i.idx))
                    oki = not (eq.dominates_f(inc[0], second) and eq.dominates_f(first, inc[0]))
        ctx.ob('C19.5', 'enq stores at index n', oki, 'the first free slot: events[old n], new n = old n + 1', loc=cp[0].loc)
    dq = ctx.need_fn(c, 'dr_event_queue_deq')
    dec = counter_step(dq, -1)
    dn = call_sites(dq, 'dr_event_queue_heapify_down')
    okd = len(dec) == 1 and len(dn) == 1 and dq.dominates_f(dec[0], dn[0]) and dq.always_passes(dq.entry_inst(), dn)
    ctx.ob('C19.5', 'deq: count decremented, heap order restored', okd, 'n--; heapify_down', loc=dq.loc)
    mv = [x for x in dq.calls() if (x.callee or '').startswith('llvm.memcpy')]
    okm = False
    for x in mv:
        di = [y for y in dq.ap(x.args[0]).steps if y[0] in ('p', 'i')]
        si = [y for y in dq.ap(x.args[1]).steps if y[0] in ('p', 'i')]
        if is_load_of(dq, dq.ap(x.args[0]).root, 'dr_event_queue.events') and is_load_of(dq, dq.ap(x.args[1]).root, 'dr_event_queue.events') and \
                (not di or const_int(di[-1][1] if not isinstance(di[-1][1], int) else {'c': di[-1][1]}) == 0) and si and isinstance(si[-1][1], str):
            a_ = affine(dq, si[-1][1])
            nl = lib.load_terms(dq, a_, 'dr_event_queue.n')
            if len(nl) == 1 and a_[nl[0]] == 1 and a_.get('', 0) == -1 and dec and dq.dominates_f(x, dec[0]):
                okm = True
    ctx.ob('C19.5', 'deq moves the last element to the root before shrinking', okm, 'events[0] = events[n - 1]; n--', loc=dq.loc)
    ctx.floor('C19.5', 14)


DUMP = 'src/profiler/dr_dump.c'
READ = 'src/profiler/read_dag.c'
MUTANTS = [
    {'name': 'dump writes only the header of the string table (hand mutant r6)', 'expect': 'C19.1',
     'edits': [(DUMP, "      || fwrite(G->S, G->S->sz, 1, wp) != 1) {", "      || fwrite(G->S, sizeof(*G->S), 1, wp) != 1) {")]},
    {'name': 'reader accepts format versions that sort before its own (hand mutant r6)', 'expect': 'C19.1',
     'edits': [('src/profiler/read_dag.c', "  if (strcmp(header_buf, DAG_RECORDER_HEADER)) {", "  if (strcmp(header_buf, DAG_RECORDER_HEADER) > 0) {")]},
    {'name': 'reader maps the file shared (hand mutant r6)', 'expect': 'C19.1',
     'edits': [('src/profiler/read_dag.c', "\t   MAP_PRIVATE, fd, 0);", "\t   MAP_SHARED, fd, 0);")]},
    {'name': 'reader maps the file header_sz bytes short (seed5 C19/m3)', 'expect': 'C19.1',
     'edits': [('src/profiler/read_dag.c', "  a = mmap(NULL, file_sz, PROT_READ | PROT_WRITE,", "  a = mmap(NULL, file_sz - header_sz, PROT_READ | PROT_WRITE,")]},
    {'name': 'object initialiser clears the header fields the shrinking copy set before calling it (seed5 C19/m1)', 'expect': 'C19.2',
     'edits': [('src/profiler/dr_dump.c', "  G->S = 0;\n}", "  G->S = 0;\n  G->start_clock = 0;\n  G->num_workers = 0;\n}"),
               ('src/profiler/dr_dump.c', "  G->num_workers = dr_get_number_of_workers();\n  G->start_clock = start_clock;\n  dr_pi_dag_init(G);", "  dr_pi_dag_init(G);\n  G->num_workers = dr_get_number_of_workers();\n  G->start_clock = start_clock;")]},
    {'name': 'dump stream not closed on the success path (seed4 C19/m2)', 'expect': 'C19.13',
     'edits': [('src/profiler/dr_dump.c', "    dr_free(filename, len);\n    fclose(wp);\n  } else {", "    dr_free(filename, len);\n  } else {")]},
    {'name': 'event heap compares times through an int difference (seed4 C19/m3)', 'expect': 'C19.13',
     'edits': [('src/profiler/chronological.c', "    if (evts[x].t >= evts[p].t) break;", "    if ((int)(evts[x].t - evts[p].t) >= 0) break;")]},
    {'name': 'shrinking copy keeps the child of a create_task whose node is dropped (seed4 C18/m3)', 'expect': 'C19.3',
     'edits': [('src/profiler/dr_dump.c', "    int copy_children = 0;\n    (void)dr_check(map[i] != map_init);", "    int copy_children = (t->info.kind == dr_dag_node_kind_create_task);\n    (void)dr_check(map[i] != map_init);")]},
    {'name': 'dump: child offset taken after the cursor moved', 'expect': 'C19.12',
     'edits': [('src/profiler/dr_dump.c', "      g_pi->child_offset = p - g_pi;\n      p++;", "      p++;\n      g_pi->child_offset = p - g_pi;")]},
    {'name': 'dump: subgraph end offset measured from the table cursor start', 'expect': 'C19.12',
     'edits': [('src/profiler/dr_dump.c', "    g_pi->subgraphs_end_offset = p - g_pi;\n  }\n  return p;", "    g_pi->subgraphs_end_offset = p - g_pi - 1;\n  }\n  return p;")]},
    {'name': 'dump: last_start_t left absolute', 'expect': 'C19.12',
     'edits': [('src/profiler/dr_dump.c', "  g_pi->info.last_start_t  -= start_clock;\n", "")]},
    {'name': 'dump: enumeration cursor not advanced past the root', 'expect': 'C19.12',
     'edits': [('src/profiler/dr_dump.c', "  dr_copy_dag_node_1(g, p, lim, st);\n  p++;\n  dr_dag_node_stack_push(s, g);", "  dr_copy_dag_node_1(g, p, lim, st);\n  dr_dag_node_stack_push(s, g);")]},
    {'name': 'dump: count skips the child of a create_task', 'expect': 'C19.12',
     'edits': [('src/profiler/dr_dump.c', "\tdr_dag_node_stack_push(s, x->child);\n      }\n    } else {\n      dr_dag_node_stack_push_children(s, x);\n    }\n  }\n  dr_dag_node_stack_fini(s);\n  return n;", "      }\n    } else {\n      dr_dag_node_stack_push_children(s, x);\n    }\n  }\n  dr_dag_node_stack_fini(s);\n  return n;")]},
    {'name': 'string table flatten forgets the terminating NUL when measuring', 'expect': 'C19.4',
     'edits': [('src/profiler/dr_dump.c', "    str_bytes += strlen(c->s) + 1;", "    str_bytes += strlen(c->s);")]},
    {'name': 'string table flatten records offsets relative to the block, not to C', 'expect': 'C19.4',
     'edits': [('src/profiler/dr_dump.c', "      I[i] = p - C;", "      I[i] = p - (char *)a;")]},
    {'name': 'string table find returns one past the matching index', 'expect': 'C19.4',
     'edits': [('src/profiler/dr_dump.c', "    if (strcmp(c->s, s) == 0) return i;\n    i++;", "    i++;\n    if (strcmp(c->s, s) == 0) return i;")]},
    {'name': 'string table find stops at the first different string', 'expect': 'C19.4',
     'edits': [('src/profiler/dr_dump.c', "    if (strcmp(c->s, s) == 0) return i;", "    if (strcmp(c->s, s) != 0) return i;")]},
    {'name': 'string table flatten advances the cursor without the NUL', 'expect': 'C19.4',
     'edits': [('src/profiler/dr_dump.c', "      p += strlen(c->s) + 1;", "      p += strlen(c->s);")]},
    {'name': 'copied node takes its end file index from the start position (seed3 C19/m2)', 'expect': 'C19.4',
     'edits': [('src/profiler/dr_dump.c', "  p->info.end.pos.file_idx\n    = dr_string_table_intern(st, g->info.end.pos.file);", "  p->info.end.pos.file_idx\n    = dr_string_table_intern(st, g->info.start.pos.file);")]},
    {'name': 'dump writes m before n', 'expect': 'C19.1',
     'edits': [(DUMP, "      || fwrite(&G->n, sizeof(G->n), 1, wp) != 1\n      || fwrite(&G->m, sizeof(G->m), 1, wp) != 1", "      || fwrite(&G->m, sizeof(G->m), 1, wp) != 1\n      || fwrite(&G->n, sizeof(G->n), 1, wp) != 1")]},
    {'name': 'reader skips num_workers', 'expect': 'C19.1',
     'edits': [(READ, "      || (r = read(fd, &G->num_workers, sizeof(G->num_workers)))\n      != sizeof(G->num_workers)) {", "      ) {")]},
    {'name': 'reader places E after m nodes', 'expect': 'C19.1',
     'edits': [(READ, "  G->E = (dr_pi_dag_edge *)&G->T[G->n];", "  G->E = (dr_pi_dag_edge *)&G->T[G->m];")]},
    {'name': 'header length constant off by one', 'expect': 'C19.1',
     'edits': [('src/profiler/dag_recorder_impl.h', "#define DAG_RECORDER_HEADER_LEN 45", "#define DAG_RECORDER_HEADER_LEN 44")]},
    {'name': 'shrink rewrites empty child ranges (seed C19/m1)', 'expect': 'C19.3',
     'edits': [(DUMP, "\tif (c_begin < c_end) {\n\t  if (map[c_begin] >= 0) {", "\tif (c_begin < n) {\n\t  if (map[c_begin] >= 0) {")]},
    {'name': 'shrink end offset loses the +1', 'expect': 'C19.3',
     'edits': [(DUMP, "to->subgraphs_end_offset   = map[c_end - 1] - map[i] + 1;", "to->subgraphs_end_offset   = map[c_end - 1] - map[i];")]},
    {'name': 'string table tail set only for the first cell (seed C19/m2)', 'expect': 'C19.4',
     'edits': [(DUMP, "    t->head = c;\n  }\n  t->tail = c;\n", "    t->head = t->tail = c;\n  }\n")]},
    {'name': 'intern appends when found', 'expect': 'C19.4',
     'edits': [(DUMP, "  if (idx == t->n) {\n    dr_string_table_append(t, s);", "  if (idx != t->n) {\n    dr_string_table_append(t, s);")]},
    {'name': 'event queue growth copies pointer-sized elements (seed C19/m3)', 'expect': 'C19.5',
     'edits': [('src/profiler/chronological.c', "memcpy(evts, q->events, sizeof(dr_event) * q->sz);", "memcpy(evts, q->events, sizeof(dr_event *) * q->sz);")]},
    {'name': 'enq ensures capacity n only', 'expect': 'C19.5',
     'edits': [('src/profiler/chronological.c', "dr_event_queue_ensure(q, q->n + 1);", "dr_event_queue_ensure(q, q->n);")]},
    {'name': 'edges sorted by target first', 'expect': 'C19.6',
     'edits': [(DUMP, "  if (e->u < f->u) return -1;\n  if (e->u > f->u) return 1;\n  if (e->v < f->v) return -1;\n  if (e->v > f->v) return 1;",
                "  if (e->v < f->v) return -1;\n  if (e->v > f->v) return 1;\n  if (e->u < f->u) return -1;\n  if (e->u > f->u) return 1;")]},
    {'name': 'sort leaves the last edge out', 'expect': 'C19.6',
     'edits': [(DUMP, "  qsort((void *)E, m, sizeof(dr_pi_dag_edge), edge_cmp);", "  qsort((void *)E, m - 1, sizeof(dr_pi_dag_edge), edge_cmp);")]},
    {'name': 'edge ranges cut on the target node', 'expect': 'C19.6',
     'edits': [(DUMP, "    long u = E[j].u;\n    while (i < u) {", "    long u = E[j].v;\n    while (i < u) {")]},
    {'name': 'tail loop forgets edges_begin of the next node', 'expect': 'C19.6',
     'edits': [(DUMP, "    T[i].edges_end = m;\n    T[i+1].edges_begin = m;", "    T[i].edges_end = m;")]},
    {'name': 'replay: start event schedules the end directly', 'expect': 'C19.7',
     'edits': [('src/profiler/chronological.c', "      dr_event_queue_enq(F, dr_mk_event(u->info.last_start_t, \n\t\t\t\t\tdr_event_kind_last_start, u, ",
                "      dr_event_queue_enq(F, dr_mk_event(u->info.last_start_t, \n\t\t\t\t\tdr_event_kind_end, u, ")]},
    {'name': 'replay: successor made ready before its count is decremented', 'expect': 'C19.7',
     'edits': [('src/profiler/chronological.c', "\tready_count[e->v]--;\n\tif (ready_count[e->v] == 0) {", "\tif (ready_count[e->v] == 1) {")]},
    {'name': 'replay: ready when the count is still one', 'expect': 'C19.7',
     'edits': [('src/profiler/chronological.c', "\tif (ready_count[e->v] == 0) {", "\tif (ready_count[e->v] <= 1) {")]},
    {'name': 'replay: end events are not reported to the traverser', 'expect': 'C19.7',
     'edits': [('src/profiler/chronological.c', "\t}\n      }\n      break;\n    }\n    default:", "\t}\n      }\n      continue;\n    }\n    default:")]},
    {'name': 'replay: ready counts indexed by the source node', 'expect': 'C19.7',
     'edits': [('src/profiler/chronological.c', "    ready_count[G->E[i].v]++;", "    ready_count[G->E[i].u]++;")]},
    {'name': 'pruning stack keeps its old capacity after growing (sweep M0101)', 'expect': 'C19.5',
     'edits': [('src/profiler/dag_recorder_inl.h', "\tS->entries = new_entries;\n\tS->sz = new_sz;", "\tS->entries = new_entries;")]},
    {'name': 'event queue keeps the old array after growing', 'expect': 'C19.5',
     'edits': [('src/profiler/chronological.c', "    q->events = evts;\n    q->sz = new_sz;", "    q->sz = new_sz;")]},
    {'name': 'enq does not count the new event (sweep M0046)', 'expect': 'C19.5',
     'edits': [('src/profiler/chronological.c', "  q->events[q->n] = evt;\n  q->n++;\n  dr_event_queue_heapify_up(q);", "  q->events[q->n] = evt;\n  dr_event_queue_heapify_up(q);")]},
    {'name': 'enq leaves the heap unordered (sweep M0047)', 'expect': 'C19.5',
     'edits': [('src/profiler/chronological.c', "  q->n++;\n  dr_event_queue_heapify_up(q);", "  q->n++;")]},
    {'name': 'deq takes the element past the end', 'expect': 'C19.5',
     'edits': [('src/profiler/chronological.c', "  q->events[0] = q->events[q->n - 1];\n  q->n--;", "  q->n--;\n  q->events[0] = q->events[q->n - 1];")]},
    {'name': 'tail scan of set_edge_ptrs does not advance (sweep M0094)', 'expect': 'C19.6',
     'edits': [(DUMP, "    T[i].edges_end = m;\n    T[i+1].edges_begin = m;\n    i++;", "    T[i].edges_end = m;\n    T[i+1].edges_begin = m;")]},
    {'name': 'tail scan runs to i < n (sweep M0097)', 'expect': 'C19.6',
     'edits': [(DUMP, "  while (i < n - 1) {", "  while (i < n) {")]},
    {'name': 'ready counts cleared one past the end (sweep M0062)', 'expect': 'C19.7',
     'edits': [('src/profiler/chronological.c', "  for (i = 0; i < G->n; i++) {\n    ready_count[i] = 0;", "  for (i = 0; i <= G->n; i++) {\n    ready_count[i] = 0;")]},
    {'name': 'shrinking copy loses the worker count (sweep M0015-like)', 'expect': 'C19.2',
     'edits': [(DUMP, "  G_->num_workers = G->num_workers;\n", "")]},
    {'name': 'dump pipeline builds into an uninitialised DAG object (sweep M0056)', 'expect': 'C19.2',
     'edits': [(DUMP, "  G->start_clock = start_clock;\n  dr_pi_dag_init(G);", "  G->start_clock = start_clock;")]},
    {'name': 'string table used uninitialised (sweep M0061)', 'expect': 'C19.2',
     'edits': [(DUMP, "  dr_string_table st[1];\n  dr_string_table_init(st);\n  G->num_workers", "  dr_string_table st[1];\n  G->num_workers")]},
    {'name': 'replay start descends on the node count instead of the range (seed2 C19/m3)', 'expect': 'C19.8',
     'edits': [('src/profiler/chronological.c', "\t && g->subgraphs_begin_offset < g->subgraphs_end_offset) {\n    g = g + g->subgraphs_begin_offset;", "\t && g->info.cur_node_count > 1) {\n    g = g + g->subgraphs_begin_offset;")]},
    {'name': 'node_last descends into an empty range', 'expect': 'C19.8',
     'edits': [(DUMP, "\t && g->subgraphs_begin_offset < g->subgraphs_end_offset) {\n    g = g + g->subgraphs_end_offset - 1;", "\t && g->subgraphs_begin_offset <= g->subgraphs_end_offset) {\n    g = g + g->subgraphs_end_offset - 1;")]},
    {'name': 'leaf test of the delay computation ignores the node kind (seed2 C18/m3)', 'expect': 'C19.9',
     'edits': [('src/profiler/gen_stat.c', "    if (t->info.kind < dr_dag_node_kind_section\n\t|| t->subgraphs_begin_offset == t->subgraphs_end_offset) {", "    if (t->subgraphs_begin_offset == t->subgraphs_end_offset) {")]},
    {'name': 'edge enumeration walks one past the children of a section (sweep M0091)', 'expect': 'C19.10',
     'edits': [(DUMP, "\t  for (y = xa; y < xb; y++) {", "\t  for (y = xa; y <= xb; y++) {")]},
    {'name': 'pruning stack copies its contents only when it has none (sweep M0103)', 'expect': 'C19.5',
     'edits': [('src/profiler/dag_recorder_inl.h', "\tif (S->entries) {\n\t  memcpy(new_entries, S->entries, ", "\tif (!(S->entries)) {\n\t  memcpy(new_entries, S->entries, ")]},
    {'name': 'edge pointers set before sorting', 'expect': 'C19.2',
     'edits': [(DUMP, "  dr_pi_dag_enum_edges(G_);\t   /* G_->E */\n  dr_pi_dag_sort_edges(G_);\n  dr_pi_dag_set_edge_ptrs(G_);", "  dr_pi_dag_enum_edges(G_);\t   /* G_->E */\n  dr_pi_dag_set_edge_ptrs(G_);\n  dr_pi_dag_sort_edges(G_);")]},
]
