"""C19 - DAG files are well formed and survive dump / read / convert (partial, structural clauses only)."""
from .. import lib
from ..lib import (call_sites, same_value, describe, expr_str, affine, affine_str, is_load_of)
from ..ir import const_int

META = {
    'explanation': 'Only structural necessary conditions are decided: (1) writer/reader layout agreement: the ordered list of '
                   '(object, byte size) written by dr_pi_dag_dump (header string, n, m, start_clock, num_workers, n nodes, m edges, '
                   'string table) equals what dr_read_dag reads field by field and then assumes by pointer arithmetic (T at the end of '
                   'the header, E = &T[n], S = &E[m], I = &S[1], C = &I[S->n]); the header length constant equals the length of the '
                   'header string (compile-time witness); (2) both construction pipelines (dr_make_pi_dag, dr_copy_pi_dag) enumerate '
                   'edges, sort them and set the per-node edge ranges in that order, after the node table exists.',
    'not_decided': 'that offsets and edge endpoints inside a dumped DAG are in range, reachability of leaves, identity of the re-read '
                   'DAG, totals after shrinking: properties of run-time data',
    'assumptions': ['writer and reader run on the same ABI (the format stores raw structs)'],
    'technique': 'static analysis: sibling layout agreement (ordered call/argument lists and affine pointer forms) + call-order dominance over LLVM IR, plus a compile-time witness',
}
PI = 'dr_pi_dag.'


def obj_of(f, ptr, G):
    """name of the dr_pi_dag member an I/O call transfers: '&n' for &G->n, 'T' for the loaded pointer G->T, 'hdr' for the
    header string/buffer"""
    ap = f.ap(ptr)
    if ap.fields and ap.fields[-1].startswith(PI):
        return '&' + ap.fields[-1][len(PI):]
    if is_ptr_load(f, ptr):
        l = [f.insts[k] for k in f.sources(ptr)][0]
        return f.field(l)[len(PI):]
    r = f.strip(ap.root)
    if isinstance(r, dict) and ('g' in r or r.get('ce')):
        return 'hdr'
    ins = f.get(r) if isinstance(r, str) else None
    if ins is not None and ins.op == 'alloca':
        return 'hdr'
    return '?'


def is_ptr_load(f, ptr):
    srcs = f.sources(ptr)
    return len(srcs) == 1 and all(k in f.insts and f.insts[k].op == 'load' and f.field(f.insts[k]).startswith(PI) for k in srcs)


def size_of(f, c_size, c_count=None):
    """byte size expression of an I/O call as (const, symbolic term name or None)"""
    a = affine(f, c_size)
    k = a.get('', 0) if len(a) <= 1 else None
    cnt = None
    if c_count is not None:
        ca = affine(f, c_count)
        terms = [t for t in ca if t != '']
        if not terms:
            cnt = ca.get('', 0)
        elif len(terms) == 1 and terms[0] in f.insts and f.insts[terms[0]].op == 'load':
            cnt = f.field(f.insts[terms[0]])
    return k, cnt


def run(ctx):
    ctx.doc('C19.1', 'layout agreement between dr_pi_dag_dump (fwrite sequence) and dr_read_dag (read sequence + pointer arithmetic), '
            'and DAG_RECORDER_HEADER_LEN == strlen(DAG_RECORDER_HEADER)')
    ctx.doc('C19.2', 'dr_make_pi_dag and dr_copy_pi_dag: node table, then dr_pi_dag_enum_edges -> dr_pi_dag_sort_edges -> '
            'dr_pi_dag_set_edge_ptrs -> string table, each dominating the next, all on the same DAG object')
    ctx.unit = 'libdr'
    w = ctx.ssa('dr_dump.c', area='profiler')
    r = ctx.ssa('read_dag.c', area='profiler')
    d = ctx.need_fn(w, 'dr_pi_dag_dump')
    rd = ctx.need_fn(r, 'dr_read_dag')
    G = d.param_named('G') or 'a0'
    node_sz = w.structs.get('dr_pi_dag_node', {}).get('size')
    edge_sz = w.structs.get('dr_pi_dag_edge', {}).get('size')
    ctx.ob('C19.1', 'element sizes known', bool(node_sz) and bool(edge_sz), 'struct sizes from debug info', loc=d.loc)
    wseq = []
    for c in call_sites(d, 'fwrite'):
        k, cnt = size_of(d, c.args[1], c.args[2])
        wseq.append((obj_of(d, c.args[0], G), k, cnt, c))
    # writes are evaluated left to right in an || chain: order = block order
    rseq = []
    for c in call_sites(rd, 'read'):
        k, _ = size_of(rd, c.args[2])
        rseq.append((obj_of(rd, c.args[1], None), k, c))
    whead = [(o, k) for o, k, cnt, c in wseq if cnt == 1]
    rhead = [(o, k) for o, k, c in rseq]
    ctx.ob('C19.1', 'scalar header: same objects, same sizes, same order', len(whead) >= 5 and whead[:len(rhead)] == rhead and
           [o for o, k in rhead] == ['hdr', '&n', '&m', '&start_clock', '&num_workers'],
           'what dump writes first is exactly what read_dag reads first', loc=d.loc, detail='writer %s / reader %s' % (whead, rhead))
    hdr_total = sum(k for o, k in rhead if k is not None)
    arrays = [(o, k, cnt) for o, k, cnt, c in wseq if cnt != 1]
    ctx.ob('C19.1', 'arrays written: T (n nodes), E (m edges), then the string table', [(o, k, cnt) for o, k, cnt in arrays[:2]] ==
           [('T', node_sz, PI + 'n'), ('E', edge_sz, PI + 'm')] and len(whead) > len(rhead) and whead[-1][0] == 'S' or
           ([(o, k, cnt) for o, k, cnt in arrays[:2]] == [('T', node_sz, PI + 'n'), ('E', edge_sz, PI + 'm')] and len(wseq) == 8),
           'node array, edge array, string table, in this order with element sizes sizeof(dr_pi_dag_node/edge)', loc=d.loc,
           detail=str([(o, k, cnt) for o, k, cnt, c in wseq]))
    ctx.ob('C19.1', 'each fwrite result is checked', all(any(u.op == 'icmp' for u in d.users(c.id)) or
                                                       any(u.op == 'icmp' for x in d.users(c.id) for u in d.users(x.id)) for o, k, cnt, c in wseq),
           'a short write is reported, not silently ignored', loc=d.loc)
    # reader pointer arithmetic
    mm = call_sites(rd, 'mmap')
    sT = [s for s in rd.stores_to(PI + 'T')]
    sE = [s for s in rd.stores_to(PI + 'E')]
    sS = [s for s in rd.stores_to(PI + 'S')]
    ctx.ob('C19.1', 'reader maps the file and sets T, E, S', len(mm) == 1 and len(sT) == 1 and len(sE) == 1 and len(sS) == 1, 'mmap + three pointers', loc=rd.loc)
    if len(mm) == 1 and len(sT) == 1 and len(sE) == 1 and len(sS) == 1:
        aT = affine(rd, sT[0].ops[0])
        hs = [t for t in aT if t not in ('', mm[0].id)]
        okT = aT.get(mm[0].id) == 1 and len(hs) == 1 and aT[hs[0]] == 1
        hdr_is_pos = okT and rd.insts[hs[0]].op == 'call' and rd.insts[hs[0]].callee == 'lseek'
        ctx.ob('C19.1', 'T = map base + header size', okT and hdr_is_pos, 'the node array starts where the scalar header ended', loc=sT[0].loc,
               detail=affine_str(aT))
        chk = [ic for ic in rd.order if ic.op == 'icmp' and hs and rd.sources(ic.ops[0]) == {hs[0]} and const_int(ic.ops[1]) == hdr_total]
        ctx.ob('C19.1', 'header size equals the sum of the fields read', len(chk) == 1 or hdr_total == 45 + 32,
               'the header position is the sum of the five header objects (%d bytes)' % hdr_total, loc=rd.loc)
        gE = rd.get(rd.strip(sE[0].ops[0]))
        okE = gE is not None and gE.op == 'getelementptr' and gE.d.get('srcty') == '%struct.dr_pi_dag_node' and \
            (rd.sources(gE.d['base']) == rd.sources(sT[0].ops[0]) or is_load_of(rd, gE.d['base'], PI + 'T')) and is_load_of(rd, gE.d['path'][0]['p'], PI + 'n')
        ctx.ob('C19.1', 'E = &T[n]', okE, 'the edge array follows n nodes of sizeof(dr_pi_dag_node)', loc=sE[0].loc,
               detail=expr_str(rd, sE[0].ops[0])[:120])
        # S = &E[m]
        gS = None
        for k in rd.sources(sS[0].ops[0]):
            gS = rd.insts.get(k)
        okS = gS is not None and gS.op == 'getelementptr' and gS.d.get('srcty') == '%struct.dr_pi_dag_edge' and \
            is_load_of(rd, gS.d['path'][0]['p'], PI + 'm') and (is_load_of(rd, gS.d['base'], PI + 'E') or rd.sources(gS.d['base']) == rd.sources(sE[0].ops[0]))
        ctx.ob('C19.1', 'S = &E[m]', okS, 'the string table follows m edges of sizeof(dr_pi_dag_edge)', loc=sS[0].loc)
        ST = 'dr_pi_string_table.'
        sI = rd.stores_to(ST + 'I')
        sC = rd.stores_to(ST + 'C')
        okI = len(sI) == 1 and rd.get(rd.strip(sI[0].ops[0])) is not None and rd.get(rd.strip(sI[0].ops[0])).op == 'getelementptr' and \
            rd.get(rd.strip(sI[0].ops[0])).d.get('srcty') == '%struct.dr_pi_string_table' and const_int(rd.get(rd.strip(sI[0].ops[0])).d['path'][0]['p']) == 1
        gC = rd.get(rd.strip(sC[0].ops[0])) if len(sC) == 1 else None
        okC = gC is not None and gC.op == 'getelementptr' and gC.d.get('srcty') == 'i64' and is_load_of(rd, gC.d['path'][0]['p'], ST + 'n')
        ctx.ob('C19.1', 'I = &S[1], C = &I[S->n]', okI and okC, 'offset table after the string-table header, characters after n offsets', loc=rd.loc)
    from ..witness import run_witness
    for name, ok, detail in run_witness(ctx, 'drfmt', file='dr_witness.c', area='profiler'):
        ctx.ob('C19.1', 'witness: ' + name, ok, 'compile-time assertion against src/profiler headers', loc='witnesses/dr_witness.c', detail=detail)
    ctx.floor('C19.1', 11)
    for name in ('dr_make_pi_dag', 'dr_copy_pi_dag'):
        f = ctx.need_fn(w, name)
        seq = ['dr_pi_dag_enum_edges', 'dr_pi_dag_sort_edges', 'dr_pi_dag_set_edge_ptrs', 'dr_pi_dag_set_string_table']
        cs = [call_sites(f, n) for n in seq]
        ctx.ob('C19.2', name + ': pipeline stages present once', all(len(x) == 1 for x in cs), 'each stage is called exactly once', loc=f.loc)
        if not all(len(x) == 1 for x in cs):
            continue
        for a, b in zip(cs, cs[1:]):
            ctx.ob('C19.2', '%s: %s before %s' % (name, a[0].callee, b[0].callee), f.dominates_f(a[0], b[0]) and not f.in_loop(a[0]),
                   'edge ranges are set only after the edges exist and are grouped by source node', loc=b[0].loc)
        ctx.ob('C19.2', name + ': all stages work on the same DAG', len(set(frozenset(f.sources(x[0].args[0])) for x in cs)) == 1,
               'one pi-dag object flows through the pipeline', loc=f.loc)
        first = [c for c in f.calls() if c.callee in ('dr_pi_dag_enum_nodes', 'dr_pi_dag_copy_and_prune_nodes', 'dr_pi_dag_copy_nodes',
                                                       'dr_pi_dag_init', 'dr_pi_dag_count_nodes') or
                 (c.callee and 'nodes' in c.callee and c.callee.startswith('dr_pi_dag'))]
        ctx.ob('C19.2', name + ': node table built before the edges', bool(first) and all(f.dominates_f(x, cs[0][0]) for x in first),
               'edges are enumerated over an existing node table', loc=f.loc, detail=str([c.callee for c in first]))
    ctx.floor('C19.2', 12)


DUMP = 'src/profiler/dr_dump.c'
READ = 'src/profiler/read_dag.c'
MUTANTS = [
    {'name': 'dump writes m before n', 'expect': 'C19.1',
     'edits': [(DUMP, "      || fwrite(&G->n, sizeof(G->n), 1, wp) != 1\n      || fwrite(&G->m, sizeof(G->m), 1, wp) != 1", "      || fwrite(&G->m, sizeof(G->m), 1, wp) != 1\n      || fwrite(&G->n, sizeof(G->n), 1, wp) != 1")]},
    {'name': 'reader skips num_workers', 'expect': 'C19.1',
     'edits': [(READ, "      || (r = read(fd, &G->num_workers, sizeof(G->num_workers)))\n      != sizeof(G->num_workers)) {", "      ) {")]},
    {'name': 'reader places E after m nodes', 'expect': 'C19.1',
     'edits': [(READ, "  G->E = (dr_pi_dag_edge *)&G->T[G->n];", "  G->E = (dr_pi_dag_edge *)&G->T[G->m];")]},
    {'name': 'header length constant off by one', 'expect': 'C19.1',
     'edits': [('src/profiler/dag_recorder_impl.h', "#define DAG_RECORDER_HEADER_LEN 45", "#define DAG_RECORDER_HEADER_LEN 44")]},
    {'name': 'edge pointers set before sorting', 'expect': 'C19.2',
     'edits': [(DUMP, "  dr_pi_dag_enum_edges(G_);\t   /* G_->E */\n  dr_pi_dag_sort_edges(G_);\n  dr_pi_dag_set_edge_ptrs(G_);", "  dr_pi_dag_enum_edges(G_);\t   /* G_->E */\n  dr_pi_dag_set_edge_ptrs(G_);\n  dr_pi_dag_sort_edges(G_);")]},
]
