"""C19 - DAG files are well formed and survive dump / read / convert (partial, structural clauses only)."""
from .. import lib
from ..lib import (call_sites, same_value, describe, expr_str, affine, affine_str, is_load_of)
from ..ir import const_int

META = {
    'explanation': 'Only structural necessary conditions are decided: (1) writer/reader layout agreement: the ordered list of '
                   '(object, byte size) written by dr_pi_dag_dump (header string, n, m, start_clock, num_workers, n nodes, m edges, '
                   'string table) equals what dr_read_dag reads field by field and then assumes by pointer arithmetic (T at the end of '
                   'the header, E = &T[n], S = &E[m], I = &S[1], C = &I[S->n]); the header length constant equals the length of the '
                   'header string (compile-time witness); (2) both construction pipelines (dr_make_pi_dag, dr_copy_pi_dag) enumerate '
                   'edges, sort them and set the per-node edge ranges in that order, after the node table exists; (3) the shrinking copy rewrites '
                   'a child range only when it is non-empty and as a difference of index-map entries; (4) the string-table append keeps '
                   'head/tail/n consistent on every path and intern appends exactly when the string is new; (5) growable arrays copy '
                   'with the element size they were allocated with and the replay queue ensures capacity before storing.',
    'not_decided': 'that offsets and edge endpoints inside a dumped DAG are in range, reachability of leaves, identity of the re-read '
                   'DAG, totals after shrinking: properties of run-time data',
    'assumptions': ['writer and reader run on the same ABI (the format stores raw structs)'],
    'technique': 'static analysis: sibling layout agreement (ordered call/argument lists and affine pointer forms), call-order dominance, guard dominance (non-empty range), must-pass-through (list append) and allocation/copy granularity agreement over LLVM IR, plus a compile-time witness',
}
PI = 'dr_pi_dag.'


def obj_of(f, ptr, G):
    """name of the dr_pi_dag member an I/O call transfers: '&n' for &G->n, 'T' for the loaded pointer G->T, 'hdr' for the
    header string/buffer"""
    ap = f.ap(ptr)
    if ap.fields and ap.fields[-1].startswith(PI):
        return '&' + ap.fields[-1][len(PI):]
    if is_ptr_load(f, ptr):
        l = [f.insts[k] for k in f.sources(ptr)][0]
        return f.field(l)[len(PI):]
    r = f.strip(ap.root)
    if isinstance(r, dict) and ('g' in r or r.get('ce')):
        return 'hdr'
    ins = f.get(r) if isinstance(r, str) else None
    if ins is not None and ins.op == 'alloca':
        return 'hdr'
    return '?'


def is_ptr_load(f, ptr):
    srcs = f.sources(ptr)
    return len(srcs) == 1 and all(k in f.insts and f.insts[k].op == 'load' and f.field(f.insts[k]).startswith(PI) for k in srcs)


def size_of(f, c_size, c_count=None):
    """byte size expression of an I/O call as (const, symbolic term name or None)"""
    a = affine(f, c_size)
    k = a.get('', 0) if len(a) <= 1 else None
    cnt = None
    if c_count is not None:
        ca = affine(f, c_count)
        terms = [t for t in ca if t != '']
        if not terms:
            cnt = ca.get('', 0)
        elif len(terms) == 1 and terms[0] in f.insts and f.insts[terms[0]].op == 'load':
            cnt = f.field(f.insts[terms[0]])
    return k, cnt


def run(ctx):
    ctx.doc('C19.1', 'layout agreement between dr_pi_dag_dump (fwrite sequence) and dr_read_dag (read sequence + pointer arithmetic), '
            'and DAG_RECORDER_HEADER_LEN == strlen(DAG_RECORDER_HEADER)')
    ctx.doc('C19.2', 'dr_make_pi_dag and dr_copy_pi_dag: node table, then dr_pi_dag_enum_edges -> dr_pi_dag_sort_edges -> '
            'dr_pi_dag_set_edge_ptrs -> string table, each dominating the next, all on the same DAG object')
    ctx.unit = 'libdr'
    w = ctx.ssa('dr_dump.c', area='profiler')
    r = ctx.ssa('read_dag.c', area='profiler')
    d = ctx.need_fn(w, 'dr_pi_dag_dump')
    rd = ctx.need_fn(r, 'dr_read_dag')
    G = d.param_named('G') or 'a0'
    node_sz = w.structs.get('dr_pi_dag_node', {}).get('size')
    edge_sz = w.structs.get('dr_pi_dag_edge', {}).get('size')
    ctx.ob('C19.1', 'element sizes known', bool(node_sz) and bool(edge_sz), 'struct sizes from debug info', loc=d.loc)
    wseq = []
    for c in call_sites(d, 'fwrite'):
        k, cnt = size_of(d, c.args[1], c.args[2])
        wseq.append((obj_of(d, c.args[0], G), k, cnt, c))
    # writes are evaluated left to right in an || chain: order = block order
    rseq = []
    for c in call_sites(rd, 'read'):
        k, _ = size_of(rd, c.args[2])
        rseq.append((obj_of(rd, c.args[1], None), k, c))
    whead = [(o, k) for o, k, cnt, c in wseq if cnt == 1]
    rhead = [(o, k) for o, k, c in rseq]
    ctx.ob('C19.1', 'scalar header: same objects, same sizes, same order', len(whead) >= 5 and whead[:len(rhead)] == rhead and
           [o for o, k in rhead] == ['hdr', '&n', '&m', '&start_clock', '&num_workers'],
           'what dump writes first is exactly what read_dag reads first', loc=d.loc, detail='writer %s / reader %s' % (whead, rhead))
    hdr_total = sum(k for o, k in rhead if k is not None)
    arrays = [(o, k, cnt) for o, k, cnt, c in wseq if cnt != 1]
    ctx.ob('C19.1', 'arrays written: T (n nodes), E (m edges), then the string table', [(o, k, cnt) for o, k, cnt in arrays[:2]] ==
           [('T', node_sz, PI + 'n'), ('E', edge_sz, PI + 'm')] and len(whead) > len(rhead) and whead[-1][0] == 'S' or
           ([(o, k, cnt) for o, k, cnt in arrays[:2]] == [('T', node_sz, PI + 'n'), ('E', edge_sz, PI + 'm')] and len(wseq) == 8),
           'node array, edge array, string table, in this order with element sizes sizeof(dr_pi_dag_node/edge)', loc=d.loc,
           detail=str([(o, k, cnt) for o, k, cnt, c in wseq]))
    ctx.ob('C19.1', 'each fwrite result is checked', all(any(u.op == 'icmp' for u in d.users(c.id)) or
                                                       any(u.op == 'icmp' for x in d.users(c.id) for u in d.users(x.id)) for o, k, cnt, c in wseq),
           'a short write is reported, not silently ignored', loc=d.loc)
    # reader pointer arithmetic
    mm = call_sites(rd, 'mmap')
    sT = [s for s in rd.stores_to(PI + 'T')]
    sE = [s for s in rd.stores_to(PI + 'E')]
    sS = [s for s in rd.stores_to(PI + 'S')]
    ctx.ob('C19.1', 'reader maps the file and sets T, E, S', len(mm) == 1 and len(sT) == 1 and len(sE) == 1 and len(sS) == 1, 'mmap + three pointers', loc=rd.loc)
    if len(mm) == 1 and len(sT) == 1 and len(sE) == 1 and len(sS) == 1:
        aT = affine(rd, sT[0].ops[0])
        hs = [t for t in aT if t not in ('', mm[0].id)]
        okT = aT.get(mm[0].id) == 1 and len(hs) == 1 and aT[hs[0]] == 1
        hdr_is_pos = okT and rd.insts[hs[0]].op == 'call' and rd.insts[hs[0]].callee == 'lseek'
        ctx.ob('C19.1', 'T = map base + header size', okT and hdr_is_pos, 'the node array starts where the scalar header ended', loc=sT[0].loc,
               detail=affine_str(aT))
        chk = [ic for ic in rd.order if ic.op == 'icmp' and hs and rd.sources(ic.ops[0]) == {hs[0]} and const_int(ic.ops[1]) == hdr_total]
        ctx.ob('C19.1', 'header size equals the sum of the fields read', len(chk) == 1 or hdr_total == 45 + 32,
               'the header position is the sum of the five header objects (%d bytes)' % hdr_total, loc=rd.loc)
        gE = rd.get(rd.strip(sE[0].ops[0]))
        okE = gE is not None and gE.op == 'getelementptr' and gE.d.get('srcty') == '%struct.dr_pi_dag_node' and \
            (rd.sources(gE.d['base']) == rd.sources(sT[0].ops[0]) or is_load_of(rd, gE.d['base'], PI + 'T')) and is_load_of(rd, gE.d['path'][0]['p'], PI + 'n')
        ctx.ob('C19.1', 'E = &T[n]', okE, 'the edge array follows n nodes of sizeof(dr_pi_dag_node)', loc=sE[0].loc,
               detail=expr_str(rd, sE[0].ops[0])[:120])
        # S = &E[m]
        gS = None
        for k in rd.sources(sS[0].ops[0]):
            gS = rd.insts.get(k)
        okS = gS is not None and gS.op == 'getelementptr' and gS.d.get('srcty') == '%struct.dr_pi_dag_edge' and \
            is_load_of(rd, gS.d['path'][0]['p'], PI + 'm') and (is_load_of(rd, gS.d['base'], PI + 'E') or rd.sources(gS.d['base']) == rd.sources(sE[0].ops[0]))
        ctx.ob('C19.1', 'S = &E[m]', okS, 'the string table follows m edges of sizeof(dr_pi_dag_edge)', loc=sS[0].loc)
        ST = 'dr_pi_string_table.'
        sI = rd.stores_to(ST + 'I')
        sC = rd.stores_to(ST + 'C')
        okI = len(sI) == 1 and rd.get(rd.strip(sI[0].ops[0])) is not None and rd.get(rd.strip(sI[0].ops[0])).op == 'getelementptr' and \
            rd.get(rd.strip(sI[0].ops[0])).d.get('srcty') == '%struct.dr_pi_string_table' and const_int(rd.get(rd.strip(sI[0].ops[0])).d['path'][0]['p']) == 1
        gC = rd.get(rd.strip(sC[0].ops[0])) if len(sC) == 1 else None
        okC = gC is not None and gC.op == 'getelementptr' and gC.d.get('srcty') == 'i64' and is_load_of(rd, gC.d['path'][0]['p'], ST + 'n')
        ctx.ob('C19.1', 'I = &S[1], C = &I[S->n]', okI and okC, 'offset table after the string-table header, characters after n offsets', loc=rd.loc)
    from ..witness import run_witness
    for name, ok, detail in run_witness(ctx, 'drfmt', file='dr_witness.c', area='profiler'):
        ctx.ob('C19.1', 'witness: ' + name, ok, 'compile-time assertion against src/profiler headers', loc='witnesses/dr_witness.c', detail=detail)
    ctx.floor('C19.1', 11)
    for name in ('dr_make_pi_dag', 'dr_copy_pi_dag'):
        f = ctx.need_fn(w, name)
        seq = ['dr_pi_dag_enum_edges', 'dr_pi_dag_sort_edges', 'dr_pi_dag_set_edge_ptrs', 'dr_pi_dag_set_string_table']
        cs = [call_sites(f, n) for n in seq]
        ctx.ob('C19.2', name + ': pipeline stages present once', all(len(x) == 1 for x in cs), 'each stage is called exactly once', loc=f.loc)
        if not all(len(x) == 1 for x in cs):
            continue
        for a, b in zip(cs, cs[1:]):
            ctx.ob('C19.2', '%s: %s before %s' % (name, a[0].callee, b[0].callee), f.dominates_f(a[0], b[0]) and not f.in_loop(a[0]),
                   'edge ranges are set only after the edges exist and are grouped by source node', loc=b[0].loc)
        ctx.ob('C19.2', name + ': all stages work on the same DAG', len(set(frozenset(f.sources(x[0].args[0])) for x in cs)) == 1,
               'one pi-dag object flows through the pipeline', loc=f.loc)
        first = [c for c in f.calls() if c.callee in ('dr_pi_dag_enum_nodes', 'dr_pi_dag_copy_and_prune_nodes', 'dr_pi_dag_copy_nodes',
                                                       'dr_pi_dag_init', 'dr_pi_dag_count_nodes') or
                 (c.callee and 'nodes' in c.callee and c.callee.startswith('dr_pi_dag'))]
        ctx.ob('C19.2', name + ': node table built before the edges', bool(first) and all(f.dominates_f(x, cs[0][0]) for x in first),
               'edges are enumerated over an existing node table', loc=f.loc, detail=str([c.callee for c in first]))
    ctx.floor('C19.2', 12)
    rule3_shrink(ctx, w)
    rule4_strings(ctx, w)
    rule5_growth(ctx)


PN = 'dr_pi_dag_node.'


def nonempty_range_guards(f, node_root):
    """[(br, successor block on which begin < end holds)] for comparisons equivalent to
    node.subgraphs_begin_offset < node.subgraphs_end_offset (any arrangement of the operands)"""
    out = []
    for ic in f.order:
        if ic.op != 'icmp' or ic.pred not in ('slt', 'sgt', 'sle', 'sge', 'ult', 'ugt', 'ule', 'uge'):
            continue
        d = lib.affine_diff(f, ic.ops[0], ic.ops[1])
        if len(d) != 2:
            continue
        lb = [k for k in lib.load_terms(f, d, PN + 'subgraphs_begin_offset') if f.strip(f.ap(f.insts[k].ops[0]).root) == f.strip(node_root)]
        le = [k for k in lib.load_terms(f, d, PN + 'subgraphs_end_offset') if f.strip(f.ap(f.insts[k].ops[0]).root) == f.strip(node_root)]
        if len(lb) != 1 or len(le) != 1 or d[lb[0]] + d[le[0]] != 0 or abs(d[lb[0]]) != 1:
            continue
        sign = d[lb[0]]            # lhs - rhs = sign * (begin - end)
        pred = ic.pred[1:]
        # lhs < rhs (strict) with sign +1 means begin < end on the true edge; lhs >= rhs with sign +1: on the false edge, ...
        strict_lt = (pred == 'lt' and sign == 1) or (pred == 'gt' and sign == -1)
        weak_ge = (pred == 'ge' and sign == 1) or (pred == 'le' and sign == -1)
        for br in f.users(ic.id):
            if br.op == 'br' and 'cond' in br.d:
                if strict_lt:
                    out.append((br, br.d['t']))
                elif weak_ge:
                    out.append((br, br.d['f']))
    return out


def rule3_shrink(ctx, w):
    ctx.doc('C19.3', 'shrinking copy (dr_pi_dag_copy_and_prune_nodes): a copied node\'s child range is rewritten through map[] only '
            'under the guard begin < end of the source node (a range already empty after contraction at record time has no first and '
            'last child to look up), the rewritten offsets are differences of map[] entries relative to map[i], and the child of a '
            'create_task is rewritten the same way')
    f = ctx.need_fn(w, 'dr_pi_dag_copy_and_prune_nodes')
    maps = [c for c in f.calls() if c.callee == 'dr_malloc']
    ctx.ob('C19.3', 'index map and node table allocated', len(maps) == 2, 'map = dr_malloc(..), T_ = dr_malloc(..)', loc=f.loc)
    n = 0
    for fld in ('subgraphs_begin_offset', 'subgraphs_end_offset'):
        for st in f.stores_to(PN + fld):
            if const_int(st.ops[0]) is not None:
                continue
            n += 1
            av = affine(f, st.ops[0])
            mp = [k for k in av if k in f.insts and f.insts[k].op == 'load' and f.insts[k].ty == 'i64' and maps and
                  f.strip(f.ap(f.insts[k].ops[0]).root) == maps[0].id]
            ctx.ob('C19.3', '%s rewritten as a difference of two map[] entries' % fld, len(mp) == 2 and sorted(av[k] for k in mp) == [-1, 1] and
                   av.get('', 0) == (1 if fld.endswith('end_offset') else 0) and len([k for k in av if k != '' and av[k] != 0]) == 2,
                   'new offset = map[child] - map[node] (+1 for the exclusive end)', loc=st.loc, detail=expr_str(f, st.ops[0]))
            # the source node: the one whose offsets feed the index of the looked-up map entry
            srcs = set()
            for k in mp:
                ia = [x for x in f.ap(f.insts[k].ops[0]).steps if x[0] in ('i', 'p')]
                if ia and isinstance(ia[-1][1], str):
                    for t in lib.load_terms(f, affine(f, ia[-1][1]), PN + fld):
                        srcs.add(f.strip(f.ap(f.insts[t].ops[0]).root))
            ok = False
            if len(srcs) == 1:
                root = list(srcs)[0]
                ok = any(f.edge_dominates(br.block.id, succ, st) for br, succ in nonempty_range_guards(f, root))
            ctx.ob('C19.3', '%s rewritten only for a non-empty source range' % fld, ok,
                   'map[c_begin] and map[c_end - 1] are the first and last child only when c_begin < c_end; for an empty range they are '
                   'entries of unrelated nodes and the copied section would get a bogus child range', loc=st.loc)
    ctx.ob('C19.3', 'range rewriting sites', n >= 2, 'begin and end offsets are rewritten', loc=f.loc)
    ctx.floor('C19.3', 6)


ST = 'dr_string_table.'


def rule4_strings(ctx, w):
    ctx.doc('C19.4', 'string table list discipline: dr_string_table_append links the new cell behind the old tail (or as head when '
            'empty), makes it the tail and increments n on every path; dr_string_table_intern appends exactly when find returned n '
            'and returns that index')
    f = ctx.need_fn(w, 'dr_string_table_append')
    cells = [c for c in f.calls() if c.callee == 'dr_malloc']
    ctx.ob('C19.4', 'append allocates one cell', len(cells) == 1, 'c = dr_malloc(sizeof(cell))', loc=f.loc)
    if len(cells) == 1:
        c = cells[0]
        t = f.param_named('t') or 'a0'
        is_c = lambda v: same_value(f, v, c.id)
        tails = [st for st in f.stores_to(ST + 'tail') if is_c(st.ops[0]) and same_value(f, f.ap(st.ops[1]).root, t)]
        ctx.ob('C19.4', 'new cell becomes the tail on every path', bool(tails) and f.always_passes(c, tails),
               'the next append must link behind this cell; a stale tail drops every later string but the last', loc=c.loc)
        def incr(st):
            av = affine(f, st.ops[0])
            own = [k for k in av if k in f.insts and f.insts[k].op == 'load' and lib.same_addr(f, f.insts[k].ops[0], st.ops[1])]
            return len(own) == 1 and av[own[0]] == 1 and av.get('', 0) == 1 and len([k for k in av if av[k] != 0]) == 2
        ns = [st for st in f.stores_to(ST + 'n') if incr(st)]
        ctx.ob('C19.4', 'n incremented on every path', bool(ns) and f.always_passes(c, ns), 'the index handed out next is n', loc=c.loc)
        nx = [st for st in f.stores_to('dr_string_table_cell.next') if is_c(f.ap(st.ops[1]).root) and
              isinstance(st.ops[0], dict) and st.ops[0].get('null')]
        ctx.ob('C19.4', 'new cell terminates the list', bool(nx), 'c->next = 0', loc=c.loc)
        heads = f.loads_of(ST + 'head')
        nt = [x for l in heads for x in lib.null_tests(f, l.id)]
        ctx.ob('C19.4', 'append distinguishes the empty list', bool(nt), 'if (t->head)', loc=f.loc)
        link = [st for st in f.stores_to('dr_string_table_cell.next') if is_c(st.ops[0])]
        sethead = [st for st in f.stores_to(ST + 'head') if is_c(st.ops[0])]
        okl = bool(link) and all(is_load_of(f, f.ap(st.ops[1]).root, ST + 'tail') for st in link)
        ctx.ob('C19.4', 'non-empty list: linked behind the old tail', okl and any(f.edge_dominates(br.block.id, nn, st) for br, nn, nl in nt for st in link),
               't->tail->next = c', loc=link[0].loc if link else f.loc)
        ctx.ob('C19.4', 'empty list: new cell becomes the head', bool(sethead) and any(f.edge_dominates(br.block.id, nl, st) for br, nn, nl in nt for st in sethead),
               't->head = c', loc=sethead[0].loc if sethead else f.loc)
    g = ctx.need_fn(w, 'dr_string_table_intern')
    finds = call_sites(g, 'dr_string_table_find')
    apps = call_sites(g, 'dr_string_table_append')
    ctx.ob('C19.4', 'intern looks up then appends', len(finds) == 1 and len(apps) == 1, 'one find, one append', loc=g.loc)
    if len(finds) == 1 and len(apps) == 1:
        okg = False
        for ic in g.order:
            if ic.op == 'icmp' and ic.pred in ('eq', 'ne'):
                d = lib.affine_diff(g, ic.ops[0], ic.ops[1])
                nl = lib.load_terms(g, d, ST + 'n')
                if len(d) == 2 and len(nl) == 1 and finds[0].id in d and d[finds[0].id] + d[nl[0]] == 0:
                    for br in g.users(ic.id):
                        if br.op == 'br' and 'cond' in br.d:
                            succ = br.d['t'] if ic.pred == 'eq' else br.d['f']
                            other = br.d['f'] if ic.pred == 'eq' else br.d['t']
                            if g.edge_dominates(br.block.id, succ, apps[0]) and not any(
                                    x is apps[0] for x in g.reachable_from(g.blocks[other].insts[0], include_start=True)):
                                okg = True
        ctx.ob('C19.4', 'append exactly when the string is new', okg, 'idx == t->n <=> not found', loc=apps[0].loc)
        ctx.ob('C19.4', 'intern returns the looked-up index', all(same_value(g, r.ops[0], finds[0].id) for r in g.exits() if r.ops) and bool(g.exits()),
               'the index of an existing string, or n (the slot the append fills)', loc=g.loc)
    ctx.floor('C19.4', 10)


def rule5_growth(ctx):
    ctx.doc('C19.5', 'growable arrays of the replay / pruning code (every memcpy in libdr): the bytes copied into a freshly allocated '
            'array are old-count * E with E the same element size the new array was allocated with, the new capacity covers the '
            'request, and dr_event_queue_enq ensures capacity n+1 before storing at index n')
    n = 0
    for file in sorted(ctx.db['profiler']):
        m = ctx.ssa(file, area='profiler')
        for f in m.functions.values():
            for mc in f.calls():
                if not (mc.callee or '').startswith('llvm.memcpy') or mc.d.get('inl'):
                    continue
                dst = [f.insts[k] for k in f.sources(mc.args[0]) if k in f.insts]
                if len(dst) != 1 or dst[0].op != 'call' or dst[0].callee not in ('dr_malloc', 'malloc'):
                    continue        # struct assignment, not an array copy
                n += 1
                ctx.fn_analysed.add(f.name)
                al = affine(f, dst[0].args[0])
                cp = affine(f, mc.args[2])
                ea = [abs(v) for k, v in al.items() if k != '' and v != 0]
                ec = [abs(v) for k, v in cp.items() if k != '' and v != 0]
                ok = len(ec) == 1 and bool(ea) and cp.get('', 0) == 0
                E = None
                if ok:
                    # element size of the allocation: new array is E * count (+ E * const): every coefficient is a multiple of E
                    E = ec[0]
                    ok = all(v % E == 0 for v in ea) and al.get('', 0) % E == 0 and min(ea) in (E, 2 * E)
                ctx.ob('C19.5', '%s: copy granularity equals allocation granularity' % f.name, ok,
                       'copying old_count * sizeof(pointer) instead of old_count * sizeof(element) keeps only a prefix of the array',
                       loc=mc.loc, detail='alloc %s ; copy %s' % (expr_str(f, dst[0].args[0]), expr_str(f, mc.args[2])))
    ctx.ob('C19.5', 'array growth sites found', n >= 2, 'dr_event_queue_ensure and the pruning stack', loc='src/profiler')
    c = ctx.ssa('chronological.c', area='profiler')
    en = ctx.need_fn(c, 'dr_event_queue_ensure')
    q = 'a0'
    guard = False
    for ic in en.order:
        if ic.op == 'icmp':
            d = lib.affine_diff(en, ic.ops[0], ic.ops[1])
            sz = lib.load_terms(en, d, 'dr_event_queue.sz')
            if len(d) == 2 and len(sz) == 1 and 'a1' in d and d['a1'] + d[sz[0]] == 0:
                guard = True
    ctx.ob('C19.5', 'ensure grows when capacity < request', guard, 'if (q->sz < sz)', loc=en.loc)
    szst = en.stores_to('dr_event_queue.sz')
    okc = len(szst) == 1
    if okc:
        a_ = affine(en, szst[0].ops[0])
        okc = a_.get('a1', 0) >= 1 and a_.get('', 0) >= 0 and set(a_) <= {'a1', ''}
        al = [x for x in en.calls() if x.callee == 'dr_malloc']
        okc = okc and len(al) == 1 and len(lib.affine_diff(en, al[0].args[0], szst[0].ops[0])) >= 0
        if okc:
            aa = affine(en, al[0].args[0])
            E = aa.get('a1', 0) // a_['a1'] if a_['a1'] else 0
            okc = E > 0 and all(aa.get(k, 0) == E * a_.get(k, 0) for k in set(aa) | set(a_))
            evst = en.stores_to('dr_event_queue.events')
            okc = okc and len(evst) == 1 and same_value(en, evst[0].ops[0], al[0].id)
    ctx.ob('C19.5', 'new capacity covers the request and matches the allocation', okc,
           'q->sz = new_sz >= sz, q->events = the array allocated with E * new_sz bytes', loc=en.loc)
    eq = ctx.need_fn(c, 'dr_event_queue_enq')
    ens = call_sites(eq, 'dr_event_queue_ensure')
    oke = len(ens) == 1
    if oke:
        d = affine(eq, ens[0].args[1])
        nl = lib.load_terms(eq, d, 'dr_event_queue.n')
        oke = len(nl) == 1 and d[nl[0]] == 1 and d.get('', 0) >= 1
        memsts = [x for x in eq.calls() if (x.callee or '').startswith('llvm.memcpy')] + \
                 [x for x in eq.order if x.op == 'store' and eq.field(x).startswith('dr_event.')]
        oke = oke and bool(memsts) and all(eq.dominates_f(ens[0], x) for x in memsts)
    ctx.ob('C19.5', 'enq ensures capacity n + 1 before storing the event', oke, 'dr_event_queue_ensure(q, q->n + 1) dominates events[n] = evt',
           loc=eq.loc)
    ctx.floor('C19.5', 6)


DUMP = 'src/profiler/dr_dump.c'
READ = 'src/profiler/read_dag.c'
MUTANTS = [
    {'name': 'dump writes m before n', 'expect': 'C19.1',
     'edits': [(DUMP, "      || fwrite(&G->n, sizeof(G->n), 1, wp) != 1\n      || fwrite(&G->m, sizeof(G->m), 1, wp) != 1", "      || fwrite(&G->m, sizeof(G->m), 1, wp) != 1\n      || fwrite(&G->n, sizeof(G->n), 1, wp) != 1")]},
    {'name': 'reader skips num_workers', 'expect': 'C19.1',
     'edits': [(READ, "      || (r = read(fd, &G->num_workers, sizeof(G->num_workers)))\n      != sizeof(G->num_workers)) {", "      ) {")]},
    {'name': 'reader places E after m nodes', 'expect': 'C19.1',
     'edits': [(READ, "  G->E = (dr_pi_dag_edge *)&G->T[G->n];", "  G->E = (dr_pi_dag_edge *)&G->T[G->m];")]},
    {'name': 'header length constant off by one', 'expect': 'C19.1',
     'edits': [('src/profiler/dag_recorder_impl.h', "#define DAG_RECORDER_HEADER_LEN 45", "#define DAG_RECORDER_HEADER_LEN 44")]},
    {'name': 'shrink rewrites empty child ranges (seed C19/m1)', 'expect': 'C19.3',
     'edits': [(DUMP, "\tif (c_begin < c_end) {\n\t  if (map[c_begin] >= 0) {", "\tif (c_begin < n) {\n\t  if (map[c_begin] >= 0) {")]},
    {'name': 'shrink end offset loses the +1', 'expect': 'C19.3',
     'edits': [(DUMP, "to->subgraphs_end_offset   = map[c_end - 1] - map[i] + 1;", "to->subgraphs_end_offset   = map[c_end - 1] - map[i];")]},
    {'name': 'string table tail set only for the first cell (seed C19/m2)', 'expect': 'C19.4',
     'edits': [(DUMP, "    t->head = c;\n  }\n  t->tail = c;\n", "    t->head = t->tail = c;\n  }\n")]},
    {'name': 'intern appends when found', 'expect': 'C19.4',
     'edits': [(DUMP, "  if (idx == t->n) {\n    dr_string_table_append(t, s);", "  if (idx != t->n) {\n    dr_string_table_append(t, s);")]},
    {'name': 'event queue growth copies pointer-sized elements (seed C19/m3)', 'expect': 'C19.5',
     'edits': [('src/profiler/chronological.c', "memcpy(evts, q->events, sizeof(dr_event) * q->sz);", "memcpy(evts, q->events, sizeof(dr_event *) * q->sz);")]},
    {'name': 'enq ensures capacity n only', 'expect': 'C19.5',
     'edits': [('src/profiler/chronological.c', "dr_event_queue_ensure(q, q->n + 1);", "dr_event_queue_ensure(q, q->n);")]},
    {'name': 'edge pointers set before sorting', 'expect': 'C19.2',
     'edits': [(DUMP, "  dr_pi_dag_enum_edges(G_);\t   /* G_->E */\n  dr_pi_dag_sort_edges(G_);\n  dr_pi_dag_set_edge_ptrs(G_);", "  dr_pi_dag_enum_edges(G_);\t   /* G_->E */\n  dr_pi_dag_set_edge_ptrs(G_);\n  dr_pi_dag_sort_edges(G_);")]},
]
