"""C06 - barrier: nobody passes round k before all N arrived; one serial thread per round."""
from .. import lib
from ..lib import (call_sites, same_value, describe, ret_cases, null_tests, on_cas_success, delta_of, is_load_of,
                   callers_of, cas_on, switch_sites)
from ..ir import const_int

META = {
    'explanation': 'Barrier obligations: arrival is a cmpxchg(state: c -> c+1) on a fresh volatile load; the last arriver '
                   '(edge c == n_threads-1 after its CAS succeeded) resets state to 0 BEFORE waking, wakes exactly c '
                   'sleepers from the barrier\'s own stack and is the only path returning the serial indicator; every '
                   'other arriver blocks on that stack and returns 0; myth_wake_many_from_stack pops all n sleepers '
                   '(spinning on empty) before it pushes any to a run queue; the CAS-pop has a single popper (call graph '
                   'over all TUs); sleepers push themselves only from the switch callback.'
                   ' The initialiser writes every field the operations read (C06.6).',
    'not_decided': 'round separation and exactly-one-serial under every interleaving (schedule exploration)',
    'assumptions': ['at most n_threads participants use the barrier per round (the library exits otherwise)'],
}
NATIVE = 'myth_if_native.c'
STATE = 'myth_barrier.state'
SERIAL = 1


def flavours(ctx):
    return ['vanilla', 'ld', 'dl'] if ctx.tier == 'thorough' else ['vanilla']


def rule1(ctx, v):
    ctx.doc('C06.1', 'myth_barrier_wait_body: CAS count; last-arriver edge: state := 0 dominates wake_many(sleep_s, c) and the '
            'SERIAL return; sleeper edge: block_on_stack(sleep_s) dominates the 0 return; no other return values')
    f = ctx.need_fn(v, 'myth_barrier_wait_body')
    b = 'a0'
    cas = cas_on(f, STATE)
    ctx.ob('C06.1', 'arrival CAS', len(cas) == 1 and delta_of(f, cas[0].ops[2], cas[0].ops[1]) == 1 and
           is_load_of(f, cas[0].ops[1], STATE, volatile=True), 'arrival is cmpxchg(state: c -> c+1) on a fresh volatile load',
           loc=f.loc)
    if len(cas) != 1:
        return
    c = cas[0].ops[1]
    wakes = call_sites(f, 'myth_wake_many_from_stack')
    blocks = call_sites(f, 'myth_block_on_stack')
    resets = [s for s in f.stores_to(STATE) if const_int(s.ops[0]) == 0]
    ctx.ob('C06.1', 'one wake / one block / one reset', len(wakes) == 1 and len(blocks) == 1 and len(resets) == 1,
           'single wake site, single block site, single reset', loc=f.loc)
    # last-arriver test: icmp eq c, n_threads-1
    last = []
    csrc = f.sources(c)
    for ic in f.order:
        if ic.op == 'icmp' and ic.pred in ('eq', 'ne'):
            # any arrangement of  c == n_threads - 1  (c + 1 == n_threads, n_threads - c == 1, ...)
            d = lib.affine_diff(f, ic.ops[0], ic.ops[1])
            cs = [k for k in d if k in csrc]
            ns = lib.load_terms(f, d, 'myth_barrier.n_threads')
            if len(cs) == 1 and len(ns) == 1 and len([k for k in d if k != '']) == 2 and d[cs[0]] == -d[ns[0]] and \
                    d.get('', 0) == d[cs[0]]:
                last.append(ic)
    ctx.ob('C06.1', 'last-arriver test c == n_threads-1', len(last) == 1, 'the last arriver is recognised by the value it replaced',
           loc=f.loc)
    for w in wakes:
        ctx.ob('C06.1', 'wake only after winning the CAS', on_cas_success(f, cas[0], w), 'wake on the CAS success edge', loc=w.loc)
        ctx.ob('C06.1', 'wake only by the last arriver', any(f.on_edge(ic.id, ic.pred == 'eq', w) for ic in last),
               'wake on the edge c == n_threads-1', loc=w.loc)
        ctx.ob('C06.1', 'state reset before waking', any(f.dominates_f(r, w) for r in resets),
               'state := 0 precedes the wake-up: a woken participant racing into the next round must find a fresh count',
               loc=w.loc)
        ctx.ob('C06.1', 'wakes exactly the others', same_value(f, w.args[3], c), 'the number woken is c (= N-1 sleepers)', loc=w.loc,
               detail=describe(f, w.args[3]))
        ctx.ob('C06.1', 'wakes from own stack', lib.arg_is_field_of(f, w.args[0], 'myth_barrier.sleep_s') and
               same_value(f, f.ap(w.args[0]).root, b), 'sleepers come from barrier->sleep_s', loc=w.loc)
    for r in resets:
        ctx.ob('C06.1', 'reset only by the last arriver', any(f.on_edge(ic.id, ic.pred == 'eq', r) for ic in last) and
               on_cas_success(f, cas[0], r), 'only the last arriver resets the count', loc=r.loc)
        ctx.ob('C06.1', 'reset is a volatile store', r.volatile, 'the reset is a volatile store', loc=r.loc)
    for bl in blocks:
        ctx.ob('C06.1', 'block only after winning the CAS', on_cas_success(f, cas[0], bl), 'sleep only after being counted', loc=bl.loc)
        ctx.ob('C06.1', 'block only if not last', any(f.on_edge(ic.id, ic.pred != 'eq', bl) for ic in last),
               'sleep on the edge c != n_threads-1', loc=bl.loc)
        ctx.ob('C06.1', 'blocks on own stack', lib.arg_is_field_of(f, bl.args[0], 'myth_barrier.sleep_s') and
               same_value(f, f.ap(bl.args[0]).root, b), 'sleeps on barrier->sleep_s', loc=bl.loc)
    nser = nz = 0
    for val, anchor in ret_cases(f):
        k = const_int(val)
        if k == SERIAL:
            nser += 1
            ctx.ob('C06.1', 'SERIAL only after waking everybody', any(f.dominates_f(w, anchor) for w in wakes),
                   'the serial indicator is returned only by the thread that performed the wake-up', loc=anchor.loc)
        elif k == 0:
            nz += 1
            ctx.ob('C06.1', '0 only after having slept', any(f.dominates_f(bl, anchor) for bl in blocks),
                   'zero is returned only after the participant blocked and was released', loc=anchor.loc)
        else:
            ctx.ob('C06.1', 'return values', False, 'unexpected return value %s' % describe(f, val), loc=anchor.loc)
    ctx.ob('C06.1', 'both return kinds present', nser == 1 and nz == 1, 'exactly one serial and one zero return', loc=f.loc)
    ctx.floor('C06.1', 16)


def rule2(ctx, v):
    ctx.doc('C06.2', 'myth_wake_many_from_stack: the pop loop (n iterations, inner spin until non-null) completes before the '
            'first run-queue push; pushes are the popped threads; both loops are bounded by the same n')
    f = ctx.need_fn(v, 'myth_wake_many_from_stack')
    n = f.param_named('n') or 'a3'
    pops = call_sites(f, 'myth_sleep_stack_pop')
    pushes = call_sites(f, 'myth_queue_push')
    ctx.ob('C06.2', 'pop and push sites', len(pops) == 1 and len(pushes) == 1, 'one pop site and one push site', loc=f.loc)
    for p in pushes:
        bad = [x for x in pops if x in f.reachable_from(p)]
        ctx.ob('C06.2', 'no pop after a push', not bad,
               'all sleepers are collected before any is released (a released one re-entering the stack must not be '
               'popped as part of this round)', loc=p.loc)
        srcs = f.sources(p.args[1])
        ok = all((k in f.insts and ((f.insts[k].op == 'call' and f.insts[k].callee == 'myth_sleep_stack_pop') or
                                    (f.insts[k].op == 'load' and f.field(f.insts[k]) == 'myth_thread.next'))) or
                 k.startswith('{') for k in srcs)
        ctx.ob('C06.2', 'pushes only popped threads', ok, 'what is pushed is a popped sleeper (head or ->next chain)', loc=p.loc)
        ctx.ob('C06.2', 'push on own run queue', lib.arg_is_field_of(f, p.args[0], 'myth_running_env.runnable_q'),
               'released sleepers go to the waker\'s run queue', loc=p.loc)
    for x in pops:
        t = null_tests(f, x.id)
        ctx.ob('C06.2', 'pop result tested', bool(t), 'pop result is tested for empty', loc=x.loc)
        for br, nn, nl in t:
            r = f.reachable_from(lib.first_inst(f, nl), blocked=pops, include_start=True)
            ctx.ob('C06.2', 'spin on empty stack', not [i for i in r if i.op == 'ret' or i in pushes],
                   'an empty pop leads only back to another pop (the late sleeper is awaited)', loc=br.loc)
        ctx.ob('C06.2', 'pops from the given stack', same_value(f, x.args[0], 'a0'), 'the stack popped is the argument', loc=x.loc)
    lib.chain_discipline(ctx, 'C06.2', f, ('myth_sleep_stack_pop',), 'wake_many_from_stack')
    # loop bounds
    bounds = [ic for ic in f.order if ic.op == 'icmp' and ic.pred == 'slt' and same_value(f, ic.ops[1], n)]
    lp_pop = lib.loop_containing(f, pops[0]) if pops else None
    lp_push = lib.loop_containing(f, pushes[0]) if pushes else None
    ctx.ob('C06.2', 'both loops bounded by n', len(bounds) >= 2 and lp_pop is not None and lp_push is not None,
           'pop loop and push loop both run i < n with the same n', loc=f.loc)
    # waiting only as long as sleepers are owed: every loop that polls shared state (a pop, or a volatile load)
    # is nested in a loop bounded by n, so that n == 0 (a barrier for one participant) never waits
    def bounded(li):
        while li is not None and li >= 0:
            L = f.loops[li]
            for a, b in L['exits']:
                t = f.blocks[a].insts[-1]
                if t.op == 'br' and 'cond' in t.d and any(
                        ic.op == 'icmp' and same_value(f, ic.ops[1], n) and ic.id in [c for c, _p in lib.cond_chain(f, ic.id)] and
                        t.d['cond'] in [c for c, _p in lib.cond_chain(f, ic.id)] for ic in bounds):
                    return True
            li = L['parent']
        return False
    polls = [i for i in f.order if (i in pops) or (i.op == 'load' and i.volatile)]
    for i in polls:
        li = f.loop_of_block(i.block.id)
        if li is None:
            continue
        ctx.ob('C06.2', 'poll of shared state is bounded by n (%s)' % (i.callee or f.field(i) or 'volatile load'), bounded(li),
               'waiting for sleepers happens only inside the loop that counts the n sleepers owed; with n == 0 the waker '
               'must not wait for anybody', loc=i.loc)
    ctx.floor('C06.2', 8)


def rule3(ctx, fl, v):
    ctx.doc('C06.3', 'single popper: myth_sleep_stack_pop is reachable only through myth_sleep_stack_pop_th <- '
            'myth_wake_many_from_stack <- myth_barrier_wait_body (call graph over all TUs; no address taken); sleepers push '
            'only through myth_sleep_stack_push_th <- myth_block_on_stack_cb; CAS shapes of push and pop')
    cg = callers_of(ctx, fl, ['myth_sleep_stack_pop', 'myth_sleep_stack_pop_th', 'myth_wake_many_from_stack',
                              'myth_sleep_stack_push', 'myth_sleep_stack_push_th', 'myth_block_on_stack'])
    allowed = {'myth_sleep_stack_pop': {'myth_sleep_stack_pop_th'}, 'myth_sleep_stack_pop_th': {'myth_wake_many_from_stack'},
               'myth_wake_many_from_stack': {'myth_barrier_wait_body'}, 'myth_sleep_stack_push': {'myth_sleep_stack_push_th'},
               'myth_sleep_stack_push_th': {'myth_block_on_stack_cb'}, 'myth_block_on_stack': {'myth_barrier_wait_body'}}
    for callee, who in cg.items():
        ctx.ob('C06.3', callee + ': has callers', bool(who), 'function is used', loc='')
        for caller, loc in sorted(who.items()):
            ctx.ob('C06.3', '%s called from %s' % (callee, caller), caller in allowed[callee],
                   'the lock-free sleeper stack is ABA-free only with one popper per round and pushes from the switch callback',
                   loc=loc)
    vv = ctx.view(NATIVE, roots=['myth_sleep_stack_pop', 'myth_sleep_stack_push'], stops=(), flavour=fl)
    TOPF = 'myth_sleep_stack_t.top'
    p = ctx.need_fn(vv, 'myth_sleep_stack_pop')
    cas = cas_on(p, TOPF)
    ok = len(cas) == 1 and is_load_of(p, cas[0].ops[1], TOPF) and is_load_of(p, cas[0].ops[2], 'myth_sleep_queue_item.next') and \
        all(p.sources(p.ap(p.insts[k].ops[0]).root) == p.sources(cas[0].ops[1]) for k in p.sources(cas[0].ops[2]))
    ctx.ob('C06.3', 'pop: CAS(top: x -> x->next)', ok, 'pop swings top from the observed head to its successor', loc=p.loc)
    for val, anchor in ret_cases(p):
        if isinstance(val, str):
            ctx.ob('C06.3', 'pop: returns the head it unlinked', p.sources(val) == p.sources(cas[0].ops[1]) and
                   (any(on_cas_success(p, c, anchor) for c in cas) or lib.guarded_by_null(p, val, anchor)),
                   'the head is returned only after winning the CAS (or as NULL when the stack is empty)', loc=anchor.loc)
    q = ctx.need_fn(vv, 'myth_sleep_stack_push')
    cas = cas_on(q, TOPF)
    x = q.param_named('x') or 'a1'
    ok = len(cas) == 1 and is_load_of(q, cas[0].ops[1], TOPF) and same_value(q, cas[0].ops[2], x)
    ctx.ob('C06.3', 'push: CAS(top: t -> x)', ok, 'push swings top from the observed head to the new item', loc=q.loc)
    if len(cas) == 1:
        nx = [s for s in q.stores_to('myth_sleep_queue_item.next') if same_value(q, q.ap(s.ops[1]).root, x) and
              q.sources(s.ops[0]) == q.sources(cas[0].ops[1])]
        ctx.ob('C06.3', 'push: x->next = t before the CAS', len(nx) >= 1 and all(q.dominates_f(s, cas[0]) for s in nx),
               'the item is linked to the observed head before it is published', loc=cas[0].loc)
        for r in q.exits():
            ctx.ob('C06.3', 'push: returns only after winning', on_cas_success(q, cas[0], r), 'push retries until its CAS wins', loc=r.loc)
    ctx.floor('C06.3', 15)


def rule4(ctx, v):
    ctx.doc('C06.4', 'myth_block_on_stack hands (s, current thread, m) to myth_block_on_stack_cb, which pushes the thread on the '
            'stack (checked with C05.1); nothing is pushed before the switch (C03.7)')
    g = ctx.need_fn(v, 'myth_block_on_stack')
    sw = [s for s in switch_sites(g) if s.is_swap]
    ctx.ob('C06.4', 'one switch', len(sw) == 1 and sw[0].callback == 'myth_block_on_stack_cb', 'blocks through myth_block_on_stack_cb',
           loc=g.loc)
    for s in sw:
        a1, a2, a3 = s.cb_args
        ctx.ob('C06.4', 'arg1 = stack', a1 is not None and same_value(g, a1, 'a0'), 'callback arg1 is the stack', loc=s.ins.loc)
        ctx.ob('C06.4', 'arg2 = current thread', a2 is not None and is_load_of(g, a2, 'myth_running_env.this_thread'),
               'callback arg2 is env->this_thread', loc=s.ins.loc)
        frm = s.from_ctx()
        ctx.ob('C06.4', 'saves the sleeper', frm is not None and a2 is not None and g.sources(g.ap(frm).root) == g.sources(a2),
               'the context saved is the sleeper\'s', loc=s.ins.loc)
        early = [c for c in call_sites(g, ('myth_sleep_stack_push',)) if g.can_reach(c, s.ins)]
        ctx.ob('C06.4', 'no push before the switch', not early, 'the sleeper is not on the stack before its context is saved', loc=s.ins.loc)
    ctx.floor('C06.4', 5)


def rule5_wrapper(ctx):
    ctx.doc('C06.5', 'pthread_barrier_wait (both redirection flavours): the serial indicator of the native barrier '
            '(MYTH_BARRIER_SERIAL_THREAD) is translated to PTHREAD_BARRIER_SERIAL_THREAD; every other participant gets 0')
    PTHREAD_SERIAL = -1
    for wfl, name in (('ld', '__wrap_pthread_barrier_wait'), ('dl', 'pthread_barrier_wait')):
        w = ctx.view('myth_wrap_pthread.c', roots=[name], stops=('myth_barrier_wait_body', 'myth_should_wrap_pthread'), flavour=wfl)
        f = ctx.need_fn(w, name)
        cs = call_sites(f, 'myth_barrier_wait_body')
        ctx.ob('C06.5', name + ': forwards', len(cs) == 1 and same_value(f, cs[0].args[0], 'a0'), 'forwards the barrier argument', loc=f.loc)
        if not cs:
            continue
        body = cs[0]
        tests = [ic for ic in f.order if ic.op == 'icmp' and ic.pred in ('eq', 'ne') and same_value(f, ic.ops[0], body.id) and
                 const_int(ic.ops[1]) == SERIAL]
        ctx.ob('C06.5', name + ': tests for the native serial value', len(tests) >= 1, 'ret == MYTH_BARRIER_SERIAL_THREAD is tested', loc=body.loc)
        seen_serial = seen_zero = False
        for val, anchor in ret_cases(f):
            if not lib.reaches_point(f, body, anchor):
                continue
            k = const_int(val)
            if k == PTHREAD_SERIAL:
                seen_serial = True
                ctx.ob('C06.5', name + ': PTHREAD_BARRIER_SERIAL_THREAD only for the serial participant',
                       any(f.on_edge(ic.id, ic.pred == 'eq', anchor) for ic in tests), 'translated value on the serial edge', loc=anchor.loc)
            elif isinstance(val, str) and f.sources(val) == {body.id}:
                seen_zero = True
                ctx.ob('C06.5', name + ': body value passed through only when not serial',
                       any(f.on_edge(ic.id, ic.pred != 'eq', anchor) for ic in tests), 'untranslated value only on the non-serial edge',
                       loc=anchor.loc)
            elif k == 0:
                seen_zero = True
        ctx.ob('C06.5', name + ': serial participant gets PTHREAD_BARRIER_SERIAL_THREAD', seen_serial,
               'a path returning PTHREAD_BARRIER_SERIAL_THREAD exists on the wrapped branch', loc=f.loc)
        ctx.ob('C06.5', name + ': others get zero', seen_zero, 'non-serial participants get the native 0', loc=f.loc)
    ctx.floor('C06.5', 8)


def rule_init_complete(ctx, fl):
    ctx.doc('C06.6', 'initialiser completeness: every field of the barrier that myth_barrier_wait_body read(s), directly or through an inlined helper, '
            'is written by myth_barrier_init_body (an object placed in recycled memory must not depend on its previous contents)')
    vi = ctx.view(NATIVE, roots=['myth_barrier_init_body', 'myth_barrier_wait_body'], stops=('myth_queue_push', 'myth_queue_pop', 'myth_yield_ex_body', 'hr_gettime', 'fprintf', 'exit') + lib.SPIN_STOPS, flavour=fl)
    n = lib.init_covers(ctx, 'C06.6', vi, 'myth_barrier_init_body', ['myth_barrier_wait_body'], 'barrier')
    lib.sleep_container_init_complete(ctx, 'C06.6', fl, 'stack')
    ctx.ob('C06.6', 'fields read by the operations enumerated', n >= 3, 'read set of the operations', loc='src/myth_sync_func.h', detail=str(n))
    # the participant count the waits compare against is the caller's (hand mutant r6), and the arrival counter starts at 0
    bi = ctx.need_fn(vi, 'myth_barrier_init_body')
    np_ = bi.param_named('n_threads')
    sn = bi.stores_to('myth_barrier.n_threads')
    ctx.ob('C06.6', 'init stores the participant count it was given', len(sn) == 1 and np_ is not None and lib.same_value(bi, sn[0].ops[0], np_),
           'barrier->n_threads = n_threads: any other value releases a phase early or never', loc=(sn[0].loc if sn else bi.loc))
    from ..ir import const_int as _ci
    s0 = bi.stores_to('myth_barrier.state')
    ctx.ob('C06.6', 'init starts the arrival counter at 0', len(s0) == 1 and _ci(s0[0].ops[0]) == 0, 'barrier->state = 0', loc=(s0[0].loc if s0 else bi.loc))
    ctx.floor('C06.6', 7)


def run(ctx):
    ctx.unit = 'wrap'
    ctx.attempt(rule5_wrapper, ctx)
    from . import c16
    for wfl in ('ld', 'dl'):
        ctx.unit = wfl
        with ctx.shared({'C16.1': 'C06.8'}, keep=lambda k: k.startswith(('pthread_barrier_init[', 'pthread_barrier_wait[', 'pthread_barrier_destroy[')),
                        floor=12,
                        doc='the redirected barrier functions (shared with C16.1): init, wait and destroy of one barrier object all go to '
                            'MassiveThreads or all to the real library - decided by the wrap switch alone, never by the attribute argument '
                            '(a barrier initialised by glibc and waited on as a myth_barrier_t has a participant count of 0)'):
            v16, ws16 = c16.build_view(ctx, wfl)
            ctx.attempt(c16.rule1_forward, ctx, wfl, v16, ws16)
    for fl in flavours(ctx):
        ctx.unit = fl
        ctx.doc('C06.7', 'native API forwarding: each public entry point of this property reaches the implementation of the same name with its parameters in order and returns its result (sibling slips such as trylock -> lock, signal -> broadcast, swapped arguments)')
        ctx.attempt(lib.native_forwarding, ctx, 'C06.7', fl, lambda n: n.startswith(('myth_barrier_', 'myth_barrierattr_')), floor=4)
        ctx.attempt(rule_init_complete, ctx, fl)
        v = ctx.view(NATIVE, roots=['myth_barrier_wait_body', 'myth_wake_many_from_stack', 'myth_block_on_stack'],
                     stops=('myth_sleep_stack_pop', 'myth_sleep_stack_push', 'myth_queue_push', 'myth_queue_pop'), flavour=fl)
        ctx.attempt(rule1, ctx, v)
        ctx.attempt(rule2, ctx, v)
        ctx.attempt(rule3, ctx, fl, v)
        ctx.attempt(rule4, ctx, v)


SYNC = 'src/myth_sync_func.h'
SQ = 'src/myth_sleep_queue_func.h'
MUTANTS = [
    {'name': 'barrier_init stores one participant fewer than requested (hand mutant r6)', 'expect': 'C06.6',
     'edits': [('src/myth_sync_func.h', "  barrier->n_threads = n_threads;\n  if (attr) {\n    barrier->attr = *attr;", "  barrier->n_threads = n_threads - 1;\n  if (attr) {\n    barrier->attr = *attr;")]},
    {'name': 'native myth_barrier_wait drops the serial-thread result', 'expect': 'C06.7',
     'edits': [('src/myth_if_native.c', "  return myth_barrier_wait_body(barrier);", "  myth_barrier_wait_body(barrier);\n  return 0;")]},
    {'name': 'stack wake chain: tail advances only for the first sleeper', 'expect': 'C06.2',
     'edits': [(SYNC, "      to_wake = myth_sleep_stack_pop_th(s);\n    }\n    to_wake->env = env;\n    to_wake->next = 0;\n    if (to_wake_tail) {\n      to_wake_tail->next = to_wake;\n    } else {\n      to_wake_head = to_wake;\n    }\n    to_wake_tail = to_wake;",
                "      to_wake = myth_sleep_stack_pop_th(s);\n    }\n    to_wake->env = env;\n    to_wake->next = 0;\n    if (to_wake_tail) {\n      to_wake_tail->next = to_wake;\n    } else {\n      to_wake_head = to_wake;\n      to_wake_tail = to_wake;\n    }")]},
    {'name': 'barrier_init forgets the arrival count (seed2 C06/m2)', 'expect': 'C06.6',
     'edits': [(SYNC, '  /* 2 *(number of threads that reached) + invalid */\n  barrier->state = 0;\n', '')]},
    {'name': 'state reset after the wake', 'expect': 'C06.1',
     'edits': [(SYNC, "      barrier->state = 0;\t/* reset state */\n      //myth_wake_many_from_queue(barrier->sleep_q, 0, 0, c);\n      myth_wake_many_from_stack(barrier->sleep_s, 0, 0, c);",
                "      myth_wake_many_from_stack(barrier->sleep_s, 0, 0, c);\n      barrier->state = 0;\t/* reset state */")]},
    {'name': 'serial indicator returned on the sleeper branch', 'expect': 'C06.1',
     'edits': [(SYNC, "      myth_block_on_stack(barrier->sleep_s, 0);\n      return 0;", "      myth_block_on_stack(barrier->sleep_s, 0);\n      return MYTH_BARRIER_SERIAL_THREAD;")]},
    {'name': 'wakes n_threads instead of c', 'expect': 'C06.1',
     'edits': [(SYNC, "      myth_wake_many_from_stack(barrier->sleep_s, 0, 0, c);", "      myth_wake_many_from_stack(barrier->sleep_s, 0, 0, barrier->n_threads);")]},
    {'name': 'last arriver recognised by n_threads (off by one)', 'expect': 'C06.1',
     'edits': [(SYNC, "    if (c == barrier->n_threads - 1) {\n      /* I am the last one. wake up all guys.", "    if (c + 1 >= barrier->n_threads - 1) {\n      /* I am the last one. wake up all guys.")]},
    {'name': 'count incremented without CAS', 'expect': 'C06.1',
     'edits': [(SYNC, "    if (! __sync_bool_compare_and_swap(&barrier->state, c, c + 1)) {\n      continue;\n    }", "    barrier->state = c + 1;")]},
    {'name': 'push inside the pop loop', 'expect': 'C06.2',
     'edits': [(SYNC, "    while (!to_wake) {\n      to_wake = myth_sleep_stack_pop_th(s);\n    }\n    to_wake->env = env;\n    to_wake->next = 0;",
                "    while (!to_wake) {\n      to_wake = myth_sleep_stack_pop_th(s);\n    }\n    to_wake->env = env;\n    if (i == 0 && n > 1) { myth_queue_push(&env->runnable_q, to_wake); }\n    to_wake->next = 0;")]},
    {'name': 'stack wake gives up on an empty pop', 'expect': 'C06.2',
     'edits': [(SYNC, "    while (!to_wake) {\n      to_wake = myth_sleep_stack_pop_th(s);\n    }\n    to_wake->env = env;\n    to_wake->next = 0;",
                "    to_wake = myth_sleep_stack_pop_th(s);\n    if (!to_wake) break;\n    to_wake->env = env;\n    to_wake->next = 0;")]},
    {'name': 'waker waits for a first sleeper regardless of n (seed C06/m2)', 'expect': 'C06.2',
     'edits': [(SYNC, "  myth_thread_t to_wake_head = 0;\n  myth_thread_t to_wake_tail = 0;\n  long i;\n  for (i = 0; i < n; i++) {\n    myth_thread_t to_wake = 0;\n    while (!to_wake) {\n      to_wake = myth_sleep_stack_pop_th(s);",
                "  myth_thread_t to_wake_head = 0;\n  myth_thread_t to_wake_tail = 0;\n  long i;\n  while (!s->top) {\n    empty_loop(100);\n  }\n  for (i = 0; i < n; i++) {\n    myth_thread_t to_wake = 0;\n    while (!to_wake) {\n      to_wake = myth_sleep_stack_pop_th(s);")]},
    {'name': 'pthread wrapper does not translate the serial value (seed C06/m3)', 'expect': 'C06.5',
     'edits': [('src/myth_wrap_pthread.c', "    if (ret == MYTH_BARRIER_SERIAL_THREAD) {\n      ret = PTHREAD_BARRIER_SERIAL_THREAD;\n    } else {\n      assert(ret == 0);\n    }", "    assert(ret == 0 || ret == MYTH_BARRIER_SERIAL_THREAD);")]},
    {'name': 'second popper: cond broadcast reuses the stack pop', 'expect': 'C06.3',
     'edits': [(SYNC, "static inline int myth_cond_broadcast_body(myth_cond_t * cond) {\n  myth_wake_all_from_queue(cond->sleep_q, 0, 0);",
                "static inline int myth_cond_broadcast_body(myth_cond_t * cond) {\n  if (!cond) myth_sleep_stack_pop_th((myth_sleep_stack_t *)cond);\n  myth_wake_all_from_queue(cond->sleep_q, 0, 0);")]},
    {'name': 'stack push links after publishing', 'expect': 'C06.3',
     'edits': [(SQ, "    myth_sleep_queue_item_t t = s->top;\n    x->next = t;\n    if (__sync_bool_compare_and_swap(&s->top, t, x)) {\n      return 0;\n    }",
                "    myth_sleep_queue_item_t t = s->top;\n    if (__sync_bool_compare_and_swap(&s->top, t, x)) {\n      x->next = t;\n      return 0;\n    }")]},
    {'name': 'sleeper pushes itself before switching', 'expect': ['C06.4', 'C06.3'],
     'edits': [(SYNC, "  myth_swap_context_withcall(&cur->context, next_ctx,\n\t\t\t     myth_block_on_stack_cb, s, cur, m);", "  myth_sleep_stack_push_th(s, cur);\n  myth_swap_context_withcall(&cur->context, next_ctx,\n\t\t\t     myth_block_on_stack_cb, s, cur, m);")]},
]
